"""C02 — TL wire format equals the schema-defined serialisation for every constructor."""
import os
import vlib
import tlgen
from checks import c13

SUB = "c02"
MODULES = ["Mtv.Props.C02"]
THEOREMS = [
    "Mtv.TL.encode_eq_spec",
    "Mtv.TL.decode_spec_bytes",
    "Mtv.TL.too_large_refused",
    "Mtv.TL.defMatch_layout",
    "Mtv.TL.covers_of_defMatch",
    "Mtv.TL.covers_api",
    "Mtv.TL.covers_service",
]
RULE = ("stage 1: for every registered constructor, schema-directed values (all flag-group presence patterns for "
        "constructors with at most five conditional fields, type-directed random values otherwise, every enum "
        "member, every conditional bytes / vector field present with length 0 (with and without the other groups), vectors of 70 and 300 (thorough: 33 to 1100) objects each holding an empty vector, vectors of 255, 256, 257, 1023, 1024, 1025, 3000 (thorough: up to 10000) elements of every element kind) are marshalled by the real code and by the Lean schema-defined serialisation (which reads only the "
        "schema line) and the bytes compared; stage 2: the schema-defined bytes are decoded by the real code and "
        "must give the value back, nil-sensitively for conditional slices (present and empty = empty non-nil, absent = nil); "
        "for every conditional string / int / long / double / Bool field the schema bytes with that field present "
        "holding the zero value (which no Go value marshals to) are decoded as well; byte strings at the boundary lengths 0..5, 252..257, 65535, 65536, 2^24 (thorough: "
        "2^24-1, 2^24+1); 128/256-bit integer fields of every constructor that has them with the numbers 0, 1, all ones, 1 / 2 / 8 / 16 / "
        "all-but-one leading zero bytes and the two numbers around the half width on every run; values inside gzip_packed, alone "
        "and as the result of an rpc_result (c02.gz: tl.Marshal's bytes, packed by the harness, through DecodeUnknownObject), "
        "with a string / bytes parameter of 0..70000 bytes, of 2^24-4200 and 2^24-1 bytes and two of more than 2^23 bytes each "
        "(the object unpacks to more than 2^24 bytes; thorough: ten sizes around 2^24); values with SHARING (c02.enc ... alias: "
        "the value is hash-consed after parsing, so that equal sub-objects of the tree are ONE Go pointer / slice - two fields of "
        "one object, two elements of one vector incl. u, x, u, positions at different depths, shared slices and byte strings; "
        "c02.enc ... distinct is the control) against the schema-defined bytes of the tree; c02.big: a string, a bytes, a "
        "Vector<string> element and a Vector<bytes> element parameter of constructors drawn from the registry with 0, 1, 252..257, "
        "65535..65537 bytes and at the limit of the format (2^24-1: byte-exact; 2^24, 2^24+5: refused; quick: the limit for every "
        "kind and the neighbours for the string parameter, thorough: 2^24-2..2^24+5 for every kind), through tl.Marshal (a "
        "bytes.Buffer) and through tl.NewEncoder(w).PutVector over a writer that has Write and nothing else; c02.str with the byte "
        "string as []byte (PutMessage), as a Go string (PutString) and as the element of a []string (PutVector), into a "
        "bytes.Buffer and into a plain writer. distinct = distinct operation lines")


def run(ctx):
    ctx.assumptions += [
        "the schema tables are regenerated from schemes/*.tl on every run (translator validated inside Lean, see C13)",
        "types registered without a schema line (C13's known finding) have no schema-defined serialisation and are skipped",
        "compress/gzip is not modelled: for c02.gz the decoder model's gunzip parameter answers the schema-defined bytes of the packed value (the harness' packing unpacks to what was packed)",
    ]
    if not ctx.build_harness():
        ctx.report_unexplained("go build of the harness against the working tree", ctx.obligations[-1][2][-800:])
        return ctx.finish(rule=RULE)
    c13.regen(ctx)
    ok = ctx.lean_check(MODULES, THEOREMS_RUNTIME())
    mism, judged, meta = ctx.correspond(SUB, label="gen")
    for v in judged:
        ctx.report_failing_input(v, "property oracle on the real code")
    skipped = 0
    d = os.path.join(ctx.work, "c02-gen")
    stage2 = []
    if mism is not None and os.path.exists(os.path.join(d, "lean.out")):
        ops = open(os.path.join(d, "ops.txt")).read().splitlines()
        le = open(os.path.join(d, "lean.out")).read().splitlines()
        go = open(os.path.join(d, "go.out")).read().splitlines()
        for op, l, g in zip(ops, le, go):
            if op.startswith("c02.encz "):
                # schema bytes in which a conditional scalar parameter is present with the zero value of its
                # type: no Go value marshals to them (the Go side answers enc=-); stage 2 decodes them
                if l == "enc=notInSchema":
                    skipped += 1
                elif l.startswith("enc=") and l not in ("enc=err", "enc=panic"):
                    t = op.split()
                    stage2.append("c02.dec %s %s %s" % (l[4:], t[2], t[3]))
                else:
                    ctx.report_unexplained("the schema side gives no bytes for: " + op[:200], {"lean": l})
                continue
            if op.startswith("c02.gz "):
                # a value inside gzip_packed: the Go side prints length + digest of tl.Marshal's bytes and what
                # DecodeUnknownObject made of the packed form, the Lean side those of the schema-defined bytes
                # and the decoder model's answer (the Go-side oracle has judged "dec=ok" already)
                if l.startswith("enc=notInSchema"):
                    skipped += 1
                elif l != g:
                    ctx.report_failing_input({"op": op[:100000], "out": g[:400],
                                              "why": "a value inside gzip_packed: real code: %s; schema-defined bytes / decoder model: %s" % (g[:200], l[:200])},
                                             "gzip_packed: tl.Marshal vs the schema-defined serialisation, DecodeUnknownObject of the packed form")
                continue
            if op.startswith("c02.big "):
                # a string / bytes / Vector<string> / Vector<bytes> parameter of the length the last tokens say, through
                # tl.Marshal or an Encoder over a plain writer: length and digest of the bytes, or the refusal
                if l.startswith("enc=notInSchema"):
                    skipped += 1
                elif l != g:
                    ctx.report_failing_input({"op": op[:100000], "out": g[:400],
                                              "why": "a long string / bytes parameter: real code: %s; schema-defined serialisation (enc=err: the value is too large for the format and must be refused): %s" % (g[:200], l[:200])},
                                             "stage 1 (long byte strings in parameters): tl.Marshal / Encoder vs the serialisation the schema line defines")
                continue
            if not op.startswith("c02.enc "):
                if l != g:
                    ctx.report_failing_input({"op": op, "out": g, "why": "real code: %s; schema-defined: %s" % (g[:200], l[:200])},
                                             "stage 1 (byte strings)")
                continue
            if l == "enc=notInSchema":
                skipped += 1
                continue
            if l != g:
                shared = ("the value has ONE Go object at several positions (alias: equal sub-objects of the tree shown are the same pointer / slice); " 
                          if op.endswith(" alias") else "")
                ctx.report_failing_input({"op": op, "out": g[:400],
                                          "why": shared + "bytes differ from the schema-defined serialisation: " + l[:400]},
                                         "stage 1: tl.Marshal vs the serialisation the schema line defines")
                continue
            if l.startswith("enc=") and l not in ("enc=err", "enc=panic"):
                stage2.append("c02.dec %s %s" % (l[4:], op.split()[2]))
    ctx.coverage_extra["skipped_not_in_schema"] = skipped
    if stage2:
        f = os.path.join(ctx.work, "stage2.ops")
        open(f, "w").write("\n".join(stage2) + "\n")
        mism2, judged2, meta2 = ctx.correspond(SUB, ops_file=f, label="stage2")
        d2 = os.path.join(ctx.work, "c02-stage2")
        if os.path.exists(os.path.join(d2, "go.out")):
            ops2 = open(os.path.join(d2, "ops.txt")).read().splitlines()
            go2 = open(os.path.join(d2, "go.out")).read().splitlines()
            le2 = open(os.path.join(d2, "lean.out")).read().splitlines()
            for op, g, l in zip(ops2, go2, le2):
                if g != "ok":
                    ctx.report_failing_input({"op": op[:100000], "out": g, "why": "bytes built from the schema do not decode to the value (real decoder: %s, model decoder: %s; diff-nil = a conditional field present with length 0 comes back nil (absent) or the reverse)" % (g, l)},
                                             "stage 2: tl.DecodeUnknownObject on schema-defined bytes")
                elif l != "ok":
                    ctx.report_unexplained("decoder model disagrees on schema-defined bytes: " + op[:200], {"go": g, "lean": l})
    ctx.obligation("correspondence: tl.Marshal == schema-defined serialisation, and its inverse, on every generated value",
                   not [v for v in ctx.violations if not v.get("no_input")], "")
    if not ok and not ctx.violations:
        for o in [o for o in ctx.obligations if not o[1]]:
            ctx.report_unexplained("proof obligation no longer checks: " + o[0], o[2][:800])
    return ctx.finish(rule=RULE)


def THEOREMS_RUNTIME():
    return THEOREMS


def replay(ctx, path):
    import json
    rep = json.load(open(path))
    if not ctx.build_harness():
        return 1
    c13.regen(ctx)
    ctx.lake(["drv-c02"])
    f = os.path.join(ctx.work, "replay.ops")
    open(f, "w").write("\n".join(rep.get("ops", [])) + "\n")
    mism, judged, meta = ctx.correspond(SUB, ops_file=f, label="replay")
    rc = 0
    d = os.path.join(ctx.work, "c02-replay")
    ops = open(os.path.join(d, "ops.txt")).read().splitlines()
    go = open(os.path.join(d, "go.out")).read().splitlines()
    le = open(os.path.join(d, "lean.out")).read().splitlines()
    for op, g, l in zip(ops, go, le):
        bad = (op.startswith("c02.dec") and g != "ok") or (not op.startswith("c02.dec") and not op.startswith("c02.encz ") and g != l
                                                            and not l.startswith("enc=notInSchema"))
        if bad:
            print("REPRODUCED: %s\n  real code: %s\n  schema-defined: %s" % (op[:300], g[:300], l[:300]))
            rc = 1
    for v in judged or []:
        print("REPRODUCED: %s\n  real code: %s\n  oracle: %s" % (v["op"][:300], v["out"][:300], v["why"][:300]))
        rc = 1
    if rc == 0:
        print("replay passes")
    return rc
