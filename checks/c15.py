"""C15 — decoding arbitrary bytes never panics, loops or over-allocates."""
import vlib
import tlgen

SUB = "c15"
# the schema reader / value builder / writer the schema-built inputs are made with (shared with C13's end-to-end part)
EXTRA_FILES = ("c13e2e.go", "c13groups_build.go")
MODULES = ["Mtv.Props.C15", "Mtv.Props.C15Cost"]
THEOREMS = [
    "Mtv.TL.decoder_safe",
    "Mtv.TL.decodeUnknown_no_panic",
    "Mtv.TL.decodeNamed_no_panic",
    "Mtv.TL.vector_count_guard",
    "Mtv.TL.raw_size_guard",
    "Mtv.TL.readN_ne_panic",
    "Mtv.TL.popMessage_ne_panic",
    "Mtv.TL.decMembers_ne_panic",
    # never loops: more fuel never changes a result; an explicit fuel is never exhausted; depth of packed objects
    "Mtv.TL.fuel_mono_all",
    "Mtv.TL.fuel_mono_decVal",
    "Mtv.TL.fuel_mono_decVecBody",
    "Mtv.TL.fuel_mono_decItems",
    "Mtv.TL.fuel_mono_decStruct",
    "Mtv.TL.fuel_mono_decFields",
    "Mtv.TL.fuel_mono_decRegistered",
    "Mtv.TL.fuel_mono_decodeUnknown",
    "Mtv.TL.fuel_mono_decodeNamed",
    "Mtv.TL.decoder_consumes",
    "Mtv.TL.level_enough",
    "Mtv.TL.depth_enough",
    "Mtv.TL.decode_never_loops",
    "Mtv.TL.decode_fuel_irrelevant",
    "Mtv.TL.decode_never_loops_plain",
    "Mtv.TL.nested_packed_refused",
    "Mtv.TL.nested_packed_opened",
    # allocation: the cost semantics (Mtv/TL/DecodeCost.lean) erases to the decoder and is linear in the input
    # and in what gunzip really produced
    "Mtv.TL.cost_erasure",
    "Mtv.TL.cost_bound_all",
    "Mtv.TL.costMembers_bound",
    "Mtv.TL.popMessage_cost",
    "Mtv.TL.decode_alloc_linear",
    "Mtv.TL.decode_alloc_linear_named",
    "Mtv.TL.decode_alloc_linear_plain",
]
RULE = ("structure-aware mutation: a valid encoding of every registered struct constructor, then prefix truncations "
        "(aligned and unaligned), 32-bit words replaced by other registered ids / enum ids / vector, Bool, null, gzip, "
        "container, msg_copy ids / boundary integers, single-bit flips; every enum id alone and inside rpc_result; "
        "vectors at the root and inside rpc_result under ten hint sets with counts up to 2^32-1; containers with "
        "every sign and magnitude of count and size and every truncation; gzip_packed valid / nested / corrupted / "
        "garbage; gzip members with every header / trailer field changed (ISIZE, CRC-32, MTIME, XFL, OS, CM, FLG bits with "
        "FEXTRA lengths / FNAME / FCOMMENT / FHCRC, several members, trailing bytes, cuts, lying stored-block lengths), alone, "
        "inside rpc_result and one packed level further in; packed objects nested 0..8 and up to 1000+ (thorough 3000+) levels "
        "(c15.nest: stored-block gzip members written identically by the harness and the Lean driver) at the root, inside "
        "rpc_result, in every level's rpc_result, inside a container member; every constructor that can contain itself "
        "(found through the registry) repeated 1..1000+ (thorough 4000+) times with every count = bytes left / bytes left + 1 / "
        "a quarter / a twelfth / 2^31-1 / 1 / 2, unhinted, hinted and into the named type (c15.rep); "
        "hostile string headers; random bytes. Inputs built from the SCHEMA (own reader of schemes/api_latest.tl and own "
        "writer, c13e2e.go / c13groups_build.go - not the repository's encoder, which refuses or never makes some "
        "well-formed inputs): for every registered constructor and function with a flags word, no conditional parameter "
        "present / all present / each flag bit alone / random sets of bits, well-formed values after the flags word, and "
        "the all-present encoding cut at word boundaries. Concurrent decoding (c15.par): batches covering every registered "
        "struct constructor are decoded by 2-16 goroutines released together, each in its own order, each batch in a NEW "
        "process (nothing decoded before: per-process state such as a cache is cold), and two batches again in the harness "
        "process at the end; every member must have the result of the sequential model in every goroutine and the process "
        "must survive (a Go fatal error is neither a value nor an error). Each input is decoded (unknown object or named type) by the "
        "real code under recover with time and allocation accounting (every decode: at most 5 s and 2 MiB + 2 KiB per input byte + "
        "48 per byte its packed objects really inflate to) and by the Lean model with the fuel of decode_never_loops; outcome class and value compared. "
        "c15.cost: every fourth of these inputs, every input with a packed object and every recursive-count input up to 2 KiB again with the "
        "model's allocation cost (units, gunzip calls, bytes gunzip produced) next to the result and the real allocation judged against it. "
        "distinct = distinct operation lines")


def _export_driver(ctx):
    # c15.cost: the Go side asks the Lean driver of this run for the model's cost of the operation (c15cost.go)
    import os
    os.environ["VERIF_C15_DRIVER"] = vlib.driver_path(ctx.prop)


def run(ctx):
    _export_driver(ctx)
    ctx.assumptions += [
        "compress/gzip is not modelled: the harness records what gzip makes of every packed payload occurring in an input and the model uses that table",
        "allocation and time are measured on the Go side (runtime.MemStats.TotalAlloc delta per call, bound 2 MiB + 2 KiB per input byte + 48 per byte "
        "the packed objects of the input inflate to according to compress/gzip run by the harness; 5 s per call); the Lean side proves the size guards, "
        "the depth limit of packed objects, the fuel bound (depth of the call tree) and - for the model's cost semantics, in allocation units - "
        "the linear cost bound (decode_alloc_linear); c15.cost ties units to bytes: the model's cost of the operation is taken from the Lean driver "
        "of the run and the real decode's TotalAlloc must stay below 1024*alloc + 96 KiB*gzCalls + 48*gzOut + 64 KiB (constants justified in c15cost.go)",
        "c15.nest: the stored-block gzip writer of harness and Lean driver is checked against compress/gzip on every operation; the model's gunzip "
        "for these operations is the reader of such members",
        "schema-built inputs: the schema reader, value builder and writer of harness/cmd/vh/c13e2e.go + c13groups_build.go are trusted "
        "(nested objects are the smallest constructor of their type); concurrent decoding: the schedule is the Go runtime's - "
        "what is exercised is 2-16 goroutines released together over 48 inputs in different orders, in a process that has decoded nothing yet",
        "hints passed by callers are slice types (a non-slice hint panics in reflect: caller error, outside the property)",
    ]
    return vlib.generic_check(ctx, SUB, MODULES, THEOREMS, RULE, gen_hook=tlgen.regen_registry,
                              extra_files=EXTRA_FILES)


def replay(ctx, path):
    _export_driver(ctx)
    build = ctx.build_harness
    ctx.build_harness = lambda extra_files=(): build(EXTRA_FILES)  # vlib.replay builds without extra files
    return vlib.replay(ctx, SUB, path)
