"""C15 — decoding arbitrary bytes never panics, loops or over-allocates."""
import vlib
import tlgen

SUB = "c15"
MODULES = ["Mtv.Props.C15"]
THEOREMS = [
    "Mtv.TL.decoder_safe",
    "Mtv.TL.decodeUnknown_no_panic",
    "Mtv.TL.decodeNamed_no_panic",
    "Mtv.TL.vector_count_guard",
    "Mtv.TL.raw_size_guard",
    "Mtv.TL.readN_ne_panic",
    "Mtv.TL.popMessage_ne_panic",
    "Mtv.TL.decMembers_ne_panic",
]
RULE = ("structure-aware mutation: a valid encoding of every registered struct constructor, then prefix truncations "
        "(aligned and unaligned), 32-bit words replaced by other registered ids / enum ids / vector, Bool, null, gzip, "
        "container, msg_copy ids / boundary integers, single-bit flips; every enum id alone and inside rpc_result; "
        "vectors at the root and inside rpc_result under ten hint sets with counts up to 2^32-1; containers with "
        "every sign and magnitude of count and size and every truncation; gzip_packed valid / nested / corrupted / "
        "garbage; hostile string headers; random bytes. Each input is decoded (unknown object or named type) by the "
        "real code under recover with allocation accounting and by the Lean model; outcome class and value compared. "
        "distinct = distinct operation lines")


def run(ctx):
    ctx.assumptions += [
        "compress/gzip is not modelled: the harness records what gzip makes of every packed payload occurring in an input and the model uses that table",
        "allocation is measured on the Go side (runtime.MemStats.TotalAlloc delta per call, bound 4 MiB + 2 KiB per input byte, gzip inputs excepted); the Lean side proves the size guards",
        "hints passed by callers are slice types (a non-slice hint panics in reflect: caller error, outside the property)",
    ]
    return vlib.generic_check(ctx, SUB, MODULES, THEOREMS, RULE, gen_hook=tlgen.regen_registry)


def replay(ctx, path):
    return vlib.replay(ctx, SUB, path)
