"""C15 — decoding arbitrary bytes never panics, loops or over-allocates."""
import vlib
import tlgen

SUB = "c15"
# the schema reader / value builder / writer the schema-built inputs are made with (shared with C13's end-to-end part)
EXTRA_FILES = ("c13e2e.go", "c13groups_build.go")
MODULES = ["Mtv.Props.C15"]
THEOREMS = [
    "Mtv.TL.decoder_safe",
    "Mtv.TL.decodeUnknown_no_panic",
    "Mtv.TL.decodeNamed_no_panic",
    "Mtv.TL.vector_count_guard",
    "Mtv.TL.raw_size_guard",
    "Mtv.TL.readN_ne_panic",
    "Mtv.TL.popMessage_ne_panic",
    "Mtv.TL.decMembers_ne_panic",
]
RULE = ("structure-aware mutation: a valid encoding of every registered struct constructor, then prefix truncations "
        "(aligned and unaligned), 32-bit words replaced by other registered ids / enum ids / vector, Bool, null, gzip, "
        "container, msg_copy ids / boundary integers, single-bit flips; every enum id alone and inside rpc_result; "
        "vectors at the root and inside rpc_result under ten hint sets with counts up to 2^32-1; containers with "
        "every sign and magnitude of count and size and every truncation; gzip_packed valid / nested / corrupted / "
        "garbage; hostile string headers; random bytes. Inputs built from the SCHEMA (own reader of schemes/api_latest.tl and own "
        "writer, c13e2e.go / c13groups_build.go - not the repository's encoder, which refuses or never makes some "
        "well-formed inputs): for every registered constructor and function with a flags word, no conditional parameter "
        "present / all present / each flag bit alone / random sets of bits, well-formed values after the flags word, and "
        "the all-present encoding cut at word boundaries. Concurrent decoding (c15.par): batches covering every registered "
        "struct constructor are decoded by 2-16 goroutines released together, each in its own order, each batch in a NEW "
        "process (nothing decoded before: per-process state such as a cache is cold), and two batches again in the harness "
        "process at the end; every member must have the result of the sequential model in every goroutine and the process "
        "must survive (a Go fatal error is neither a value nor an error). Each input is decoded (unknown object or named type) by the "
        "real code under recover with allocation accounting and by the Lean model; outcome class and value compared. "
        "distinct = distinct operation lines")


def run(ctx):
    ctx.assumptions += [
        "compress/gzip is not modelled: the harness records what gzip makes of every packed payload occurring in an input and the model uses that table",
        "allocation is measured on the Go side (runtime.MemStats.TotalAlloc delta per call, bound 4 MiB + 2 KiB per input byte, gzip inputs excepted); the Lean side proves the size guards",
        "schema-built inputs: the schema reader, value builder and writer of harness/cmd/vh/c13e2e.go + c13groups_build.go are trusted "
        "(nested objects are the smallest constructor of their type); concurrent decoding: the schedule is the Go runtime's - "
        "what is exercised is 2-16 goroutines released together over 48 inputs in different orders, in a process that has decoded nothing yet",
        "hints passed by callers are slice types (a non-slice hint panics in reflect: caller error, outside the property)",
    ]
    return vlib.generic_check(ctx, SUB, MODULES, THEOREMS, RULE, gen_hook=tlgen.regen_registry,
                              extra_files=EXTRA_FILES)


def replay(ctx, path):
    build = ctx.build_harness
    ctx.build_harness = lambda extra_files=(): build(EXTRA_FILES)  # vlib.replay builds without extra files
    return vlib.replay(ctx, SUB, path)
