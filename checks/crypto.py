"""CRYPTO — executable Lean primitives (SHA-1/256/512, HMAC-SHA-512, PBKDF2, AES-256, CRC-32) against
Go's standard library. A supporting component, not a property of the repository."""
import vlib

SUB = "crypto"
MODULES = ["Mtv.Props.CRYPTO"]
THEOREMS = [
    # proved for all inputs
    "Mtv.Crypto.sha1_length",
    "Mtv.Crypto.sha256_length",
    "Mtv.Crypto.sha512_length",
    "Mtv.Crypto.hmacSha512_length",
    "Mtv.Crypto.aes256EncryptBlock_length",
    "Mtv.Crypto.aes256DecryptBlock_length",
    "Mtv.Crypto.crc32_lt",
    "Mtv.Crypto.output_lengths",
    "Mtv.Crypto.pbkdf2HmacSha512_length",
    # published vectors evaluated by the kernel (tests)
    "Mtv.Crypto.Vectors.sha1_empty",
    "Mtv.Crypto.Vectors.sha1_abc",
    "Mtv.Crypto.Vectors.sha1_abc56",
    "Mtv.Crypto.Vectors.sha256_empty",
    "Mtv.Crypto.Vectors.sha256_abc",
    "Mtv.Crypto.Vectors.sha256_abc56",
    "Mtv.Crypto.Vectors.sha512_empty",
    "Mtv.Crypto.Vectors.sha512_abc",
    "Mtv.Crypto.Vectors.hmacSha512_rfc4231_2",
    "Mtv.Crypto.Vectors.aes256_fips197_enc",
    "Mtv.Crypto.Vectors.aes256_fips197_dec",
    "Mtv.Crypto.Vectors.crc32_check",
    "Mtv.Crypto.Vectors.crc32_empty",
]
RULE = ("operations: published vectors (FIPS 180-4, RFC 4231, PBKDF2-HMAC-SHA512 with RFC 6070's inputs, "
        "FIPS-197 C.3, SP 800-38A, CRC check value; the Go result is compared with the literal published "
        "value), every message length 0..200 and around 256/512/1024/4096 for each hash, HMAC key lengths "
        "0..300, random inputs up to 64 KiB and 3 MB patterns, PBKDF2 with 0/1/2/3/10/1000/100000 iterations "
        "and dkLen across block boundaries, random and structured AES-256 keys/blocks in both directions, "
        "long hash/cipher chains; distinct = distinct operation lines; each compared Go stdlib vs compiled Lean")


def run(ctx):
    ctx.assumptions += [
        "Go's crypto/sha1, sha256, sha512, hmac, aes, hash/crc32 and x/crypto/pbkdf2 are the reference: "
        "the Lean primitives are tested against them, not proved equal to the standards",
        "the compiled Lean driver (Lean compiler + C toolchain) computes what the definitions denote; "
        "a few published vectors are additionally evaluated by the kernel",
    ]
    return vlib.generic_check(ctx, SUB, MODULES, THEOREMS, RULE)


def replay(ctx, path):
    return vlib.replay(ctx, SUB, path)
