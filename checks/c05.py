"""C05 — AES-256-IGE and its padding wrappers are correct for every key, IV and length."""
import vlib

SUB = "c05"
MODULES = ["Mtv.Props.C05", "Mtv.Props.Arith"]
THEOREMS = [
    "Mtv.Ige.ige_regs_eq_spec",
    "Mtv.Ige.ige_bytes_eq_spec",
    "Mtv.Ige.ige_input_unchanged",
    "Mtv.Ige.igeDec_igeEnc",
    "Mtv.Ige.igeEnc_igeDec",
    "Mtv.Ige.ige_code_roundtrip",
    "Mtv.Ige.ige_refuses",
    "Mtv.Ige.encrypt_pad",
    "Mtv.Ige.decrypt_msg",
    "Mtv.Ige.short_key_refused",
    "Mtv.Ige.tempKeys_eq_spec",
    "Mtv.Ige.decryptTemp_of_conformant",
    "Mtv.Ige.tempWrap_roundtrip",
    "Mtv.Ige.encryptTemp_conformant",
    "Mtv.Ige.ige_buffers_unchanged",
    "Mtv.Ige.tempKey_inputs_differ",
    "Mtv.Ige.tempKeys_separate",
    "Mtv.Ige.tempKeys_no_partial_memo",
    "Mtv.Ige.orig_decryptTemp_unpadded_panics",
    "Mtv.Ige.orig_tempPad_sixteen",
    "Mtv.Ige.orig_tempKeys_leading_zero",
]
RULE = ("operations on the real internal/aes_ige code: doAES256IGEencrypt/decrypt through the verif hooks for every "
        "block count 1..64 (thorough 1..1024) with fresh random key/IV each (degenerate all-zero / repeated-block "
        "data and special IVs included) and long inputs: 96..2049 blocks around every power of two and its multiples "
        "(127/128/129, 255/256/257, 511/512/513, 767..769, 1023..1025, 1536, 2047..2049; thorough also 4095..4097, "
        "8191..8193) plus random counts up to 4096, data given as short tokens (r<n>:<seed> LCG bytes, p<n>), "
        "the caller's input and pre-filled output buffers observed after the call, "
        "refused lengths 0,1,15,17,31,...; Encrypt/Decrypt for every residue of len mod 16 at four (thorough six) "
        "magnitudes, long messages (2047..32769 bytes around the multiples of 4096, random up to 64 KiB) plus the "
        "auth-key length guard; generateTempKeys for nonces with 0/1/2 leading zero bytes (both, "
        "all nine combinations), tiny and oversized values, the repository's fixture; EncryptMessageWithTempKeys + "
        "DecryptMessageWithTempKeys for every payload length 0..512 (every residue of (20+len) mod 16) with the "
        "padding made reproducible by seeding math/rand; a conformant peer's messages (independent crypto/aes + "
        "crypto/sha1 implementation written from the definitions) for every answer length 0..512, every padding "
        "amount 0..15 under every leading-zero combination; long payloads (4-32 KiB) for both directions of the "
        "key-exchange wrapper and the unpadded hook (256..2048 blocks); the unpadded hook and garbage ciphertexts. Every "
        "argument of every operation lives in long-lived caller memory refilled in place (big.Ints; every byte-string argument a "
        "window into ONE long-lived array, between 48-byte guard zones of a never-zero pattern or — a quarter of the operations "
        "— back to back with the next argument; the slice handed over has capacity to the end of the array (half of the "
        "operations), exactly its length, or its length + 1..15; the whole array is compared with its image from just before "
        "the call, outside and inside the arguments, when the call has returned and again after the collections): each "
        "operation runs first with the complement of its arguments, then with its own (reported) ones, and the "
        "arguments are overwritten after the call returned (the result must not move). After every operation has "
        "returned and its buffers were compared, two garbage collections are forced and the finalizer goroutine is "
        "waited for (sentinel finalizers), then every caller-owned buffer, integer and result is compared again "
        "(caller-buffer-changed-after-gc). "
        "Refused inputs of VALID length for DecryptMessageWithTempKeys (c05.tdecbad: a conformant message with one bit "
        "flipped anywhere / in the last / in the first block, random ciphertext of the same length, a message made under "
        "other nonces — every padding amount 0..15; c05.tdecraw of 2..256 blocks), and for half of the c05.tdec / c05.tenc "
        "operations the call before (the decoy pass) is handed the complement of the good ciphertext — refused — with no "
        "collection before the reported call. Batches: c05.seq | op | op … runs ordinary operations one after another on "
        "one goroutine with nothing (no forced collection) in between — refused, intact, refused, intact … with every "
        "kind of refusal and both kinds of intact message, under the same and under fresh nonces, plus random orders of "
        "all operation kinds; c05.par <rounds> <iters> | op | op … runs 4..12 ordinary operations at the same time, one "
        "goroutine each, all released from a spin barrier together, <iters> calls in a row, <rounds> times (Encrypt under "
        "n auth keys, Encrypt+Decrypt under ONE auth key, Decrypt, the very same call n times, the key-exchange wrappers "
        "with damaged answers among them, the cipher-level functions / cipher objects, everything mixed): per member the "
        "result line of the ordinary operation — the first concurrent result that differs from the member's result alone, "
        "else that — judged by the same oracle and answered by the Lean driver member by member; a panic in a goroutine "
        "is that member's result; conc=same unless some member's concurrent result differed from its result alone. "
        "One argument changing from call to call (c05one.go): for generateTempKeys, DecryptMessageWithTempKeys (a conformant "
        "peer's answer), EncryptMessageWithTempKeys, encryptMessageWithTempKeys, Encrypt, Decrypt, generateAESIGE (both "
        "directions; new operation c05.kdf through the verif hook), NewCipher+encrypt, NewCipher+decrypt, MessageKey (new "
        "operation c05.mkey) and for EVERY argument position of each: base, v1, v2, base, v3, v4 where only that argument "
        "differs and every other one is equal by value; the v_k: a new random value, one bit flipped in the last / first / "
        "some byte of the part the function reads, the same head with a new tail, the same tail with a new head, 1..3 leading "
        "zero bytes (nonces), one step longer / shorter (messages, block data); plus the direction as the changing argument "
        "(c05.kdf 0/1, c05.enc/c05.dec, Encrypt/Decrypt on the same values) and the key-exchange operations mixed under one "
        "fixed nonce. Every chain runs as c05.seq (fresh private buffers per call) and as c05.seqip (every argument in the "
        "SAME long-lived caller memory — one array layout for the whole sequence, the two long-lived big.Ints — refilled in "
        "place, no decoy pass, no collection between the calls, memory checks on); c05.par batches with one argument shared "
        "by all goroutines. Every member judged by the independent derivation / conformant peer / IGE definition. "
        "distinct = distinct operation lines; each is compared with the Lean register model (Lean AES-256/SHA-1 "
        "plugged in) and judged by the independent reference implementation")


def run(ctx):
    ctx.assumptions += [
        "AES-256 block encryption/decryption is a parameter of the theorems: any pair E,D of length-preserving, "
        "mutually inverse maps on 16-byte blocks (IsBlockCipher). SHA-1 is a parameter H assumed to return 20 bytes. "
        "The executable Lean AES-256 and SHA-1 used by the driver are compared with Go's crypto/aes and crypto/sha1 "
        "on every operation of this run (and by the CRYPTO check).",
        "the cut-point search of DecryptMessageWithTempKeys is proved correct under the explicit hypothesis "
        "NoLongerCollision: no candidate 'answer + non-empty prefix of its padding' has the SHA-1 of the answer "
        "(cryptographic; not a theorem).",
        "math/big: SetBytes/Bytes modelled as Nat <-> minimal big-endian bytes; negative nonces are outside the model.",
        "model boundaries: 32-byte IV, len(out) = len(in), in and out do not overlap (true of every caller in /repo); "
        "the padding bytes of EncryptMessageWithTempKeys are an input of the model (the stream dry.RandomBytes delivers).",
    ]
    return vlib.generic_check(ctx, SUB, MODULES, THEOREMS + vlib.ARITH_THEOREMS["C05"], RULE, gen_hook=vlib.regen_arith)


def replay(ctx, path):
    return vlib.replay(ctx, SUB, path)
