"""C17 — RPC errors reach the caller as structured errors for every error text (theorems: TryExpandError,
RpcErrorToNative, the tables, the decision logic of tryToProcessErr; delivery through the real request path is
exercised by the c17.rpc operations)."""
import os

import vlib

SUB = "c17"
MODULES = ["Mtv.Props.C17", "Mtv.Props.C17Life", "Mtv.Props.C17Inflight"]
THEOREMS = [
    "Mtv.Client.tryExpand_total",
    "Mtv.Client.tryExpand_param",
    "Mtv.Client.tryExpand_plain",
    "Mtv.Client.rows_disjoint",
    "Mtv.Client.non_numeric_is_plain",
    "Mtv.Client.known_description",
    "Mtv.Client.param_description",
    "Mtv.Client.code_preserved",
    "Mtv.Client.percent_safe",
    "Mtv.Client.processErr_source_shape",
    "Mtv.Client.migrate_configured",
    "Mtv.Client.migrate_unconfigured_is_error",
    "Mtv.Client.dclist_after_calls",
    "Mtv.Client.migrate_after_calls",
    "Mtv.Client.other_errors_returned",
    "Mtv.Client.onRpcError_total",
    "Mtv.Client.held_errors_are_the_callers_own",
    "Mtv.Client.returned_errors_unaffected_by_holders",
    "Mtv.Client.returned_after_scribbling",
    "Mtv.Client.held_error_kept",
    "Mtv.Client.shared_cells_change_held_errors",
    "Mtv.Client.Life.stepS_refines",
    "Mtv.Client.Life.runS_refines",
    "Mtv.Client.Life.stepS_no_overlap",
    "Mtv.Client.Life.runS_no_overlap",
    "Mtv.Client.Life.reader_survives_connection_loss_serialised",
    "Mtv.Client.Life.stranding_history_excluded",
    "Mtv.Client.process_keeps_unnamed",
    "Mtv.Client.step_keeps_unnamed",
    "Mtv.Client.Life.unnamed_request_stays_pending",
    "Mtv.Client.Life.second_migrating_call_is_stranded",
    "Mtv.Client.Life.migrate_with_hangup_settles",
]
RULE = ("operations: every row of specificErrors (regenerated from the source) and every family of the "
        "specification × 26 parameter strings (absent, zero, signed, leading zeros, 2^31, 2^63-1, 2^63, -2^63, "
        "-2^63-1, 2^64, letters, underscore, non-ASCII digit, spaces, % verbs) × with/without prefix/suffix; "
        "prefix-only, overlapping prefix/suffix, prefix of one row with suffix of another; every catalogued name "
        "and its X replaced by a number; int32 codes incl. negative and extreme; random texts with % verbs and raw "
        "bytes; random digit strings of 1..22 digits in every family; tryToProcessErr on a client connected to "
        "loopback listeners (configured / unconfigured / non-numeric / other errors); rpc_error answers through the real "
        "request path against the scripted peer (c17.rpc); the whole request path for the error the client handles "
        "(c17.req / c17.req2: MakeRequest against a home peer that answers rpc_error <every kind of code> PHONE_MIGRATE_n, "
        "data centre n configured through SetDCList to a second peer of the harness / not configured / other texts; the "
        "second peer answers pong or an error of its own); two MTProto values in one process, one configured before / "
        "between / after the other (c17.two); every kind of call through that path (c17.home / c17.call: MakeRequest with an "
        "object or Bool answer, MakeRequestWithHintToDecoder with bare Vector<long> / Vector<int> / Vector<object> answers of "
        "0..20000 elements, delivered plain / gzip_packed / in a msg_container / both, answered at the home peer and at the data "
        "centre the request is repeated at after PHONE_MIGRATE_n: the caller gets exactly the value that peer made for this "
        "request, as the Go type that kind of call returns); the migration under what surrounds it (c17.hist): the client's "
        "session store works / always fails (load-only, read-only) / is slow / is the library's file store / is the file store "
        "with its directory removed, and the data-centre table is made by a HISTORY of SetDCList calls (2-4 calls with disjoint, "
        "overlapping, overriding, repeated, empty arguments, before and after CreateConnection) followed by PHONE_MIGRATE_n for every "
        "id the history configures (the last call that names it decides) and for ids it does not; identity of the errors handed out (c17.ident / c17.callers): SEQUENCES of 2-100 replies converted in "
        "one process (same text with different codes, same family with different parameters, everything the same, every "
        "catalogued name twice with two codes, unknown texts) where every earlier error is HELD and examined again (code, "
        "message, description, parameter, Error() text) after all later conversions, where every caller writes into the error "
        "it was given before the next conversion, from 2-16 goroutines released together, and through the real client (one "
        "caller per reply: one after the other, all in flight answered in order / in reverse order / each answered after the "
        "previous caller returned); the migration while the old data centre hangs up (c17.race): the home peer answers rpc_error 303 "
        "PHONE_MIGRATE_2 and closes the connection right behind the frame (FIN; thorough: half-close, RST, delays of 50-300 us), so "
        "that the caller's goroutine and the reading routine both replace the connection - 120 runs each under GOMAXPROCS 1, 2 and "
        "16 (thorough: 700, and goroutines held at the yield points): in EVERY run the call returns the new data centre's answer for "
        "this request, a request issued afterwards completes there, the new data centre has exactly one open connection (the one "
        "that carried both), the old one none opened later, and exactly one goroutine is in the receive loop - interleavings are "
        "SAMPLED, not enumerated. distinct = distinct operation "
        "lines; each is compared with the Lean model and judged by the independent oracle of the property text")

GEN_LEAN = os.path.join(vlib.LEAN, "Mtv", "Gen", "ErrTables.lean")


def regenerate(ctx):
    """gen_hook: rebuild the go/ast extractor and regenerate lean/Mtv/Gen/ErrTables.lean and the JSON
    facts from the working tree the harness was built against. A failing extraction removes the
    generated file, so that the proof build fails instead of silently using stale tables."""
    exe = os.path.join(vlib.BUILD, "c17facts")
    facts = os.path.join(ctx.work, "c17facts.json")
    with vlib.Lock("go-c17facts"):
        rc, out = vlib.run(["go", "build", "-o", exe, "./cmd/c17facts"], cwd=vlib.HARNESS,
                           env=vlib.go_env(ctx.repo), timeout=600)
        if rc == 0:
            rc, out = vlib.run([exe, "-repo", ctx.repo, "-lean", GEN_LEAN, "-json", facts], timeout=120)
    ctx.obligation("c17facts: tables and tryToProcessErr shape extracted from %s (go/ast)" % ctx.repo, rc == 0, out[-600:])
    if rc != 0:
        try:
            os.remove(GEN_LEAN)
        except OSError:
            pass
    os.environ["C17_FACTS"] = facts
    return rc == 0


def run(ctx):
    ctx.assumptions += [
        "delivery of the rpc_error to the caller of the request it names (c17.rpc operations: the real client "
        "against the scripted peer of the client machine, plain / packed / in containers, next to ordinary answers) "
        "is judged by the Go trace oracle; the theorems of this file are about the pure "
        "part (tables, expansion, decision logic)",
        "strconv.Atoi, strings.HasPrefix/HasSuffix/TrimPrefix/TrimSuffix and fmt.Sprintf (verbs %v %d %s, %%, "
        "EXTRA/MISSING/NOVERB artefacts, one operand) are modelled by hand; agreement with the Go library is sampled "
        "by the correspondence, not proved",
        "the go/ast extractor (harness/cmd/c17facts) is trusted to report the literals of specificErrors, errorMessages, "
        "defaultDCList and the statement shape of tryToProcessErr; it is cross-checked behaviourally: every row, every "
        "catalogued name and the default DC ids are exercised on the compiled code and compared with the model fed by "
        "the extracted tables",
        "c17.process runs tryToProcessErr through the verif hook VerifTryToProcessErr on a client connected to bare loopback "
        "listeners (Reconnect observed as 'address switched and one new TCP connection to it'); c17.req / c17.req2 / c17.two "
        "run the public MakeRequest against scripted MTProto peers of the harness (envelope of x_envelope.go) that share one "
        "auth key (the client keeps its key across Reconnect); for these the Lean driver answers what the model's decision "
        "(onRpcError on the client's OWN table: default list overridden by its SetDCList) implies for the caller",
    ]
    return vlib.generic_check(ctx, SUB, MODULES, THEOREMS, RULE, gen_hook=regenerate,
                              extra_trusted=("harness/cmd/c17facts (go/ast extractor of the regenerated tables)",))


def replay(ctx, path):
    regenerate(ctx)
    return vlib.replay(ctx, SUB, path)
