"""C11 — see DESIGN.md §7 and docs/CLIENT_MACHINE.md."""
import rpcflow

SUB = "c11"
MODULES = ["Mtv.Props.C11", "Mtv.Props.ClientImpl"]
THEOREMS = [
    "Mtv.Client.salt_adopted",
    "Mtv.Client.new_session_salt_adopted",
    "Mtv.Client.salts_saved",
    "Mtv.Client.resend_exactly_rejected",
    "Mtv.Client.salt_for_unknown_id",
    "Mtv.Client.accepted_not_resent",
    "Mtv.Client.resend_uses_new_salt",
    "Mtv.Client.never_stalls",
    "Mtv.Client.answered_after_rotation",
    # the goroutine-level model and its refinement of the machine above (Props/ClientImpl.lean)
    "Mtv.Impl.impl_refines_spec",
    "Mtv.Impl.impl_matches_source",
    "Mtv.Impl.impl_order_matches_source",
    "Mtv.Impl.recv_flatten",
    "Mtv.Impl.impl_refinement_needs_causal_server",
    "Mtv.Impl.impl_resend_exactly_rejected",
    "Mtv.Impl.impl_never_wedged",
    "Mtv.Impl.impl_progress",
    "Mtv.Impl.impl_wedge_needs_acausal_server",
]
RULE = ('scenarios with 1..6 (thorough 12) pending requests and 1..4 rotations: bad_server_salt for a random unanswered request (the same request may be rejected repeatedly), other requests answered before or after, new_session_created in between; checks: only the rejected request is written again and under the new salt, accepted requests appear once, every call returns its own answer, the run completes (no stall), the store received every adopted salt in order. Announced salts REPEAT earlier values in about half of the random scenarios and in fixed ones (the scenarios start from a stored session with salt 1000): back to the salt of the stored session after another one, A -> B -> A, the same salt twice in a row, the stored salt announced first, zero, negative values, the extremes of int64, by bad_server_salt and by new_session_created - every adopted salt must reach the store, in order. About half of the scenarios run on the FILE session store (session.NewFromFile on a file left by an earlier run, modification time an hour ago) instead of the in-memory store of the harness: after every Store an independent reader of the harness reads the salt back from the file, and only what it finds there counts as written — two and more announcements per run (rotations, new_session_created, both), with an injected refusal or a slow write in between. distinct = distinct scenarios')


def run(ctx):
    ctx.assumptions += ["the Go runtime's scheduling during a run decides the interleaving actually exercised (sampled, not enumerated)", 'warnings are drained by the harness (a full user warning channel would block the receive loop: environment assumption)']
    return rpcflow.run(ctx, SUB, MODULES, THEOREMS, RULE, gen_hook=rpcflow.regen_skeleton)


def replay(ctx, path):
    return rpcflow.replay(ctx, SUB, path)
