"""C14 — schema parser and code generator translate any schema faithfully, reproducibly."""
import vlib

SUB = "c14"
MODULES = ["Mtv.Props.C14"]
THEOREMS = [
    "Mtv.Tlgen.parse_render",
    "Mtv.Tlgen.parse_document",
    "Mtv.Tlgen.parse_structure",
    "Mtv.Tlgen.parse_definition",
    "Mtv.Tlgen.parse_terminates",
    "Mtv.Tlgen.cursor_index_arithmetic",
    "Mtv.Tlgen.classify_spec",
    "Mtv.Tlgen.classify_groups",
    "Mtv.Tlgen.ctor_name_rule",
    "Mtv.Tlgen.emit_ids",
    "Mtv.Tlgen.emit_fields",
    "Mtv.Tlgen.emit_flag_index",
]
RULE = ("operations: real tlparser.ParseSchema vs the Lean model on PRNG-generated schemas in varying layouts (enums, "
        "single/multi-constructor types, constructor/type name clashes in four spellings over one- and multi-hump type names, every primitive, flags on bits 0..31 and shared "
        "bits, vectors of every element kind, functions returning objects/Bool/vectors, namespaces, annotations and plain "
        "comments in every position, section switches, excluded definitions), degenerate but valid schemas (functions only "
        "- no constructor anywhere, also behind an empty or builtin-only types section -, one definition, enums only, "
        "constructors only, an empty functions section, only markers / comments / builtins, functions before types, "
        "alternating sections: each through parser, classification, the real tlgen + compiler, and repeated generation), "
        "every schema file of the repository, "
        "mutated texts and every prefix of some schemas (termination / no panic), the classification computed by "
        "gen.NewGenerator, and the real tlgen binary built from the working tree (two runs byte-identical, go build + "
        "go vet of the output with a stub Client, declarations read back with go/ast), and in the harness process itself: "
        "ParseSchema once, then gen.NewGenerator + Generate from that same schema object by three generators (one of them "
        "twice) and from a fresh parse — all outputs byte-identical to the first, the caller's schema object deeply "
        "unchanged (slices up to capacity). distinct = distinct operation "
        "lines; each is compared with the Lean model and judged against the structure / declarations the harness's own "
        "schema generator (or its independent line reader) knows the text to declare")


def run(ctx):
    ctx.assumptions += [
        "the Go compiler: 'the generated package compiles' is observed (go build + go vet), not modelled",
        "reproducibility is observed on two runs of the generator binary per schema and on five in-process generations (four from one parsed schema object) (map iteration order is runtime behaviour); "
        "the go/ast fact that every map range in gen/ is a known site followed by its sort is supporting evidence only",
        "gen/utils.go goify (third-party case splitter) is a parameter of the model; the harness links Go declarations to "
        "schema definitions through constructor ids and compares names up to case, '_' and '.'",
        "unicode.IsDigit is modelled on ASCII digits only (both sides fail in parseParam on other Nd runes)",
    ]
    return vlib.generic_check(ctx, SUB, MODULES, THEOREMS, RULE)


def replay(ctx, path):
    return vlib.replay(ctx, SUB, path)
