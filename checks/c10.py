"""C10 — see DESIGN.md §7 and docs/CLIENT_MACHINE.md."""
import rpcflow
import vlib

SUB = "c10"
MODULES = ["Mtv.Props.C10", "Mtv.Props.ClientImpl", "Mtv.Props.C10Life", "Mtv.Props.Arith", "Mtv.Props.ArithSend"]
THEOREMS = [
    "Mtv.Client.genId_mult4",
    "Mtv.Client.genId_time",
    "Mtv.Client.genId_strict",
    "Mtv.Client.nextId_increasing",
    "Mtv.Client.wire_ordered",
    "Mtv.Client.Life.wire_ordered_across_connections",
    "Mtv.Client.Life.seq_parity_across_connections",
    "Mtv.Client.Life.run_machine_reachable",
    "Mtv.Client.seq_parity",
    "Mtv.Client.send_with_nextId_enabled",
    "Mtv.Client.every_content_message_acked",
    "Mtv.Client.every_content_message_acked_no_faults",
    "Mtv.Client.ack_enabled",
    "Mtv.Client.nested_members_acked",
    "Mtv.Client.contentIds_in_gotOdd",
    "Mtv.Client.run_gotOdd_mono",
    # the goroutine-level model and its refinement of the machine above (Props/ClientImpl.lean)
    "Mtv.Impl.impl_refines_spec",
    "Mtv.Impl.impl_matches_source",
    "Mtv.Impl.impl_order_matches_source",
    "Mtv.Impl.recv_flatten",
    "Mtv.Impl.impl_refinement_needs_causal_server",
    "Mtv.Impl.impl_mutual_exclusion",
    "Mtv.Impl.impl_wire_ordered",
]
RULE = ('scenarios with 1..10 (thorough 24) concurrent callers and content-related server traffic (updates, new_session_created, unknown objects, truncated bodies, containers of them); the frames arriving at the peer are checked: msg_id multiple of four, derived from the current time, strictly increasing in arrival order, odd seq_no for requests and even for acks, seq_no non-decreasing, every odd-seq server message (alone or in a container) named by a later msgs_ack. Acknowledgement bookkeeping across nested and successive containers: every shape of a container holding 1..3 inner containers (nested up to the limit of four levels) with content-related and other members before / inside / after the inner ones is enumerated (quick: up to 7 members; all C/N combinations up to 4 members beside one inner container), each as the first container of the connection, after itself and a larger flat container, after single messages and after 1, 2, 3 earlier containers (flat, nested, without content); msgs_ack / pong / empty / truncated members and empty inner containers between the content-related ones; results of waiting callers inside inner containers; the same msg_id delivered again in a second container or deeper in the same one (each delivery must be named by an acknowledgement). Callers send every request type of the MTProto service schema an application can pass to MakeRequest (ping, ping_delay_disconnect, msgs_state_req and msg_resend_req with one and several ids, req_pq, req_DH_params, set_client_DH_params, rpc_drop_answer, get_future_salts, destroy_session) - one after the other with acknowledgements in between, all at once, mixed with pings, across a salt rotation and a reconnection; the seq_no parity of each is judged by the own table of the harness of content-related constructors written from the MTProto description (everything except msgs_ack and msg_container). Server msg_ids anywhere in the unsigned 64-bit range (bit 63 set, just below 2^64, near zero) must be acknowledged under the id they came with. The peer checks every client message byte for byte (a request is exactly the serialisation of its type for the tag of the caller, written by hand from the schema line - ping#7abe77ec ping_id by default -, an acknowledgement exactly msgs_ack with a non-empty Vector<long> and nothing behind it), also for requests and acknowledgements encoded while another write is in progress. distinct = distinct scenarios')


def run(ctx):
    ctx.assumptions += ["the Go runtime's scheduling during a run decides the interleaving actually exercised (sampled, not enumerated)", 'warnings are drained by the harness (a full user warning channel would block the receive loop: environment assumption)']
    return rpcflow.run(ctx, SUB, MODULES, THEOREMS + vlib.ARITH_THEOREMS["C10"], RULE,
                       gen_hook=lambda c: (rpcflow.regen_skeleton(c), vlib.regen_arith(c)))


def replay(ctx, path):
    return rpcflow.replay(ctx, SUB, path)
