"""C10 — see DESIGN.md §7 and docs/CLIENT_MACHINE.md."""
import rpcflow

SUB = "c10"
MODULES = ["Mtv.Props.C10"]
THEOREMS = [
    "Mtv.Client.genId_mult4",
    "Mtv.Client.genId_time",
    "Mtv.Client.genId_strict",
    "Mtv.Client.nextId_increasing",
    "Mtv.Client.wire_ordered",
    "Mtv.Client.seq_parity",
    "Mtv.Client.send_with_nextId_enabled",
    "Mtv.Client.every_content_message_acked",
    "Mtv.Client.every_content_message_acked_no_faults",
    "Mtv.Client.ack_enabled",
]
RULE = ('scenarios with 1..10 (thorough 24) concurrent callers and content-related server traffic (updates, new_session_created, unknown objects, truncated bodies, containers of them); the frames arriving at the peer are checked: msg_id multiple of four, derived from the current time, strictly increasing in arrival order, odd seq_no for requests and even for acks, seq_no non-decreasing, every odd-seq server message (alone or in a container) named by a later msgs_ack. The peer checks every client message byte for byte (a request is exactly ping#7abe77ec ping_id, an acknowledgement exactly msgs_ack with a non-empty Vector<long> and nothing behind it), also for requests and acknowledgements encoded while another write is in progress. distinct = distinct scenarios')


def run(ctx):
    ctx.assumptions += ["the Go runtime's scheduling during a run decides the interleaving actually exercised (sampled, not enumerated)", 'warnings are drained by the harness (a full user warning channel would block the receive loop: environment assumption)']
    return rpcflow.run(ctx, SUB, MODULES, THEOREMS, RULE)


def replay(ctx, path):
    return rpcflow.replay(ctx, SUB, path)
