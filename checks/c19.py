"""C19 — secrets used for key agreement come from the OS cryptographic random source.

The model is the program's call graph, regenerated from the working tree on every run by the
translator /verif/harness-c19/cmd/c19graph (x/tools go/ssa + VTA) into lean/Mtv/Gen/CallGraph.lean;
the theorems of Mtv.Props.C19 are re-checked by the Lean kernel against that graph. The Go harness
(vh c19) is the dynamic cross-check and the source of replays."""
import json
import os

import vlib

SUB = "c19"
MODULES = ["Mtv.Props.C19"]
THEOREMS = [
    "Mtv.Rand.reach_sound",
    "Mtv.Rand.reach_complete",
    "Mtv.Rand.reachM2_exact",
    "Mtv.Rand.graph_closed",
    "Mtv.Rand.secrets_from_crypto",
    "Mtv.Rand.sources_pure",
    "Mtv.Rand.crypto_reader_untouched",
    "Mtv.Rand.no_reseed",
    "Mtv.Rand.seed_path_valid",
    "Mtv.Rand.generators_reachable",
]
RULE = ("static: one evaluation = the regenerated call graph of the whole working tree checked by the kernel "
        "(closure of every generator and every per-secret slice); dynamic operations: c19.secret (two draws of a real "
        "generator after identical math/rand seeding + search of the wall-clock window for a math/rand seed that "
        "reproduces the value), c19.hs (req_pq nonce on the wire in two real key exchanges after identical seeding), "
        "c19.reseed (draw after NewMTProto, search for the clock seed), c19.xproc (one draw in each of two fresh "
        "processes), c19.hist (histories: MakeGAB with moduli of 1..4096 bits, g in {0, 1, -1, 2, 3, 7, int32 extremes}, "
        "g_a = 0 / 1 / > dh_prime, nonce draws in between, THEN ordinary draws with crypto/rand.Reader wrapped by a counting "
        "reader: bytes read from the OS source per draw >= width of the secret, values pairwise different, largest value "
        "within 24 bits of the width), c19.peer (the secret drawn WITH values the peer chose: account.password.secure_random absent / "
        "0, 1, 2, 255, 256, 257, 1024.. bytes all-zero, all-ones, random for the SRP exponent - bytes read, A = g^a not among the first "
        "2^16 powers of g, two draws differ, and with crypto/rand.Reader replaced by a fixed stream A changes when the first / last / "
        "a middle one of the consumed bytes is inverted; MakeGAB with unusual groups - bytes read, width, repetition of b), c19.retry "
        "(a scripted key-exchange server answers set_client_DH_params with well-formed dh_gen_retry / dh_gen_fail / dh_gen_ok: every "
        "g_b the real client sends has >= 256 bytes read from the OS source since the server's previous answer and is no g^k multiple, "
        "|k| <= 16, of an earlier one), c19.fault (crypto/rand.Reader is a source of the harness that hands out a seeded stream and, from "
        "its k-th Read on, fails for good / fails once / is at io.EOF / delivers half and fails / delivers one byte per Read - k at "
        "the Read of every secret: during a complete real key exchange against the scripted server (nonce, new_nonce, g_b read off "
        "the wire) and under each generator called directly; every secret that is still emitted must be backed by at least as many "
        "delivered bytes as the secrets emitted so far are wide, and the same experiment made twice (same stream, same fault, same "
        "peer) must emit the same secrets - the client may stop however it likes); distinct = distinct operation lines")

C19MOD = os.path.join(vlib.VERIF, "harness-c19")
C19BIN = os.path.join(vlib.BUILD, "c19graph")
GEN = os.path.join(vlib.LEAN, "Mtv", "Gen", "CallGraph.lean")


def regenerate(ctx):
    """Build and run the translator against ctx.repo; rebuild the driver on the fresh graph."""
    summ = os.path.join(ctx.work, "c19graph.json")
    with vlib.Lock("go-c19graph"):
        rc, out = vlib.run(["go", "build", "-o", C19BIN, "./cmd/c19graph"], cwd=C19MOD, env=vlib.go_env(ctx.repo), timeout=900)
    if rc != 0:
        ctx.obligation("go build of the call-graph translator (harness-c19)", False, out[-1500:])
        return
    rc, out = vlib.run([C19BIN, "-repo", ctx.repo, "-out", GEN, "-json", summ], cwd=ctx.work,
                       env=vlib.go_env(ctx.repo), timeout=900)
    d = {}
    try:
        d = json.load(open(summ))
    except (OSError, ValueError):
        pass
    ctx.obligation("call graph regenerated from the working tree (go/packages + go/ssa + VTA): %s nodes, %s edges"
                   % (d.get("nodes"), d.get("edges")), rc == 0 and d.get("ok", False),
                   (d.get("error") or out)[-1500:] if rc != 0 else "")
    # diagnosis for the evidence and for the reader of a failed proof obligation: which path offends.
    # (Plain BFS in the translator over the graph it emitted; the Lean theorems are the authority.)
    bad = []
    for g in d.get("generators", []):
        why = []
        for key, label in (("math_rand_path", "reaches math/rand"), ("clock_path", "reaches the clock"),
                           ("suspect_path", "uses crypto/rand with a foreign reader")):
            if g.get(key):
                why.append("%s: %s" % (label, " -> ".join(g[key])))
        if not g.get("crypto_rand_path"):
            why.append("reaches no crypto/rand function")
        if why:
            bad.append("%s [%s]: %s" % (g["name"], ",".join(g.get("origin", [])), "; ".join(why)))
    if d.get("crypto_reader_stores"):
        bad.append("crypto/rand.Reader is assigned in: " + ", ".join(d["crypto_reader_stores"]))
    ctx.coverage_extra["call_graph"] = {
        "nodes": d.get("nodes"), "walked": d.get("walked"), "leaves": d.get("leaves"), "edges": d.get("edges"),
        "vta_edges_whole_program": d.get("vta_edges_whole_program"), "entries": d.get("entries"),
        "generators": [{"name": g["name"], "origin": g.get("origin"), "ok": g.get("ok"),
                        "full_closure_math_rand_v1": g.get("full_closure_math_rand_v1", [])} for g in d.get("generators", [])],
        "sink_sites": d.get("sink_sites"), "seed_path": d.get("seed_path"), "notes": d.get("notes"),
        "static_diagnosis": bad,
    }
    ctx.c19_diag = bad
    if d.get("ok") and bad:
        ctx.report_unexplained("the regenerated call graph violates C19: " + bad[0][:300],
                               {"offending_paths": bad, "note": "translator-side BFS over the emitted graph; the Lean theorems "
                                "secrets_from_crypto / sources_pure / crypto_reader_untouched are evaluated on the same graph "
                                "(see the failed obligations)"})
    # the driver must be linked against the fresh graph even if the theorems over it no longer hold
    rc, out = ctx.lake(["drv-c19"])
    if rc != 0:
        ctx.obligation("lake build drv-c19 on the regenerated graph", False, out[-800:])


def run(ctx):
    ctx.assumptions += [
        "the call graph x/tools (go/ssa, VTA) builds for the working tree is complete for calls between functions of the "
        "repository and of its third-party dependencies (reflection and unsafe are not followed)",
        "standard-library functions are leaves classified by package: crypto/rand.* is the OS source; math/rand.*, "
        "math/rand/v2.* and (*big.Int).Rand are reproducible generators",
        "value-level flow is not tracked beyond the intra-procedural def-use slices of the secret-carrying fields: a "
        "secret derived from crypto/rand output and then weakened arithmetically is not seen",
        "the dynamic experiments can show reproducibility, never unpredictability",
        "c19.hist wraps crypto/rand.Reader, for the duration of one ordinary draw, by a reader of the harness that counts "
        "the bytes and forwards every Read to the operating system's reader (crypto/rand.Read and crypto/rand.Int read "
        "through that variable); the widths it judges by are the protocol's: nonce 128 bits, new_nonce 256 bits, the "
        "exponents b and a 2048 bits",
    ]
    ctx.c19_diag = []
    with vlib.Lock("c19-run"):
        rc = vlib.generic_check(
            ctx, SUB, MODULES, THEOREMS, RULE, gen_hook=regenerate,
            extra_trusted=["the translator harness-c19/cmd/c19graph and golang.org/x/tools v0.29.0 (go/packages, go/ssa, "
                           "callgraph/cha, callgraph/vta): only 'these are all the out-edges of the walked functions' and "
                           "the def-use slices are taken from it; closure of the node set is re-checked in Lean"])
    return rc


def replay(ctx, path):
    rep = json.load(open(path))
    if rep.get("kind") == "no-failing-input-found":
        # re-run the static part: does the obligation hold on the tree as it is now?
        ctx.c19_diag = []
        with vlib.Lock("c19-run"):
            regenerate(ctx)
            rc, out = ctx.lake(MODULES)
        print("replay names an unchecked obligation, not an input:", rep.get("unchecked"))
        for l in ctx.c19_diag:
            print("  static diagnosis:", l)
        if rc == 0 and not ctx.c19_diag and all(o[1] for o in ctx.obligations):
            print("replay passes: the obligations hold on the current working tree")
            return 0
        print("REPRODUCED: the proof obligations of C19 do not hold on the current working tree")
        return 1
    with vlib.Lock("c19-run"):
        regenerate(ctx)
        return vlib.replay(ctx, SUB, path)
