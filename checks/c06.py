"""C06 — key exchange with any conformant server ends in a shared auth key and salt."""
import os

import vlib
from checks import c07

SUB = "c06"
MODULES = ["Mtv.Props.C06"]
THEOREMS = [
    "Mtv.Handshake.powMod_spec",
    "Mtv.Handshake.dh_core",
    "Mtv.Handshake.stage1_reqpq",
    "Mtv.Handshake.stage2_pq_inner",
    "Mtv.Handshake.stage3_dh_answer",
    "Mtv.Handshake.stage4_authkey_salt",
    "Mtv.Handshake.stage5_dhgen",
    "Mtv.Handshake.hs_agree",
    # math.SplitPQ inside the model (lean/Mtv/Handshake/SplitPQ.lean)
    "Mtv.Handshake.mulAddMod_spec",
    "Mtv.Handshake.rho_step_is_square_plus_q",
    "Mtv.Handshake.rho_loop_ends",
    "Mtv.Handshake.splitPQ_sound",
    "Mtv.Handshake.splitPQ_semiprime",
    "Mtv.Handshake.splitPQ_no_panic",
    "Mtv.Handshake.splitPQ_panics_below_two",
    "Mtv.Handshake.splitPQ_prime_runs",
    "Mtv.Handshake.splitpq_matches_source",
    "Mtv.Handshake.hs_agree_splitPQ",
    # the client's own draws as an input (session 9)
    "Mtv.Handshake.hs_agree_any_draw",
    "Mtv.Handshake.any_draw_condition",
    "Mtv.Handshake.zero_draw_excluded",
]
RULE = ("one operation = one complete key exchange of the real client (NewMTProto + CreateConnection over loopback "
        "TCP) with an independent conformant server (own TL, IGE over crypto/aes, SHA-1, RSA-2048 private-key "
        "decryption, DH on a 2048-bit safe prime - Telegram's, RFC 3526 group 14, RFC 7919 ffdhe2048, the latter two "
        "built from their formulas and checked to be safe primes - with a g in 2..7 that fits it), followed by one "
        "encrypted request that the server opens with its own MTProto-1.0 envelope code and, when its clock is "
        "given relative to this machine's (now+K / now-K: it announces now+K as server_time and runs on in real "
        "time), accepts only with a msg_id between 300 s behind and 30 s ahead of its clock; K over every offset a "
        "client stamping with its own clock is compatible with (-28 .. +298). The application's Warnings channel "
        "is nil / buffered / unbuffered and unread until CreateConnection returns / unbuffered and drained, with "
        "every group. Client draws (nonce, new_nonce, b, padding) are "
        "fixed by substituting crypto/rand.Reader and seeding math/rand. Always: 6 honest exchanges (every g, "
        "fixed-width and minimal integers, extra fingerprints), 8 exchanges with the client's key fingerprint "
        "alone / last / first / in the middle / among several / next to near-misses in the server's list, each field of {nonce, server_nonce, new_nonce, "
        "new_nonce_hash1, RSA ciphertext, g_a, g_b, g^ab} forced to exactly 0 / 1 / 2 leading zero bytes by "
        "rejection sampling of the free secrets (24 corners), all-zero nonce / server_nonce, new_nonce = 1, "
        "unbalanced and largest pq; then random honest exchanges (quick 4, thorough 2000). The server keys come "
        "from a pool of 3 (thorough 4) RSA-2048 keys used in turn, so consecutive exchanges of the process never "
        "use the same key; first in every run, c06.seq operations = several exchanges in ONE operation: three keys "
        "one after another with the caller's key object fresh / one object reassigned / one object overwritten in "
        "place, and the client's session storage saying 'nothing stored' as a not-found error, as (nil, nil), or "
        "failing with another error (then NewMTProto must give up: no client, nothing sent or stored). And c06.hist "
        "operations = the exchange as ONE step of what the application does with one client value: before it a "
        "CreateConnection while the server is not up yet (address reserved, nobody listens: refused; once and twice, "
        "with and without a Disconnect before the retry), a CreateConnection against a server that misbehaves once "
        "at step 1 / 2 / 3 of the exchange (retry with and without a Disconnect in between); after it Reconnect, "
        "Disconnect + CreateConnection, before the first request is issued - 14 fixed histories and random ones "
        "(1 in 8 random exchanges); the exchange against the conformant server must end exactly like a first one "
        "(same oracle), the earlier attempts with their error, the later calls with nil. "
        "The pool also holds one RSA-2048 key per byte length of the public exponent (1, 2, 3, 4 bytes: 3 / 5 / 17, "
        "257 or a drawn 2-byte odd number, an odd number above 65537, a drawn 4-byte odd number with the top bit of "
        "the word set or not; thorough: all of them), built from two primes and checked to be a key pair; the server "
        "computes its fingerprint from the TL definition and refuses a req_DH_params naming another; one exchange "
        "per such key, and one with the fingerprints of the keys differing from it in the exponent only / the "
        "modulus only around it. The request(s) issued after the exchange are part of the client's configuration "
        "token (ping, ping_delay_disconnect, get_future_salts, help.getConfig, a method with a bytes argument of N "
        "bytes; up to four one after another): body lengths of every residue mod 16, below and beyond one block "
        "and 254 bytes; the server opens EVERY encrypted message with its own envelope code, which enforces the "
        "description's 0..15 bytes of padding after the declared length, and compares it with the request's "
        "serialisation written by hand. "
        "c06.env = the exchange in other environments than a test naturally provides: the conformant server's transport "
        "frames (4-byte length + packet) handed to the connection in pieces with pauses - cut after byte 1 / 2 / 3 "
        "(inside the length), 4 (between length and packet), 5 / 12 / 24 / 25 (inside the packet), the halves, the "
        "last 1 / 4 / 21 bytes late, pieces of 1 (one byte at a time) / 3 / 7 / 64 / 512 bytes, a long pause - one "
        "exchange each in every run; and the client configured with Config.AuthKeyFile (the library's own file "
        "storage) in different kinds of places: under os.TempDir(), on another filesystem than os.TempDir(), eight "
        "fresh directories down, a bare and a sub/ relative path with a fresh working directory, and TMPDIR naming "
        "a missing directory / a regular file / a directory on another filesystem / unset - one exchange each, the "
        "application having created the session file's directory and nothing else; `stored=` is what an independent "
        "reader finds in the file, and the library's own loader must read the same back; plus drawn combinations "
        "(quick 4, thorough 120) with drawn cut points and piece sizes. "
        "The factoring of pq on its own: c06.split = the guard of handshake.go + the REAL math.SplitPQ (on a goroutine "
        "with a 60 s watchdog - on a prime it never returns) on products of two primes: all products of the primes "
        "up to 13 (equal ones included), the repository's vectors, the largest product below 2^64, squares of the "
        "largest prime below 2^32 / of 2^31-1 / of 65537 / next to 2^63, products around 2^63 and 2^31, 2 x / 3 x / "
        "65537 x the largest prime, drawn products of primes of drawn sizes 2..32 bits (quick 8, thorough 160), and "
        "what the guard refuses (0..3, primes up to the largest below 2^64); judged from the number alone: p1*p2 = "
        "pq, p1 <= p2, both prime. The Lean driver answers with the pair its MODEL of SplitPQ finds with a fixed "
        "draw stream (splitPQ_semiprime: the pair cannot depend on the draws). c06.splitraw = the call without the "
        "guard on 0 and 1 (division by zero, as proved of the model). c06.mulmod = the inner double-and-add loop "
        "(transcribed statement by statement; the repository exposes it only inside SplitPQ) against the model's "
        "mulAddMod and (c + a*b) mod n, operands up to 64 bits (quick 34, thorough 3010). "
        "c06.draw = the client's OWN draws as an input of the exchange: crypto/rand.Reader delivers a prescribed stream - "
        "nonce, new_nonce, the DH exponent b, and after them further prescribed 256-byte draws (so that a client which "
        "draws its exponent again reads prescribed bytes too; only then the OS source answers, counted): b = 1, 2, 1000, "
        "the last exponent whose power of g is below 2^1984 and the first one that reaches it (g = 3: 1251 / 1252, and "
        "for the group's own g), 2^2048-1, 2^2047, the order of g + 1, dh_prime, dh_prime + 1000, b with 1 / 2 / 8 / 128 "
        "/ 248 leading zero bytes; streams whose first one or two exponents give a g_b below the recommended range "
        "[2^1984, dh_prime - 2^1984] and a later one is ordinary, or zero, or nothing prescribed follows; nonce and "
        "new_nonce all zero / all ones / one significant byte / half zero, also together with a tiny exponent; math/rand "
        "seeds whose padding of the client's DH message begins with two zero bytes / 0xffff / has zero last bytes "
        "(29 exchanges in every run, thorough + 200 drawn); oracle: the unchanged C06 oracle whatever and however often "
        "the client drew (it is neither asked to draw once nor to draw again). And the three first exponents whose g_b "
        "every conformant server has to refuse (b = 0, the order of g, dh_prime - 1: g_b = 1) against a server that "
        "drops the connection on a refusal: a client that sends that g_b must not report success, switch to encrypted "
        "mode or store a session, and its CreateConnection must end with an error (thorough: also the silent refusal). "
        "distinct = distinct operation lines; each is compared with the Lean client machine run against the Lean "
        "ServerSpec (request bodies, keys, salts, hash, flags, stores on both sides) and judged from the server's "
        "own values")


GEN_LEAN = os.path.join(vlib.LEAN, "Mtv", "Gen", "SplitPQFacts.lean")


def regenerate(ctx):
    """gen_hook: what C07 regenerates (registry, check skeleton of makeAuthKey) and the statement skeleton of
    math.SplitPQ (go/parser over internal/math/math.go of the working tree the harness was built against). A failing
    extraction removes the generated file, so that the proof build fails instead of silently using stale facts."""
    ok = c07.regenerate(ctx)
    exe = os.path.join(vlib.BUILD, "c06facts")
    with vlib.Lock("go-c06facts"):
        rc, out = vlib.run(["go", "build", "-o", exe, "./cmd/c06facts"], cwd=vlib.HARNESS,
                           env=vlib.go_env(ctx.repo), timeout=600)
        if rc == 0:
            rc, out = vlib.run([exe, "-repo", ctx.repo, "-lean", GEN_LEAN], timeout=120)
    ctx.obligation("c06facts: statement skeleton of math.SplitPQ (imports and package variables it refers to, "
                   "signature, every statement with its nesting) extracted from %s (go/parser)" % ctx.repo,
                   rc == 0, out[-600:])
    if rc != 0:
        try:
            os.remove(GEN_LEAN)
        except OSError:
            pass
    return ok and rc == 0


# what C07 says about the factoring parameter is replaced here: C06 has the model of SplitPQ
SPLIT_ASSUMPTION = (
    "math.SplitPQ is MODELLED (lean/Mtv/Handshake/SplitPQ.lean, statement by statement; tied to the source by "
    "splitpq_matches_source and by c06.split / c06.splitraw / c06.mulmod on every run) and proved partially correct "
    "for every round count, draw stream and pq (splitPQ_sound), unique on products of two primes (splitPQ_semiprime), "
    "free of division by zero from 2 on (splitPQ_no_panic). ASSUMED in hs_agree_splitPQ: that the call RETURNS within "
    "the rounds given (`splitPQ fuel draws (p*q) = .ok r` - termination of a randomised walk, true with probability 1 "
    "over the draws, false for some draw streams, e.g. on pq = 4; observed on the real function by c06.split with a 60 s "
    "watchdog); that big.Int.ProbablyPrime(0) does not take p*q for a prime (math/big: exact below 2^64); math/big "
    "itself (Add/Sub/Cmp/And/Rsh/Mod/Div/GCD = the Nat operations, Mod by zero = run-time panic); that math/rand "
    "delivers SOME values (the theorems hold for all); a 64-bit int for `lim`. hs_agree itself keeps the factoring as "
    "a parameter `split` with the hypothesis split (p*q) = some (p, q); the client machine has no 'still factoring' "
    "state, so guardedSplit maps a call that has not returned to none (guardedSplit_none says exactly when)")


def run(ctx):
    ctx.assumptions += [c07.ASSUMPTIONS[0], SPLIT_ASSUMPTION] + c07.ASSUMPTIONS[2:4] + [
        "RSA is a parameter: hs_agree assumes 2^2047 <= n < 2^2048 and (m^e)^d % n = m for every m < n (RSA "
        "correctness for the key pair), nothing else; the cut-point search of DecryptMessageWithTempKeys is correct "
        "under the cryptographic hypothesis NoLongerCollision (C05), assumed for the server's answer and the client's "
        "message; the block cipher is any pair of mutually inverse length-preserving maps on 16-byte blocks",
        "ServerSpec (lean/Mtv/Handshake/Server.lean) is the statement's notion of 'conformant server'; it is compared "
        "on every operation with the independent Go server (x_hsserver.go), written from the protocol description",
        "'the first encrypted request is readable by the server' is established on the real client only (server-side "
        "envelope code of the harness: auth_key_id, msg_key, AES-IGE x=0, salt, ping body); in Lean it follows from "
        "equal 256-byte keys and salts (hs_agree) composed with the envelope theorems of C03, not restated here",
        "hs_agree excludes draws b with g^b mod dh_prime in {0, 1, dh_prime-1}: a conformant server must refuse such "
        "g_b (the description's range check); this client does not redraw. That is the ONLY condition on the value of "
        "b (any byte string of any length otherwise: hs_agree_any_draw, any_draw_condition); b = 0 is excluded "
        "(zero_draw_excluded). On the real client such a first draw (c06.draw ...-refused-close) ends in an error of "
        "CreateConnection when the server drops the connection, and in an endless wait when the server stays silent",
    ]
    return vlib.generic_check(ctx, SUB, MODULES, THEOREMS, RULE, gen_hook=regenerate,
                              extra_trusted=("harness/cmd/c07facts (go/parser extractor of the check skeleton)",
                                             "harness/cmd/c06facts (go/parser extractor of the statement skeleton of math.SplitPQ)",
                                             "harness/cmd/regdump (reflection dump of the TL registry)"))


def replay(ctx, path):
    return vlib.replay(ctx, SUB, path)
