"""C06 — key exchange with any conformant server ends in a shared auth key and salt."""
import vlib
from checks import c07

SUB = "c06"
MODULES = ["Mtv.Props.C06"]
THEOREMS = [
    "Mtv.Handshake.powMod_spec",
    "Mtv.Handshake.dh_core",
    "Mtv.Handshake.stage1_reqpq",
    "Mtv.Handshake.stage2_pq_inner",
    "Mtv.Handshake.stage3_dh_answer",
    "Mtv.Handshake.stage4_authkey_salt",
    "Mtv.Handshake.stage5_dhgen",
    "Mtv.Handshake.hs_agree",
]
RULE = ("one operation = one complete key exchange of the real client (NewMTProto + CreateConnection over loopback "
        "TCP) with an independent conformant server (own TL, IGE over crypto/aes, SHA-1, RSA-2048 private-key "
        "decryption, DH on a 2048-bit safe prime - Telegram's, RFC 3526 group 14, RFC 7919 ffdhe2048, the latter two "
        "built from their formulas and checked to be safe primes - with a g in 2..7 that fits it), followed by one "
        "encrypted request that the server opens with its own MTProto-1.0 envelope code and, when its clock is "
        "given relative to this machine's (now+K / now-K: it announces now+K as server_time and runs on in real "
        "time), accepts only with a msg_id between 300 s behind and 30 s ahead of its clock; K over every offset a "
        "client stamping with its own clock is compatible with (-28 .. +298). The application's Warnings channel "
        "is nil / buffered / unbuffered and unread until CreateConnection returns / unbuffered and drained, with "
        "every group. Client draws (nonce, new_nonce, b, padding) are "
        "fixed by substituting crypto/rand.Reader and seeding math/rand. Always: 6 honest exchanges (every g, "
        "fixed-width and minimal integers, extra fingerprints), 8 exchanges with the client's key fingerprint "
        "alone / last / first / in the middle / among several / next to near-misses in the server's list, each field of {nonce, server_nonce, new_nonce, "
        "new_nonce_hash1, RSA ciphertext, g_a, g_b, g^ab} forced to exactly 0 / 1 / 2 leading zero bytes by "
        "rejection sampling of the free secrets (24 corners), all-zero nonce / server_nonce, new_nonce = 1, "
        "unbalanced and largest pq; then random honest exchanges (quick 4, thorough 2000). The server keys come "
        "from a pool of 3 (thorough 4) RSA-2048 keys used in turn, so consecutive exchanges of the process never "
        "use the same key; first in every run, c06.seq operations = several exchanges in ONE operation: three keys "
        "one after another with the caller's key object fresh / one object reassigned / one object overwritten in "
        "place, and the client's session storage saying 'nothing stored' as a not-found error, as (nil, nil), or "
        "failing with another error (then NewMTProto must give up: no client, nothing sent or stored). And c06.hist "
        "operations = the exchange as ONE step of what the application does with one client value: before it a "
        "CreateConnection while the server is not up yet (address reserved, nobody listens: refused; once and twice, "
        "with and without a Disconnect before the retry), a CreateConnection against a server that misbehaves once "
        "at step 1 / 2 / 3 of the exchange (retry with and without a Disconnect in between); after it Reconnect, "
        "Disconnect + CreateConnection, before the first request is issued - 14 fixed histories and random ones "
        "(1 in 8 random exchanges); the exchange against the conformant server must end exactly like a first one "
        "(same oracle), the earlier attempts with their error, the later calls with nil. "
        "The pool also holds one RSA-2048 key per byte length of the public exponent (1, 2, 3, 4 bytes: 3 / 5 / 17, "
        "257 or a drawn 2-byte odd number, an odd number above 65537, a drawn 4-byte odd number with the top bit of "
        "the word set or not; thorough: all of them), built from two primes and checked to be a key pair; the server "
        "computes its fingerprint from the TL definition and refuses a req_DH_params naming another; one exchange "
        "per such key, and one with the fingerprints of the keys differing from it in the exponent only / the "
        "modulus only around it. The request(s) issued after the exchange are part of the client's configuration "
        "token (ping, ping_delay_disconnect, get_future_salts, help.getConfig, a method with a bytes argument of N "
        "bytes; up to four one after another): body lengths of every residue mod 16, below and beyond one block "
        "and 254 bytes; the server opens EVERY encrypted message with its own envelope code, which enforces the "
        "description's 0..15 bytes of padding after the declared length, and compares it with the request's "
        "serialisation written by hand. "
        "distinct = distinct operation lines; each is compared with the Lean client machine run against the Lean "
        "ServerSpec (request bodies, keys, salts, hash, flags, stores on both sides) and judged from the server's "
        "own values")


def run(ctx):
    ctx.assumptions += c07.ASSUMPTIONS[:4] + [
        "RSA is a parameter: hs_agree assumes 2^2047 <= n < 2^2048 and (m^e)^d % n = m for every m < n (RSA "
        "correctness for the key pair), nothing else; the cut-point search of DecryptMessageWithTempKeys is correct "
        "under the cryptographic hypothesis NoLongerCollision (C05), assumed for the server's answer and the client's "
        "message; the block cipher is any pair of mutually inverse length-preserving maps on 16-byte blocks",
        "ServerSpec (lean/Mtv/Handshake/Server.lean) is the statement's notion of 'conformant server'; it is compared "
        "on every operation with the independent Go server (x_hsserver.go), written from the protocol description",
        "'the first encrypted request is readable by the server' is established on the real client only (server-side "
        "envelope code of the harness: auth_key_id, msg_key, AES-IGE x=0, salt, ping body); in Lean it follows from "
        "equal 256-byte keys and salts (hs_agree) composed with the envelope theorems of C03, not restated here",
        "hs_agree excludes draws b with g^b mod dh_prime in {0, 1, dh_prime-1}: a conformant server must refuse such "
        "g_b (the description's range check); this client does not redraw",
    ]
    return vlib.generic_check(ctx, SUB, MODULES, THEOREMS, RULE, gen_hook=c07.regenerate,
                              extra_trusted=("harness/cmd/c07facts (go/parser extractor of the check skeleton)",
                                             "harness/cmd/regdump (reflection dump of the TL registry)"))


def replay(ctx, path):
    return vlib.replay(ctx, SUB, path)
