"""C20 — resolving a Telegram link is total and maps usernames and invites correctly."""
import os
import shutil
import sys

if __name__ == "__main__":
    sys.path.insert(0, os.path.join(os.path.dirname(os.path.dirname(os.path.abspath(__file__))), "lib"))
import vlib

SUB = "c20"
MODULES = ["Mtv.Props.C20"]
THEOREMS = [
    "Mtv.Links.resolveParsed_no_panic",
    "Mtv.Links.resolveString_no_panic",
    "Mtv.Links.d16_unrepaired_panics",
    "Mtv.Links.templates_exclusive",
    "Mtv.Links.template_order_irrelevant",
    "Mtv.Links.username_ok",
    "Mtv.Links.invite_ok",
    "Mtv.Links.port_ignored",
    "Mtv.Links.ok_only_if",
    "Mtv.Links.everything_else_error",
    "Mtv.Links.foreign_host_error",
    "Mtv.Links.other_scheme_error",
    "Mtv.Links.bare_host_error",
    "Mtv.Links.username_lowercased",
    "Mtv.Links.toLower_ascii",
    "Mtv.Links.reserved_hosts_are_the_five",
    "Mtv.Links.link_resolves_as_parsed",
    "Mtv.Links.reservedHosts_wellformed",
    "Mtv.Links.link_username_ok",
    "Mtv.Links.link_invite_ok",
    "Mtv.Links.link_bare_host_error",
    "Mtv.Links.link_foreign_host_error_partial",
    "Mtv.Links.link_other_scheme_error_partial",
]
RULE = ("operations: deeplinks.Resolve on the full structured product {'',http://,https://,tg://,ftp://,HTTP://} x "
        "{reserved hosts, look-alikes, empty} x {'',:443,:80} x base paths x {'',?q,#f,?q#f}, exhaustive 1- and 2-segment "
        "paths over a segment alphabet (empty, escapes, Unicode, upper case, joinchat), sampled 0..3-segment paths with "
        "random usernames / escaped bytes / runes / raw high bytes, and arbitrary / mutated / URL-soup / bare-word "
        "strings; each link also as c20.rp (Go's url.Parse output fed to the Lean resolveParsed) and c20.parse "
        "(url.Parse vs UrlLite.parse); plus Hostname() and strings.ToLower on generated strings; last in the run, "
        "c20.alias: a caller writes through the slice ReservedHosts() returned (append to a re-slice with spare "
        "capacity, elements assigned in place, look-alikes derived in place) and every reserved host and every "
        "written name is resolved before and after - the answers and the list must be unchanged; distinct = distinct "
        "operation lines; every Resolve result is judged by an oracle written from the property text")

GEN_FILE = os.path.join(vlib.LEAN, "Mtv", "Gen", "Links.lean")


def render_gen(hosts_hex, pairs):
    """hosts_hex: list of hex strings ('-' = empty); pairs: list of (rune, lower)."""
    lines = ["/- GENERATED on every run by checks/c20.py from the working tree (deeplinks.ReservedHosts() as",
             "   returned by the harness binary built from it; unicode.ToLower of the Go toolchain). Do not edit. -/",
             "namespace Mtv.Gen.Links", ""]
    lines.append("/-- what `deeplinks.ReservedHosts()` returns, in order -/")
    hs = []
    for h in hosts_hex:
        b = b"" if h == "-" else bytes.fromhex(h)
        hs.append("  [" + ", ".join(str(x) for x in b) + "]  -- " + repr(b.decode("utf-8", "replace")))
    body = []
    for i, h in enumerate(hs):
        code, cm = h.split("  -- ")
        body.append(code + ("," if i + 1 < len(hs) else "") + "  -- " + cm)
    lines.append("def reservedHosts : List (List UInt8) := [")
    lines += body
    lines.append("]")
    lines.append("")
    lines.append("/-- every non-ASCII rune `r` with `unicode.ToLower(r) ≠ r`, as arithmetic runs `(lo, hi, step, delta)`:")
    lines.append("`unicode.ToLower(r) = r + delta` for `lo ≤ r ≤ hi`, `(r - lo) % step = 0`; every other rune is its own image -/")
    na = [(r, l) for (r, l) in pairs if r >= 128]
    runs = []
    i = 0
    while i < len(na):
        lo, l0 = na[i]
        delta = l0 - lo
        step = 1
        j = i
        if i + 1 < len(na) and na[i + 1][0] - lo in (1, 2) and na[i + 1][1] - na[i + 1][0] == delta:
            step = na[i + 1][0] - lo
            while j + 1 < len(na) and na[j + 1][0] - na[j][0] == step and na[j + 1][1] - na[j + 1][0] == delta:
                j += 1
        runs.append((lo, na[j][0], step, delta))
        i = j + 1
    chunks = [runs[k:k + 24] for k in range(0, len(runs), 24)] or [[]]
    for n, ch in enumerate(chunks):
        lines.append("def lowerRuns%d : List (Nat × Nat × Nat × Int) := [" % n)
        for k in range(0, len(ch), 4):
            lines.append("  " + ", ".join("(%d, %d, %d, %d)" % t for t in ch[k:k + 4]) + ("," if k + 4 < len(ch) else ""))
        lines.append("]")
    lines.append("def lowerRuns : List (Nat × Nat × Nat × Int) := " + " ++ ".join("lowerRuns%d" % n for n in range(len(chunks))))
    lines.append("")
    lines.append("end Mtv.Gen.Links")
    return "\n".join(lines) + "\n"


def regen_from_binary(vh, workdir):
    """Run the two fact operations through the harness binary and (re)write Gen/Links.lean.
    Returns (ok, detail)."""
    os.makedirs(workdir, exist_ok=True)
    opsf = os.path.join(workdir, "facts.ops")
    with open(opsf, "w") as f:
        f.write("c20.hosts\nc20.lowertab\n")
    d = os.path.join(workdir, "facts")
    shutil.rmtree(d, ignore_errors=True)
    os.makedirs(d)
    rc, out = vlib.run([vh, "c20", "-dir", d, "-ops", opsf], cwd=workdir)
    try:
        go = open(os.path.join(d, "go.out")).read().splitlines()
    except OSError:
        go = []
    if rc != 0 or len(go) != 2 or not go[0].startswith("hosts=") or not go[1].startswith("pairs="):
        return False, "fact extraction failed: " + (out[-300:] or " | ".join(go)[:300])
    hosts = [] if go[0] == "hosts=-" else go[0][len("hosts="):].split(",")
    pairs = []
    if go[1] != "pairs=-":
        for t in go[1][len("pairs="):].split(","):
            a, b = t.split(":")
            pairs.append((int(a), int(b)))
    txt = render_gen(hosts, pairs)
    os.makedirs(os.path.dirname(GEN_FILE), exist_ok=True)
    old = open(GEN_FILE).read() if os.path.exists(GEN_FILE) else None
    if old != txt:
        with vlib.Lock("lake"):
            tmp = GEN_FILE + ".tmp%d" % os.getpid()
            open(tmp, "w").write(txt)
            os.replace(tmp, GEN_FILE)
    return True, "%d reserved hosts, %d case pairs%s" % (len(hosts), len(pairs), "" if old == txt else " (file rewritten)")


def gen_hook(ctx):
    ok, detail = regen_from_binary(getattr(ctx, "vh_bin", None) or vlib.vh_path(ctx.prop), ctx.work)
    ctx.obligation("regenerate lean/Mtv/Gen/Links.lean from deeplinks.ReservedHosts() of the working tree", ok, detail)
    ctx.coverage_extra["regenerated"] = detail


def run(ctx):
    ctx.assumptions += [
        "net/url.Parse, (*URL).Hostname and strings.ToLower are Go standard library: modelled in Lean "
        "(UrlLite.parse, hostname, toLower) and compared with the real functions on every run, not verified",
        "string-level theorems are about UrlLite.parse; its agreement with url.Parse is sampled (c20.parse), totality of url.Parse itself is trusted",
        "u.Query() (evaluated and discarded by both converters) is not modelled",
    ]
    return vlib.generic_check(ctx, SUB, MODULES, THEOREMS, RULE, gen_hook=gen_hook)


def replay(ctx, path):
    if ctx.build_harness():
        gen_hook(ctx)
    return vlib.replay(ctx, SUB, path)


if __name__ == "__main__":
    # stand-alone regeneration (used by setup after a fresh restore): python3 checks/c20.py [repo]
    repo = sys.argv[1] if len(sys.argv) > 1 else os.environ.get("VERIF_REPO", "/repo")
    c = vlib.Ctx("C20", "quick", 1, repo)
    if not c.build_harness():
        print(c.obligations[-1][2])
        sys.exit(1)
    ok, detail = regen_from_binary(getattr(c, "vh_bin", None) or vlib.vh_path("C20"), c.work)
    shutil.rmtree(c.work, ignore_errors=True)
    print(detail)
    sys.exit(0 if ok else 1)
