"""C18 — the 2FA SRP answer verifies for the right password and only for it."""
import vlib

SUB = "c18"
MODULES = ["Mtv.Props.C18"]
THEOREMS = [
    "Mtv.Srp.pad256_roundtrip",
    "Mtv.Srp.powMod_correct",
    "Mtv.Srp.t_nonneg",
    "Mtv.Srp.srp_complete",
    "Mtv.Srp.srp_complete_public",
    "Mtv.Srp.empty_password_none",
    "Mtv.Srp.wrong_algo_refused",
    "Mtv.Srp.bad_B_refused",
    "Mtv.Srp.answer_only_if_valid",
    "Mtv.Srp.srp_sound_reduction_partial",
    "Mtv.Srp.srp_wrong_rejected_partial",
    "Mtv.Srp.srp_same_verifier_accepted",
]
RULE = ("operations: one SRP exchange each — telegram.VerifSRP (client randomness supplied) or the public "
        "telegram.GetInputCheckPassword against the harness's own SRP server (math/big, written from Telegram's "
        "definition, holds only the verifier): passwords (ASCII, Unicode, 348-byte, non-UTF-8) x salts of length "
        "0/8/16/32/40/100, Telegram's 2048-bit prime with g in 2..7, odd moduli of 2048/2047/2040/2033/1024/64 "
        "bits, toy and degenerate groups, client/server secrets and `random` lengths varied, rejection-sampled "
        "secrets giving 1-2 leading zero bytes in A, B, u, S; wrong passwords; srp_B in {0, p, p+1, p-1, 1, B+p, "
        "247/248/255/257/300 bytes}; empty password; foreign algorithm object; long inputs (password, salt1, salt2 "
        "each of 0, 1, around 56/64/128, 500, 1024, 1025, 4096, 65536 bytes alone and in combination: honest exchanges, "
        "long passwords answered with one that differs in the last byte / by one byte of length, public entry point); c18.seq = several exchanges one after "
        "the other in one process, each judged on its own: a base (password, salt1, salt2) followed by the triples "
        "with the same concatenated bytes and the boundaries moved. Caller memory: the byte-string inputs of every "
        "exchange (salt1, salt2, p, srp_B, random) are placed, as a function of the operation line, in own exactly-sized "
        "arrays / own arrays with spare capacity / ONE backing array in a pseudo-random order, adjacent or with gaps, "
        "and all of that memory must be unchanged after the call; the public wrapper gets an AccountPassword whose "
        "other fields (has_recovery, has_secure_values, has_password, hint, email_unconfirmed_pattern, new_algo, "
        "new_secure_algo, secure_random) are populated as a function of the operation line for 3 of 4 c18.pub lines. "
        "distinct = distinct operation "
        "lines; each is compared with the Lean client model (A and M1 byte for byte) and with the Lean "
        "specification server's verdict, and judged by the Go server")


def run(ctx):
    ctx.assumptions += [
        "SHA-256, HMAC-SHA-512 and PBKDF2 are parameters of the theorems (any functions H, KDF); the only hash "
        "property used is that H(p) and H(g) have equal length. The executable Lean versions are compared with "
        "Go's on every run (c18.ph2 and every c18.srp line).",
        "'only for it' is proved up to the reduction S(password') = S' under no-collision hypotheses on H; that a "
        "different password cannot reach the same session secret is a discrete-logarithm-type assumption, sampled "
        "(wrong passwords are rejected by both servers in every generated case), not proved.",
        "math/big (SetBytes, Bytes, Exp, Mul, Mod, Sub, Add, Cmp) is modelled by Nat arithmetic and explicit "
        "byte conversions; a negative int32 g is outside the model.",
    ]
    return vlib.generic_check(ctx, SUB, MODULES, THEOREMS, RULE)


def replay(ctx, path):
    return vlib.replay(ctx, SUB, path)
