"""C08 — transport framing under any TCP segmentation."""
import vlib

SUB = "c08"
MODULES = ["Mtv.Props.C08"]
THEOREMS = [
    "Mtv.Framing.readFullSegs_spec",
    "Mtv.Framing.readFull_chunking",
    "Mtv.Framing.readFullSegs_eq_readN",
    "Mtv.Framing.abridged_header",
    "Mtv.Framing.abridged_rejects_unaligned",
    "Mtv.Framing.intermediate_header",
    "Mtv.Framing.readFrame_frame",
    "Mtv.Framing.readAll_frames",
    "Mtv.Framing.detect_announce",
    "Mtv.Framing.stream_roundtrip",
    "Mtv.Framing.errcode_signed",
]
RULE = ("operations: write (every length class 0..520 step 4, 2^10..2^20, unaligned), round trips under every "
        "composition of short streams and random / one-byte-at-a-time splits of long ones through the real "
        "exact-count reader, every prefix truncation of valid streams, malformed announcements, and streams "
        "of messages / signed error-code frames over a real loopback TCP connection through transport.ReadMsg; "
        "distinct = distinct operation lines; each is compared with the Lean model and judged by the "
        "independent spec framer")


def run(ctx):
    ctx.assumptions += [
        "tcpConn.Read is an exact-count read (go-dry CancelableReader + io.ReadFull): observed over loopback, not proved",
        "the kernel's actual TCP segmentation is not controlled; segmentation is controlled on the in-memory exact-count reader",
    ]
    return vlib.generic_check(ctx, SUB, MODULES, THEOREMS, RULE)


def replay(ctx, path):
    return vlib.replay(ctx, SUB, path)
