"""C08 — transport framing under any TCP segmentation."""
import vlib

SUB = "c08"
MODULES = ["Mtv.Props.C08", "Mtv.Props.Arith", "Mtv.Props.ArithFrame"]
THEOREMS = [
    "Mtv.Framing.readFullSegs_spec",
    "Mtv.Framing.readFull_chunking",
    "Mtv.Framing.readFullSegs_eq_readN",
    "Mtv.Framing.abridged_header",
    "Mtv.Framing.abridged_rejects_unaligned",
    "Mtv.Framing.intermediate_header",
    "Mtv.Framing.readFrame_frame",
    "Mtv.Framing.readAll_frames",
    "Mtv.Framing.detect_announce",
    "Mtv.Framing.stream_roundtrip",
    "Mtv.Framing.errcode_signed",
]
RULE = ("operations: write (every length class 0..520 step 4, 2^10..2^20, unaligned), round trips under every "
        "composition of short streams and random / one-byte-at-a-time splits of long ones through the real "
        "exact-count reader, every prefix truncation of valid streams, malformed announcements, and streams "
        "of messages / signed error-code frames over a real loopback TCP connection through transport.ReadMsg; "
        "streams of several short frames (1..64 bytes, 4-byte error codes) interleaved with long and empty ones, every "
        "read path holding the slices ReadMsg returned untouched until the end of the stream; the repository's TCP "
        "connection with a short read timeout (c08.dl): reads, idle time longer than the timeout with and without a "
        "read pending, then writes of several lengths, writes still blocked past the timeout behind a late-draining "
        "peer, and the mirror image (writes, idle/blocked writes, then reads) — each side must receive exactly the "
        "frames the other wrote; c08.read is judged by the format's own reader (the mode is recognised from 0xef / 0xee 0xee 0xee 0xee "
        "and from nothing else; whole frames are the messages; a cut frame ends the stream) on streams that share a prefix with an "
        "announcement without being one (0xee then other bytes, a cut announcement, 0xdd.., other first bytes); c08.seq = operations "
        "of ONE process one after another — such streams detected before, between and after NEW connections of both modes writing "
        "their announcement and frames (mode.New on a recording connection and on the repository's TCP connection over loopback) "
        "and well-formed streams being detected and read: every step judged as the single operation it is; c08.tcp's peer checks "
        "the announcement the client's transport wrote; c08.cfg = c08.det on a connection configured otherwise: Ctx = Background / TODO / a "
        "value context / WithoutCancel / a caller's own never-done Context / WithCancel / a child of one / WithTimeout, x Timeout = 0 / 400 ms / "
        "10 s / 1 h, x both modes x bytewise, whole, random cuts and every composition of the head; "
        "distinct = distinct operation lines; each is compared with the Lean model and judged by the "
        "independent spec framer")


def run(ctx):
    ctx.assumptions += [
        "tcpConn.Read is an exact-count read (go-dry CancelableReader + io.ReadFull): observed over loopback, not proved",
        "the kernel's actual TCP segmentation is not controlled; segmentation is controlled on the in-memory exact-count reader",
        "c08.seq: the model's operations are functions of their input alone, so the driver answers each step as the single operation it is",
        "c08.dl: timing is not modelled (the driver answers what the model says about the two streams of frames); whether the "
        "slow-writer variants really block depends on the machine's socket buffer limits (counted in the distribution's extra)",
    ]
    return vlib.generic_check(ctx, SUB, MODULES, THEOREMS + vlib.ARITH_THEOREMS["C08"], RULE, gen_hook=vlib.regen_arith)


def replay(ctx, path):
    return vlib.replay(ctx, SUB, path)
