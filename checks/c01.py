"""C01 — TL codec round trip."""
import vlib
import tlgen

SUB = "c01"
MODULES = ["Mtv.Props.C01"]
THEOREMS = [
    "Mtv.TL.putMessage_popMessage",
    "Mtv.TL.putMessage_is_aligned",
    "Mtv.TL.putMessage_header",
    "Mtv.TL.decode_encode_named",
    "Mtv.TL.decode_encode_unknown",
    "Mtv.TL.decode_encode_value",
    "Mtv.TL.flagWord_bit_iff",
    "Mtv.TL.registry_wf",
    "Mtv.TL.marshal_deterministic",
    "Mtv.TL.encList_append",
    "Mtv.TL.encList_twice",
]
RULE = ("for every constructor registered in the working tree (enumerated by reflection): type-directed values "
        "(random depth-limited nesting through interfaces and vectors, boundary integers / doubles incl. NaN and -0.0, "
        "128/256-bit integers with leading zero bytes, strings around the 254-byte header switch, nil / empty / "
        "populated slices), every presence pattern of every flag group holding more than one field, every enum "
        "member, vectors of 255..3000 elements (thorough: up to 10000) of every element kind, message containers (incl. "
        "members with empty bodies in every position but the last); plus byte strings on both sides of every header boundary. Each value is "
        "marshalled, decoded by name and by constructor id by the real code and by the Lean model (outputs "
        "compared), and judged by the round-trip law itself. Canonical form is taken from the SCHEMA (schemes/api_latest.tl of the "
        "working tree, own reader in the harness): which conditional fields form a group and which booleans are bare flag bits is "
        "read from the schema line of each constructor, values are generated and judged canonical with respect to those groups "
        "(struct tags only for types the schema does not define), every flag group of every constructor present alone and absent "
        "alone; 128/256-bit integer fields with 0, 1, all ones, 1 / 2 / 8 / 16 / all-but-one leading zero bytes on every run. "
        "c01.sdec: for EVERY constructor and function of the schema (not only those the registry lists) bytes written from its "
        "schema line (smallest value, all conditional parameters present, random flag bits with random values) are decoded by "
        "constructor id and must give a value of that constructor that serialises back to them. c01.reg: the number of distinct "
        "registered ids equals the number of objects and enum members handed to tl.RegisterObjects / tl.RegisterEnums in the "
        "sources, and every struct handed over is the type of some id. c01.hint: bare vectors in an object position (alone, as the "
        "result of an rpc_result, inside gzip_packed, both) of every element kind (int, uint, long, double, Bool, string, bytes, "
        "pointers to constructors, boxed objects, vectors of vectors): tl.Marshal's bytes decoded by tl.DecodeUnknownObject with "
        "the hints that describe them, 1 to 4 times with ONE hints slice object spread into every call (with and without spare "
        "capacity holding sentinels, with and without hints left over): every decoding returns the original vector, and the "
        "arguments - every slot of the hints slice up to its capacity, the input bytes, the marshalled value - are compared with "
        "copies taken before the first call. c01.dag (identity and aliasing of Go values; the text of an operation and the model's "
        "values are trees): the value built with ONE Go object at every position of equal type and text (one pointer in two "
        "fields, at two positions of a vector, at different depths, a constructor without fields, a 128/256-bit integer, a slice, a "
        "byte string used twice), with every slice of a type cut from one backing array (capacities reaching over the neighbours and "
        "over sentinels / limited), with typed nil pointers inside interfaces: tl.Marshal gives the bytes of the same tree built from "
        "separate objects (both refused or both serialised, same bytes), twice the same, leaves its argument and the spare capacity "
        "alone; both decoders return the tree; the decoded values do not change when the input bytes are overwritten, a second "
        "decoding is equal and shares nothing with the first (everything reachable from the first result is overwritten in place), "
        "and the bytes Marshal returned do not change when everything reachable from the argument is overwritten. c01.wrap: the "
        "hand-written wrappers InitConnectionParams / InvokeWithLayerParams / InvokeWithTakeoutParams around registered method "
        "parameters (Proxy / Params present and absent in every combination, wrappers inside wrappers): marshalled twice, compared "
        "with the bytes their SCHEMA line defines, decoded by naming the wrapper type; the Lean model answers on the registry "
        "extended by the wrappers' descriptors (reflection over the working tree, carried in the operation). distinct = distinct operation lines")


def run(ctx):
    ctx.assumptions += [
        "Go's reflect package behaves as documented (the model describes what the codec does through reflect, not reflect itself)",
        "values outside the domain (nil mandatory pointer/interface, integer wider than its field, a bitflag bool that "
        "disagrees with the presence of its group - groups as the schema defines them -, -0.0 in a conditional double) are generated but not judged",
        "the harness' reader of schemes/api_latest.tl and its writer of schema bytes (c01schema.go) are trusted; parameters of a "
        "schema line correspond in order to the struct fields the codec does not ignore (C13 proves that for the unchanged tree); "
        "c01.reg reads the registration sites with go/parser (calls tl.RegisterObjects / tl.RegisterEnums outside tests and testdata)",
        "reading adopted for the hand-written wrappers (request-only types nobody registers): decoding by constructor id applies to "
        "registered constructors - tl.DecodeUnknownObject on wrapper bytes and a wrapper inside a wrapper's query (decoded by id) are "
        "refused by the unchanged code; c01.wrap reports both and judges neither (docs/C01.md, Session 9)",
        "c01.dag: identity is not part of a value - a Go value with shared objects is judged against the tree it unfolds to; cyclic "
        "values have no unfolding and are not generated",
    ]
    return vlib.generic_check(ctx, SUB, MODULES, THEOREMS, RULE, gen_hook=tlgen.regen_registry)


def replay(ctx, path):
    return vlib.replay(ctx, SUB, path)
