"""C01 — TL codec round trip."""
import vlib
import tlgen

SUB = "c01"
MODULES = ["Mtv.Props.C01"]
THEOREMS = [
    "Mtv.TL.putMessage_popMessage",
    "Mtv.TL.putMessage_is_aligned",
    "Mtv.TL.putMessage_header",
    "Mtv.TL.decode_encode_named",
    "Mtv.TL.decode_encode_unknown",
    "Mtv.TL.decode_encode_value",
    "Mtv.TL.flagWord_bit_iff",
    "Mtv.TL.registry_wf",
]
RULE = ("for every constructor registered in the working tree (enumerated by reflection): type-directed values "
        "(random depth-limited nesting through interfaces and vectors, boundary integers / doubles incl. NaN and -0.0, "
        "128/256-bit integers with leading zero bytes, strings around the 254-byte header switch, nil / empty / "
        "populated slices), every presence pattern of every flag group holding more than one field, every enum "
        "member, vectors of 255..3000 elements (thorough: up to 10000) of every element kind, message containers (incl. "
        "members with empty bodies in every position but the last); plus byte strings on both sides of every header boundary. Each value is "
        "marshalled, decoded by name and by constructor id by the real code and by the Lean model (outputs "
        "compared), and judged by the round-trip law itself. distinct = distinct operation lines")


def run(ctx):
    ctx.assumptions += [
        "Go's reflect package behaves as documented (the model describes what the codec does through reflect, not reflect itself)",
        "values outside the domain (nil mandatory pointer/interface, integer wider than its field, a bitflag bool that "
        "disagrees with the presence of its group, -0.0 in a conditional double) are generated but not judged",
    ]
    return vlib.generic_check(ctx, SUB, MODULES, THEOREMS, RULE, gen_hook=tlgen.regen_registry)


def replay(ctx, path):
    return vlib.replay(ctx, SUB, path)
