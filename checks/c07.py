"""C07 — key exchange aborts on any inconsistent server reply and persists nothing."""
import os

import tlgen
import vlib

SUB = "c07"
MODULES = ["Mtv.Props.C07"]
THEOREMS = [
    "Mtv.Handshake.registry_hs",
    "Mtv.Handshake.checks_match_source",
    "Mtv.Handshake.iface_sets",
    "Mtv.Handshake.hs_save_only_if_all_checks",
    "Mtv.Handshake.hs_abort_is_error",
    "Mtv.Handshake.hs_no_encrypted_before_success",
    "Mtv.Handshake.conn_matches_source",
    "Mtv.Handshake.reader_without_key_never_dials",
    "Mtv.Handshake.hs_abort_stops_everything",
    "Mtv.Handshake.hs_nothing_after_abort",
]
RULE = ("one operation = one key exchange of the real client (NewMTProto + CreateConnection over loopback TCP, "
        "Intermediate transport) with a replay server that answers the i-th request with the i-th prepared body; "
        "the bodies are a conformant server's replies (independent implementation: own TL, IGE, SHA-1, RSA, DH) "
        "with ONE fault: every field of resPQ / server_DH_params_ok / server_DH_inner_data / dh_gen_ok x {bit flip "
        "at a drawn position, fresh random, the other nonce, zero}; no / foreign / byte-swapped fingerprint; "
        "encrypted_answer with flipped first / last / random bit, random, zero, 7 wrong lengths, wrong SHA-1 prefix, "
        "wrong keys; another constructor inside the answer; server_DH_params_fail, dh_gen_retry, dh_gen_fail (also "
        "carrying hash1), replies swapped between steps, rpc_error, null, boolTrue at each step; pq = 0 / 1 / prime; "
        "undecodable bodies (unknown id, truncated, empty, bare vector, flipped id) at each step; plus the "
        "consistent variations (pq another semiprime, server_time, g). Server keys from a pool of 3 (thorough 4) in "
        "turn; first in every run, c07.seq operations = several exchanges in ONE operation with the caller's "
        "rsa.PublicKey object fresh / one object reassigned / one object overwritten in place between exchanges: "
        "resPQ offering only the fingerprint of the key the object held EARLIER (must be refused), offering the "
        "current key's alone / next to the earlier one (must be accepted), back to the first key, after an abandoned "
        "exchange. The client side of the aftermath: for every class of fault (reply x field, i.e. every step at "
        "which the exchange can be abandoned) the operation is run again with the application going on with the "
        "same object - a request through MakeRequest (+req), a second CreateConnection answered with the same script "
        "and then a request (+retry), each on its own goroutine with a bounded wait - while the server logs every "
        "frame the client writes: no encrypted message (auth_key_id != 0), nothing stored, not in encrypted mode, "
        "the retry ends with an error. The pool also holds one key per byte length of the public exponent (3 / 5 "
        "/ 17, a 2-byte, a 3-byte other than 65537, a 4-byte exponent; built from two primes); for EVERY pool key as "
        "the client's key resPQ offers near misses only - the same modulus with a dozen other exponents, the other "
        "moduli with this exponent, the own fingerprint byte-reversed / sign-flipped / negated / one half / shifted "
        "/ off by one - and, in a c07.seq, the near misses with the own fingerprint among them (must be accepted). "
        "Every reply field that echoes nonce or server_nonce (seven sites) and new_nonce_hash1, echoed with its ZERO "
        "BYTES MOVED: the right value has 1-3 leading and/or 1-2 trailing zero bytes (the client's nonce is a draw "
        "of the operation, server_nonce the server's choice, the hash forced by counting the server's DH secret "
        "upwards) and the echo is the value rotated by whole bytes over its zero bytes (00||X -> X||00, X||00 -> "
        "00||X, 00||Y||00 -> Y||0000 ...), 8 moves x 7 sites per round. The NETWORK side of the aftermath, c07.gone: k "
        "clients (8, thorough 12) in one operation, one exchange each - the steps at which an exchange can be abandoned "
        "in turn: reply 1, 2, 3 wrong or undecodable, a wrong constructor; exchanges drawn from all the above - and, "
        "once every CreateConnection has returned, all servers at the same moment close / half-close / reset / keep "
        "the connection of the exchange (or each closed it AT ONCE, in the same breath as the reply the client gives "
        "up at: the EOF races the return of CreateConnection) while later connections to the address are served by a conformant server "
        "holding the key / answered with the old script / accepted and left unanswered / accepted and closed / "
        "refused (10 combinations, thorough all 25 x 2); for 1.5 s (thorough 3 s) everything is logged: connections "
        "accepted, unencrypted and encrypted frames on them and on the old connection, Store calls, the client's "
        "Warnings (a refused dial shows there), the encrypted flag. After an abandoned exchange: NOTHING - no "
        "connection attempt, no frame, no store; the mirror, a client whose exchange succeeded among them: it "
        "connects again once, runs no second exchange, and its next request arrives under the key of the exchange. "
        "The Lean side answers with the connection machine (createConnection + connFeed over the events of that "
        "server behaviour). distinct = distinct operation lines; each "
        "is compared with the Lean client machine (outcome class, the three request bodies, key, salt, flags, "
        "stores) and judged by the independent reply-sequence judge")

GEN_LEAN = os.path.join(vlib.LEAN, "Mtv", "Gen", "HsChecks.lean")


def regenerate(ctx):
    """gen_hook: the TL registry (reflection) and the check skeleton of makeAuthKey (go/ast), both from
    the working tree the harness was built against. A failing extraction removes the generated file, so
    that the proof build fails instead of silently using stale facts."""
    tlgen.regen_registry(ctx)
    exe = os.path.join(vlib.BUILD, "c07facts")
    with vlib.Lock("go-c07facts"):
        rc, out = vlib.run(["go", "build", "-o", exe, "./cmd/c07facts"], cwd=vlib.HARNESS,
                           env=vlib.go_env(ctx.repo), timeout=600)
        if rc == 0:
            rc, out = vlib.run([exe, "-repo", ctx.repo, "-lean", GEN_LEAN], timeout=120)
    ctx.obligation("c07facts: check skeleton of makeAuthKey, wrapper assertions, interface implementers, makeRequest "
                   "cases extracted from %s (go/parser)" % ctx.repo, rc == 0, out[-600:])
    if rc != 0:
        try:
            os.remove(GEN_LEAN)
        except OSError:
            pass
    return rc == 0


ASSUMPTIONS = [
    "SHA-1, the AES-256 block functions and gzip are parameters of the theorems (hs_abort_is_error uses only "
    "|SHA1| = 20); the executable Lean SHA-1 / AES-256 plugged into the driver are compared with Go's on every "
    "operation (every request body contains hashes and IGE ciphertext) and by the CRYPTO check",
    "the pq guard + math.SplitPQ is a parameter `split` (none: pq < 4 or prime; some (p,q): the factors; assumed: "
    "factors are not larger than the number); its termination/correctness is observed on the generated semiprimes, "
    "not proved. A pq with more than one factorisation into two factors (square, three primes) is accepted by the "
    "client with whichever pair SplitPQ finds and is not generated",
    "math/big (SetBytes, Bytes, Exp, Cmp, ProbablyPrime) modelled as Nat operations + explicit byte conversions; "
    "square-and-multiply is proved equal to b^e % m (powMod_eq)",
    "the receive goroutine + service channel + makeRequest are modelled as 'the reply body is decoded and handed to "
    "the waiting step'; goroutine scheduling, TCP and the transport framing are not modelled (C08 covers framing). "
    "Around the exchange (Mtv.Handshake.Conn): CreateConnection = dial, reading routine, makeAuthKey, and on its "
    "error path m.stopRoutines(), and the reading routine's EOF case reconnects only for an object that holds a "
    "key (pending_fixes/C07-failed-exchange-stops-routines.v2); a stopped object reacts to no network event. That `stopRoutines` (context cancellation + closing the socket) really ends the reading routine "
    "is assumed by the model and OBSERVED by the c07.gone operations (bounded window), not proved; what a running "
    "reading routine does with frames of an established session is other properties' business. "
    "An rpc_error whose text is PHONE_MIGRATE_n (reconnect to another DC) is outside the model",
    "the theorems describe makeAuthKey as repaired by the C06-*/C07-* fix commits; `ClientSane` (hypothesis of "
    "hs_abort_is_error) constrains only the client's own registry, key, draws and primitives, never the replies",
]


def run(ctx):
    ctx.assumptions += ASSUMPTIONS
    return vlib.generic_check(ctx, SUB, MODULES, THEOREMS, RULE, gen_hook=regenerate,
                              extra_trusted=("harness/cmd/c07facts (go/parser extractor of the check skeleton)",
                                             "harness/cmd/regdump (reflection dump of the TL registry)"))


def replay(ctx, path):
    return vlib.replay(ctx, SUB, path)
