"""C13 — the shipped API layer is a faithful translation of the shipped TL schema."""
import json
import os
import re
import subprocess
import time

import vlib

SUB = "c13"
MODULES = ["Mtv.Props.C13"]
THEOREMS = [
    "Mtv.C13.ids_are_crc32",
    "Mtv.C13.ids_unique",
    "Mtv.C13.registry_matches_api",
    "Mtv.C13.registry_matches_service",
    "Mtv.C13.field_names_match",
    "Mtv.C13.struct_fields_are_layout",
    "Mtv.C13.tables_valid",
    "Mtv.C13.wrappers_match",
    "Mtv.C13.nothing_extra_partial",
    "Mtv.C13.methods_match",
    "Mtv.C13.enum_constants_named",
]
RULE_E2E = (" End-to-end clause (harness/cmd/vh/c13e2e.go): the REAL methods of *telegram.Client, found by reflection, are called on a "
            "client that resumed a stored session and talks over loopback TCP to a scripted peer. Every method that has a schema function "
            "is called with zero-valued arguments (answer delivered plainly) and with distinguishable arguments, elements and conditional "
            "parameters (answer delivered inside a container, gzip_packed, after the first copy of the request was rejected with "
            "bad_server_salt, or both); every method with a Vector result with 0, 3 and 5000 elements x those ways of delivery; answers "
            "larger than one inflate window (32768 bytes) packed, for the Vector methods and a sample of the result types that have a "
            "string / bytes / vector to enlarge (thorough: all); the three hand-written wrappers around queries with object, Bool and "
            "Vector results; a sample of the generated methods (thorough: all) called WHILE OTHER CALLS ARE UNDER WAY on the same client "
            "(size token ~w / ~w1): another generated method's write is in progress (held in the transport's write hook, write lock taken), "
            "the method under test has encoded its request and waits for the lock, a third generated method and the receive loop "
            "(acknowledging new_session_created) encode meanwhile, with GOMAXPROCS unchanged and 1 - the peer must receive each of the "
            "three requests exactly as the schema serialises that call's arguments plus well-formed acknowledgements, and every call "
            "returns its own answer. The peer compares the request with the serialisation of the arguments made from the SCHEMA LINE of the "
            "function (own reader of schemes/api_latest.tl, own TL writer) and answers with a value of the declared result type built "
            "from the schema (smallest constructor; populated for short vectors). Judge: the call returns within the deadline, without "
            "panic or error, a value whose schema serialisation is the payload sent. The Lean driver answers these operations with the "
            "line that says so (after checking that the method is a row of the regenerated method table). Flag groups "
            "(harness/cmd/vh/c13groups.go, c13.e2e.grp): for every definition of the schema in which two or more parameters other than `true` "
            "ones are conditional on ONE flag bit, calls in which the members of that group are zero / non-zero in every mix and order - "
            "the function itself, a constructor placed inside the arguments of the method with the shortest chain to it, a constructor "
            "placed inside the answer. Expected from the schema by a group-aware writer (c13groups_build.go): a set bit announces every "
            "member, a zero-valued one is sent as its zero; a nil object inside a present group has no serialisation - the call must "
            "return an error and send nothing. The Lean driver derives ok / refused from the regenerated schema table. Optional vectors and bytes "
            "(harness/cmd/vh/c13opt.go, c13.e2e.opt): for EVERY conditional Vector<..> / bytes parameter of the schema (45 + 8) - of a "
            "function, of a constructor placed inside the arguments of a method (shortest chain, and the shortest chain through a "
            "Vector<constructor>), of a constructor placed inside an answer - calls in which that parameter is the Go value nil (the "
            "schema's 'absent': bit clear, nothing written), a non-nil slice of length 0 with capacity 0 / 8 (the schema's 'present, no "
            "elements': bit set, 1cb5c415 00000000 resp. a zero-length bytes field written) or has one element, with the other conditional "
            "parameters of the definition absent / all present / drawn per flag bit. Expected bytes from the schema line by the group-aware "
            "writer (nil = absent, non-nil = present); the generator checks that the expected requests for nil / empty / one element are "
            "three different byte strings. In the answer direction the value returned must serialise, under the same reading, to the "
            "payload sent (a present empty vector comes back non-nil, an absent one nil). Conditional strings: Go has one empty string, the "
            "layer cannot express 'present, empty' for a string alone on its bit - outside these operations.")

RULE = ("programs = rows of the regenerated tables: every definition of schemes/api_latest.tl and schemes/mtproto.tl "
        "(translator validated by printing each back to its source line; id = CRC-32 of the canonical line; parameter "
        "names against the Go field names position by position), every "
        "registered constructor (reflection over the built tree: the codec's layout, and every field of the struct with "
        "its tag as written), every generated client method and hand-written wrapper (go/parser: request literal, call, "
        "assertion, and the statement skeleton of the body), every constant of an enum type of package telegram BY NAME and every case of "
        "the String() methods (go/parser over the non-test files of telegram/: the constant named after an enum member of the schema "
        "carries that member's id; String() gives the schema's name for the id). Each row is compared by the Lean kernel (per-chunk decide +kernel obligations); the "
        "compiled driver names the rows for which an obligation fails. distinct = number of rows")

KINDS = {
    "crc": "the schema definition does not print back to its source line, or its id is not the CRC-32 of its canonical line",
    "api": "no registered type with this definition's id and layout (fields in order, type, flag bit, flags-word position)",
    "service": "no registered type with this service definition's id and layout",
    "names": "field of the registered type is not named after the schema parameter in its position (definition:parameter/GoField; "
             "names compared after dropping '_' and folding case, listed exceptions aside) - e.g. two parameters of one type "
             "declared in the wrong order: the codec assigns by position, so each field receives the other's value",
    "rows": "constructor missing from the join table of its type",
    "reg": "registered constructor missing from the join table of one of its interfaces / its enum type",
    "methods": "generated client method does not send its function's constructor with arguments in the schema's parameter positions / does not return the declared result kind",
    "wrappers": "hand-written wrapper does not carry the id and layout of its schema line",
    "skeleton": "the body of the client method is not 'send the request, return its answer' (generated: call; iferr; assert; "
                "ifnotok-error; ret - hand-written wrapper: call; iferr; ret-assert): a statement in front of the request (a cached "
                "copy may answer instead of the server), between the answer and the return, a second request, a missing check",
    "extra-field": "the registered Go struct has a field the codec's layout (and so the schema definition) does not have "
                   "(constructor:GoField) - whatever its tag: the encoder skips a field tagged tl:\"-\", the decoder reads it "
                   "whenever flags bit 0 is set",
    "field-tag": "the struct tag of the field is not literally the text of its flag (tl:\"flag:N\" / "
                 "tl:\"flag:N,encoded_in_bitflags\" / none)",
    "extra": "registered type that no schema line defines",
    "enum-const": "the Go constant named after this enum member of the schema does not carry the member's id (member:Constant=id it "
                  "carries), is missing or exists twice; or a constant of an enum type is named after no member; or a String() case "
                  "returns another name than the schema's for the id - every use of the constant BY NAME sends / recognises another "
                  "constructor, while the ids registered under the enum type are unchanged",
}


def op_of(kind, item):
    """the failing input as it is written into the replay file"""
    if kind == "skeleton":  # item = Method:stmt;stmt;...
        name, _, sk = item.partition(":")
        return "c13.method %s: skeleton %s" % (name, sk)
    return "c13.%s %s" % (kind, item)


def regen(ctx):
    env = dict(os.environ)
    env["VERIF_REPO"] = ctx.repo
    with vlib.Lock("regdump"):
        p = subprocess.run([os.path.join(vlib.VERIF, "tools", "regen_schema.sh")], env=env,
                           stdout=subprocess.PIPE, stderr=subprocess.STDOUT, text=True, timeout=1800)
    ctx.obligation("regenerate Mtv/Gen/{SchemaApi,SchemaMt,Registry,Methods}.lean and the per-chunk obligations "
                   "Mtv/Gen/C13/*.lean from the working tree", p.returncode == 0, p.stdout[-1500:])
    return p.returncode == 0


def report(ctx):
    rc, out = ctx.lake(["drv-c13"])
    drv = vlib.driver_path("C13")
    if not os.path.exists(drv):
        return None
    p = subprocess.run([drv], input="c13.report\n", stdout=subprocess.PIPE, stderr=subprocess.PIPE, text=True, timeout=600)
    line = p.stdout.strip().splitlines()[-1] if p.stdout.strip() else ""
    rep = {}
    for tok in line.split():
        if "=" in tok:
            k, v = tok.split("=", 1)
            rep[k] = v
    return rep


def e2e(ctx):
    """the end-to-end clause: generated operations through the Go harness (real client methods against the scripted
    peer, judged by the schema-directed oracle) and through the Lean driver"""
    if not ctx.build_harness():
        ctx.report_unexplained("go build of the harness against the working tree", ctx.obligations[-1][2][-800:])
        return
    if not os.path.exists(vlib.driver_path("C13")):
        return
    runs = []
    corpus = os.path.join(vlib.VERIF, "corpus", SUB + ".ops")
    if os.path.exists(corpus):
        runs.append(("corpus", corpus))
    runs.append(("gen", None))
    all_mism = []
    for label, opsf in runs:
        mism, judged, meta = ctx.correspond(SUB, ops_file=opsf, label=label)
        for v in judged:
            ctx.report_failing_input(v, "client method called end-to-end against the scripted peer (%s)" % label)
        all_mism += mism
    explained = {v["op"] for v in ctx.violations if not v.get("no_input")} | ctx.known_ops
    unexplained = [m for m in all_mism if m["op"] not in explained]
    new = [m for m in all_mism if m["op"] not in ctx.known_ops]
    ctx.obligation("end-to-end: every call of a client method sends the schema's request and returns the answer sent "
                   "(Go result line == the line that says so, on every generated operation)",
                   not new, ("%d operation(s) differ; first: %s" % (len(new), json.dumps(new[0])[:500]) if new else
                             "%d operation(s) differ, all of them listed known findings" % len(all_mism) if all_mism else ""))
    for m in unexplained[:1]:
        ctx.report_unexplained("end-to-end operation no longer agrees: " + m["op"][:300],
                               {"op": m["op"], "go": m["go"][:600], "lean": m["lean"][:600], "count": len(unexplained)})


def run(ctx):
    ctx.assumptions += [
        "the schema translator is validated inside Lean (render = source line); that the .tl file consists of these lines is trusted",
        "the registry extractor (reflection through the verif hook) and the go/parser fact extractor are trusted",
        "five registered types are defined only in comments of the shipped schema: listed known finding",
        "end-to-end clause: the peer is scripted (one request at a time, loopback, an already-keyed session); the schema reader / TL writer / value "
        "builder of harness/cmd/vh/c13e2e.go are trusted; argument and answer values are sampled (zero values, one populated set per method "
        "and seed), not enumerated; timing: a call that has not returned 6 s after its answer went out counts as not returning",
    ]
    regen_ok = regen(ctx)
    ok = regen_ok and ctx.lean_check(MODULES, THEOREMS)
    rep = report(ctx) if regen_ok else None
    nitems = 0
    if rep is not None:
        for k, why in KINDS.items():
            v = rep.get(k, "-")
            if v in ("-", ""):
                continue
            for name in v.split(","):
                nitems += 1
                ctx.report_failing_input({"op": op_of(k, name), "out": "obligation fails for this row", "why": why},
                                         "row of the regenerated tables named by the driver")
        if rep.get("counts") == "false":
            ctx.report_unexplained("join-table counts no longer check", rep)
        if rep.get("fieldtable") == "false" and not any(rep.get(k, "-") not in ("-", "") for k in ("extra-field", "field-tag")):
            ctx.report_unexplained("the table of all struct fields does not line up with the registry (rows, ids)", rep)
        if rep.get("enumtables") == "false" and rep.get("enum-const", "-") in ("-", ""):
            ctx.report_unexplained("the tables of enum constants / String() cases do not line up with the schema's enum members", rep)
        if rep.get("nametable") == "false":
            ctx.report_unexplained("the field-name table is not the registry's (rows, ids, field counts or texts differ)", rep)
        if rep.get("dupids") == "true":
            ctx.report_unexplained("constructor ids are not unique / tables not sorted by id", rep)
        try:
            ctx.evaluations += int(rep.get("ndefs", 0)) + int(rep.get("nreg", 0)) + int(rep.get("nmethods", 0))
            ctx.distinct = ctx.evaluations
        except ValueError:
            pass
        ctx.samples = [{"row": "inputPeerUser#7b8e7de6 user_id:int access_hash:long = InputPeer  <->  telegram.InputPeerUser{UserID int32; AccessHash int64}"},
                       {"driver_report": {k: rep.get(k) for k in list(KINDS) + ["counts", "dupids", "nametable", "fieldtable", "enumtables", "ndefs", "nreg", "nmethods"]}}]
    e2e(ctx)
    concrete = [v for v in ctx.violations if not v.get("no_input")]
    if not ok and not concrete:
        broken = [o for o in ctx.obligations if not o[1]]
        for o in broken:
            ctx.report_unexplained("proof obligation no longer checks: " + o[0], o[2][:800])
    return ctx.finish(rule=RULE + RULE_E2E, extra_trusted=["tools/tl2lean.py (validated by render = raw), harness/cmd/c13facts (go/parser), harness/cmd/regdump (reflection)"])


def replay(ctx, path):
    rep = json.load(open(path))
    regen(ctx)
    if any(op.startswith("c13.e2e") for op in rep.get("ops", [])):
        return vlib.replay(ctx, SUB, path)
    r = report(ctx)
    if r is None:
        print("driver does not build")
        return 1
    rc = 0
    for op in rep.get("ops", []):
        kind, name = op.split()[0].split(".", 1)[1], op.split()[1]
        if kind == "method":  # c13.method <name>: skeleton <stmts>
            kind = "skeleton"
            still = [i for i in r.get(kind, "").split(",") if i.partition(":")[0] == name.rstrip(":")]
        else:
            still = [i for i in r.get(kind, "").split(",") if i == name]
        if still:
            print("REPRODUCED: %s still fails: %s" % (op, KINDS.get(kind)))
            rc = 1
    if rc == 0:
        print("replay passes: the recorded rows satisfy their obligations now")
    return rc
