"""C13 — the shipped API layer is a faithful translation of the shipped TL schema."""
import os
import re
import subprocess
import time

import vlib

SUB = "c13"
MODULES = ["Mtv.Props.C13"]
THEOREMS = [
    "Mtv.C13.ids_are_crc32",
    "Mtv.C13.ids_unique",
    "Mtv.C13.registry_matches_api",
    "Mtv.C13.registry_matches_service",
    "Mtv.C13.field_names_match",
    "Mtv.C13.struct_fields_are_layout",
    "Mtv.C13.tables_valid",
    "Mtv.C13.wrappers_match",
    "Mtv.C13.nothing_extra_partial",
    "Mtv.C13.methods_match",
]
RULE = ("programs = rows of the regenerated tables: every definition of schemes/api_latest.tl and schemes/mtproto.tl "
        "(translator validated by printing each back to its source line; id = CRC-32 of the canonical line; parameter "
        "names against the Go field names position by position), every "
        "registered constructor (reflection over the built tree: the codec's layout, and every field of the struct with "
        "its tag as written), every generated client method and hand-written wrapper (go/parser: request literal, call, "
        "assertion, and the statement skeleton of the body). Each row is compared by the Lean kernel (per-chunk decide +kernel obligations); the "
        "compiled driver names the rows for which an obligation fails. distinct = number of rows")

KINDS = {
    "crc": "the schema definition does not print back to its source line, or its id is not the CRC-32 of its canonical line",
    "api": "no registered type with this definition's id and layout (fields in order, type, flag bit, flags-word position)",
    "service": "no registered type with this service definition's id and layout",
    "names": "field of the registered type is not named after the schema parameter in its position (definition:parameter/GoField; "
             "names compared after dropping '_' and folding case, listed exceptions aside) - e.g. two parameters of one type "
             "declared in the wrong order: the codec assigns by position, so each field receives the other's value",
    "rows": "constructor missing from the join table of its type",
    "reg": "registered constructor missing from the join table of one of its interfaces / its enum type",
    "methods": "generated client method does not send its function's constructor with arguments in the schema's parameter positions / does not return the declared result kind",
    "wrappers": "hand-written wrapper does not carry the id and layout of its schema line",
    "skeleton": "the body of the client method is not 'send the request, return its answer' (generated: call; iferr; assert; "
                "ifnotok-panic; ret - hand-written wrapper: call; iferr; ret-assert): a statement in front of the request (a cached "
                "copy may answer instead of the server), between the answer and the return, a second request, a missing check",
    "extra-field": "the registered Go struct has a field the codec's layout (and so the schema definition) does not have "
                   "(constructor:GoField) - whatever its tag: the encoder skips a field tagged tl:\"-\", the decoder reads it "
                   "whenever flags bit 0 is set",
    "field-tag": "the struct tag of the field is not literally the text of its flag (tl:\"flag:N\" / "
                 "tl:\"flag:N,encoded_in_bitflags\" / none)",
    "extra": "registered type that no schema line defines",
}


def op_of(kind, item):
    """the failing input as it is written into the replay file"""
    if kind == "skeleton":  # item = Method:stmt;stmt;...
        name, _, sk = item.partition(":")
        return "c13.method %s: skeleton %s" % (name, sk)
    return "c13.%s %s" % (kind, item)


def regen(ctx):
    env = dict(os.environ)
    env["VERIF_REPO"] = ctx.repo
    with vlib.Lock("regdump"):
        p = subprocess.run([os.path.join(vlib.VERIF, "tools", "regen_schema.sh")], env=env,
                           stdout=subprocess.PIPE, stderr=subprocess.STDOUT, text=True, timeout=1800)
    ctx.obligation("regenerate Mtv/Gen/{SchemaApi,SchemaMt,Registry,Methods}.lean and the per-chunk obligations "
                   "Mtv/Gen/C13/*.lean from the working tree", p.returncode == 0, p.stdout[-1500:])
    return p.returncode == 0


def report(ctx):
    rc, out = ctx.lake(["drv-c13"])
    drv = vlib.driver_path("C13")
    if not os.path.exists(drv):
        return None
    p = subprocess.run([drv], input="c13.report\n", stdout=subprocess.PIPE, stderr=subprocess.PIPE, text=True, timeout=600)
    line = p.stdout.strip().splitlines()[-1] if p.stdout.strip() else ""
    rep = {}
    for tok in line.split():
        if "=" in tok:
            k, v = tok.split("=", 1)
            rep[k] = v
    return rep


def run(ctx):
    ctx.assumptions += [
        "the schema translator is validated inside Lean (render = source line); that the .tl file consists of these lines is trusted",
        "the registry extractor (reflection through the verif hook) and the go/parser fact extractor are trusted",
        "five registered types are defined only in comments of the shipped schema: listed known finding",
        "the end-to-end clause (each method called with distinguishable arguments against a scripted server) is not exercised by this check",
    ]
    regen_ok = regen(ctx)
    ok = regen_ok and ctx.lean_check(MODULES, THEOREMS)
    rep = report(ctx) if regen_ok else None
    nitems = 0
    if rep is not None:
        for k, why in KINDS.items():
            v = rep.get(k, "-")
            if v in ("-", ""):
                continue
            for name in v.split(","):
                nitems += 1
                ctx.report_failing_input({"op": op_of(k, name), "out": "obligation fails for this row", "why": why},
                                         "row of the regenerated tables named by the driver")
        if rep.get("counts") == "false":
            ctx.report_unexplained("join-table counts no longer check", rep)
        if rep.get("fieldtable") == "false" and not any(rep.get(k, "-") not in ("-", "") for k in ("extra-field", "field-tag")):
            ctx.report_unexplained("the table of all struct fields does not line up with the registry (rows, ids)", rep)
        if rep.get("nametable") == "false":
            ctx.report_unexplained("the field-name table is not the registry's (rows, ids, field counts or texts differ)", rep)
        if rep.get("dupids") == "true":
            ctx.report_unexplained("constructor ids are not unique / tables not sorted by id", rep)
        try:
            ctx.evaluations = int(rep.get("ndefs", 0)) + int(rep.get("nreg", 0)) + int(rep.get("nmethods", 0))
            ctx.distinct = ctx.evaluations
        except ValueError:
            pass
        ctx.samples = [{"row": "inputPeerUser#7b8e7de6 user_id:int access_hash:long = InputPeer  <->  telegram.InputPeerUser{UserID int32; AccessHash int64}"},
                       {"driver_report": {k: rep.get(k) for k in list(KINDS) + ["counts", "dupids", "nametable", "fieldtable", "ndefs", "nreg", "nmethods"]}}]
    concrete = [v for v in ctx.violations if not v.get("no_input")]
    if not ok and not concrete:
        broken = [o for o in ctx.obligations if not o[1]]
        for o in broken:
            ctx.report_unexplained("proof obligation no longer checks: " + o[0], o[2][:800])
    return ctx.finish(rule=RULE, extra_trusted=["tools/tl2lean.py (validated by render = raw), harness/cmd/c13facts (go/parser), harness/cmd/regdump (reflection)"])


def replay(ctx, path):
    import json
    rep = json.load(open(path))
    regen(ctx)
    r = report(ctx)
    if r is None:
        print("driver does not build")
        return 1
    rc = 0
    for op in rep.get("ops", []):
        kind, name = op.split()[0].split(".", 1)[1], op.split()[1]
        if kind == "method":  # c13.method <name>: skeleton <stmts>
            kind = "skeleton"
            still = [i for i in r.get(kind, "").split(",") if i.partition(":")[0] == name.rstrip(":")]
        else:
            still = [i for i in r.get(kind, "").split(",") if i == name]
        if still:
            print("REPRODUCED: %s still fails: %s" % (op, KINDS.get(kind)))
            rc = 1
    if rc == 0:
        print("replay passes: the recorded rows satisfy their obligations now")
    return rc
