"""C04 — forged or altered packets are refused, never accepted and never crash the client."""
import vlib

SUB = "c04"
MODULES = ["Mtv.Props.C04", "Mtv.Envelope.HeadIge"]
THEOREMS = [
    "Mtv.Envelope.openClient_no_panic",
    "Mtv.Envelope.route_no_panic",
    "Mtv.Envelope.openClientOrig_panics",
    "Mtv.Envelope.openClientOrig_accepts_negative_length",
    "Mtv.Envelope.openClient_sound",
    "Mtv.Envelope.accepted_is_a_sealing",
    "Mtv.Envelope.accepted_iff_sealing",
    "Mtv.Envelope.openClient_refuses_wrong_key",
    "Mtv.Envelope.openClient_refuses_short_or_unaligned",
    "Mtv.Envelope.unenc_refuses",
    "Mtv.Envelope.unenc_refuses_parity_and_length",
    "Mtv.Envelope.keyed_session_refuses_plain",
    "Mtv.Envelope.keyed_session_message_is_under_key",
    "Mtv.Envelope.clientRead_before_key",
    "Mtv.Envelope.clientRead_no_panic",
    "Mtv.Envelope.openClient_result_contract",
    "Mtv.Envelope.route_result_contract",
    "Mtv.Envelope.openClient_refuses_inconsistent_length",
    "Mtv.Envelope.IgeExec.decLoop_head2",
    "Mtv.Envelope.IgeExec.igeDec_head32",
]
RULE = ("fault enumeration on packets sealed by the harness's own MTProto 1.0 server (body lengths 0, 4, 20, 100; thorough: "
        "0, 1, 4, 15, 16, 20, 100, 1000): every single-bit flip of the 24-byte header and sampled (thorough: all) ciphertext "
        "bits, every truncation length 0..n-1, extensions, foreign / spliced / zero key ids, the client-direction sealing, "
        "wrong-parity msg_ids, block-aligned garbage under the right key id (0..6 blocks), every size 8..56 under the right key "
        "id, random bytes; and, holding the key, re-sealed packets with declared length in {-2^31, -2^31+1, -2^30, -65536, "
        "-33..-1 region, len-33..len+33, total-32, total-31, total, total+31..33, 65536, 2^30, 2^31-33..2^31-1} x msg_key span in "
        "{0, 32, 32+len, total, 32+declared}, and the honest plaintext under a msg_key differing in one bit (every byte). Each "
        "packet goes through the real DeserializeEncrypted, a share of them through transport.ReadMsg over loopback TCP; "
        "c04.session: ONE transport (one loopback connection) reading several packets while the session's auth key "
        "(GetAuthKey of the informator) changes between them - A then B (retired key's packets refused, new key's "
        "accepted), A,B,A, key emptied / unusable in between, first packet foreign / unencrypted / refused / keyless, "
        "random walks over three keys; each step judged as a routed packet under the key in force at that read; "
        "c04.client: ONE real client (mtproto.NewMTProto on a stored session = encrypted mode, CreateConnection, its own receive "
        "goroutine, MTProto.readMsg) reading several raw frames while SetAuthKey changes the key between them - valid sealings of "
        "update objects under the key in force (handed to the application's handler: the packet yielded a message), sealings under "
        "a retired / other / emptied key, well-formed PLAIN-TEXT frames (zero key id, server-parity msg_id, true length) carrying "
        "an update, damaged ones (client parity, wrong length, truncated, a sealing whose key id was zeroed), 4-byte codes, random "
        "walks; judged per step: a frame with zero key id yields no message while the client is in encrypted mode, a yielded "
        "message is what the specification's receiver recovers under the key in force, valid packets after refused ones are "
        "still delivered; "
        "c04.big (session 9, packets described by (length, seed), expanded by the same LCG on both sides): garbage under the "
        "right key id with body 2^e-16, 2^e, 2^e+16 for e = 10..24 (quick: the +-16 neighbours at e = 12, 16, 20, 23, 24; thorough: all, "
        "+-32 and a random aligned size), the same sizes not block aligned, packets of exactly 2^e bytes, body 2^24+2^20 (thorough: up "
        "to 3*2^24); VALID sealings of messages filling 2^10 .. 2^20+2^16 and 2^24+2^20 decrypted bytes (thorough: also 2^22, 2^23, "
        "2^24-16, 2^24, 2^24+16, 2^24+32, 2^25), which must open to what was sealed; key holder's inconsistent lengths on 2^16 and "
        "2^20 bytes; every one through DeserializeEncrypted, those from 2^23 on and a share of the others also through ReadMsg over "
        "loopback TCP; c04.cut: frames cut short by the end of the connection (ReadMsg's connection returns). Result contract on "
        "every operation: err == nil with a nil message (pointer, interface, typed nil) is the violation 'no error and no message'; "
        "HELD MESSAGES (session 9, c04hold.go): every message handed out by DeserializeEncrypted / DeserializeUnencrypted / "
        "ReadMsg in any operation of the run stays alive in the harness with a private copy of every field taken at hand-out "
        "time and is compared with it after EVERY later operation (and after every packet inside a session / sequence), at "
        "c04.heldcheck points after two forced collections and at the end of the run; collector off during the run "
        "(SetGCPercent(-1), restored), forced collections every 1500 operations; the caller's packet buffer is overwritten "
        "right after every deserialiser call; c04.hold: sequences in one line - genuine packet, one packet of each of 17 "
        "refusal classes / accepted kinds (bit flip, msg_key flip, block cut, garbage of 1 block / same / longer / shorter "
        "size, parity, bad length, bad msg_key, foreign key, unaligned, short, empty, bad plain text, code; valid, the same "
        "again, plain text), genuine packet - through the deserialiser (o/u), one transport (r), a second transport (s), "
        "other keys, random walks of 4..12 packets in the modes {one P, all Ps} x {collector off, on, forced after every "
        "packet}, and packets of 2^12..2^20 (thorough 2^24) bytes between small ones; a changed message is a violation "
        "whose replay is the operation that handed it out + those in between + the one after which it had changed; "
        "unencrypted packets: every truncation, declared length len-33..len+33 and extremes, wrong parity. Judge: never a panic; "
        "an accepted message must be what the independent specification receiver recovers from those bytes and have server "
        "parity; alterations must be errors; valid (re-)sealings must open to what was sealed. distinct = distinct operation "
        "lines; every line is also run through the Lean model and compared (outcome class incl. error kind and panic site)")


OPS_MARK = " ##OPS##"


def _sequence_replays(ctx):
    """A message that changed after it was handed out is reported in the result line of the operation after which the
    change was seen; the operations a replay needs (the one that handed the message out, those in between, this one)
    travel in the complaint behind OPS_MARK (harness/cmd/vh/c04hold.go). They become the replay's operation list."""
    import json
    inner = ctx.report_failing_input

    def report(v, source):
        why = v.get("why", "")
        if OPS_MARK in why:
            v = dict(v)
            why, _, ops = why.partition(OPS_MARK)
            v["why"] = why
            try:
                ops = json.loads(ops)
                if isinstance(ops, list) and ops and all(isinstance(o, str) for o in ops):
                    v["ops"] = ops
            except ValueError:
                pass
        return inner(v, source)

    ctx.report_failing_input = report


def run(ctx):
    _sequence_replays(ctx)
    ctx.assumptions += [
        "SHA-1 and AES-256-IGE are parameters of the theorems (hypotheses Prims.Ok); 'a forger without the key cannot produce an "
        "accepted packet' is cryptographic and NOT a theorem: the theorems show the acceptance set equals the image of the "
        "specification's sealing under the key",
        "Go's int is modelled as unbounded (64-bit platform; packet lengths below 2^63)",
        "the theorems describe DeserializeEncrypted after the D3 repair (fix: commit 095a0e6 in /repo); the model of the code "
        "as found (openClientOrig) is kept for the two D3 counterexample theorems",
        "clientRead models MTProto.readMsg after the repair pending_fixes/C04-plain-frame-in-encrypted-session.patch (an "
        "unencrypted message is refused when m.encrypted); until it is committed the check reports on /repo that plain-text frames "
        "yield messages in a keyed session. 'Yields a message' is observed at the application's handler for update bodies; the "
        "other message kinds (salts, results, notifications, containers) are observed by C16's plain-frame scenarios",
    ]
    return vlib.generic_check(ctx, SUB, MODULES + ["Mtv.Props.Arith"], THEOREMS + vlib.ARITH_THEOREMS["C04"], RULE, gen_hook=vlib.regen_arith,
                              extra_trusted=["the Go specification server of harness/cmd/vh/x_envelope.go (crypto/sha1, crypto/aes, own IGE loop)"])


def replay(ctx, path):
    return vlib.replay(ctx, SUB, path)
