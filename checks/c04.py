"""C04 — encrypted envelope layout and key schedule."""
import vlib

SUB = "c04"
MODULES = ["Mtv.Props.C04"]
THEOREMS = []
RULE = "tbd"


def run(ctx):
    return vlib.generic_check(ctx, SUB, MODULES, THEOREMS, RULE)


def replay(ctx, path):
    return vlib.replay(ctx, SUB, path)
