"""C16 — see DESIGN.md §7 (client machine) and docs/C16.md."""
import rpcflow

SUB = "c16"
MODULES = ["Mtv.Props.C16", "Mtv.Props.ClientImpl", "Mtv.Props.C16Life", "Mtv.Props.C16Frame"]
THEOREMS = [
    "Mtv.Client.recv_total",
    "Mtv.Client.loop_state_sane",
    "Mtv.Client.probe_completes",
    "Mtv.Client.service_traffic_silent",
    "Mtv.Client.odd_is_warned",
    "Mtv.Client.too_deep_is_warned",
    "Mtv.Client.plain_frame_is_ignored",
    "Mtv.Client.plain_frames_are_ignored",
    "Mtv.Client.body_decoding_total",
    # the goroutine-level model and its refinement of the machine above (Props/ClientImpl.lean)
    "Mtv.Impl.impl_refines_spec",
    "Mtv.Impl.impl_matches_source",
    "Mtv.Impl.impl_order_matches_source",
    "Mtv.Impl.recv_flatten",
    "Mtv.Impl.impl_refinement_needs_causal_server",
    "Mtv.Impl.impl_never_wedged",
    "Mtv.Impl.impl_progress",
    "Mtv.Impl.impl_wedge_needs_acausal_server",
    # the connection lifecycle around the machine (Mtv/Client/Lifecycle.lean, Props/C16Life.lean): last clause of C16
    "Mtv.Client.Life.reconnect_keeps_key",
    "Mtv.Client.Life.single_reader",
    "Mtv.Client.Life.reader_survives_connection_loss",
    "Mtv.Client.Life.overlapping_reconnect_can_strand_the_client",
    "Mtv.Client.Life.probe_after_redial",
    "Mtv.Client.Life.probe_completes_after_reconnect",
    "Mtv.Client.Life.failed_redial_gives_up",
    # transport-level frames that are no sealed message (Mtv/Client/TransportFrame.lean, Props/C16Frame.lean)
    "Mtv.Client.Frame.short_frame_is_junk",
    "Mtv.Client.Frame.four_bytes_is_a_code",
    "Mtv.Client.Frame.other_key_is_junk",
    "Mtv.Client.Frame.transport_frame_is_harmless",
    "Mtv.Client.Frame.transport_frame_needs_a_reader",
    "Mtv.Client.Frame.transport_frames_are_harmless",
    "Mtv.Client.Frame.runJ_erase",
    "Mtv.Client.Frame.transport_frames_keep_invariants",
]
RULE = ('hostile histories on the real client: pong, msgs_ack, update objects, unknown constructor, truncated body, empty container, bad_msg_notification (stray and for a pending request), rpc_result for unknown and already answered ids, new_session_created, containers of these, orderly connection close at random points; PLAIN-TEXT frames (auth_key_id 0, msg_id, length, body: the envelope of the key exchange, which needs no key to write) arriving on the keyed session (plan step ~<item>): new_session_created and bad_server_salt with salts of their own, rpc_result / rpc_error / bad_msg_notification naming a pending request (a value the server never sends, and the very value it will send), updates, service traffic, unknown and truncated bodies, containers of these, nested, gzip_packed, damaged ones (client-parity msg_id, wrong length), alone, between ordinary messages, with calls pending, straight after a reconnect, forty in a row - no caller may return what such a frame carried, its salt is neither stored nor used, no request is repeated because of it, the handler of the application (registered by the harness) is not shown its content and is shown every update of the server exactly once, nothing in it is acknowledged, one warning per frame, the pending calls get the answers of the server and the probe completes; writes of the client that fail (injected: an acknowledgement, a request of a caller; real: the server sends several content-related messages and drops the connection at once, the receive loop held so that no acknowledgement is out yet) followed by more traffic that needs acknowledging and by further requests; connections that end inside a frame (1..61 bytes of it delivered: inside the length prefix, at its end, inside the packet) or with a reset, the cut message repeated on the new connection; and, each in a process of its own started by the generator so that they run concurrently with everything else, a connection older than the one-minute keepalive period of the library (the keepalive ping answered by a bare pong, then an orderly close / a Reconnect of the application) and a server that stays silent beyond the 65 s read timeout - after each the client must be back on a connection made with the same key and the probe must complete; frames of the transport level that are no sealed message (plan step !…, event J: the four-byte error code -404 / -429 / -444 / 404 / 0 / -1 / int32 extremes and random values; frames of 0..3 and 5..7 bytes; frames of 8..23 bytes under the auth_key_id of the session, under another one, under 0) alone, forty in a row, with a request in flight, with the probe in flight, straight after a close / Reconnect, mixed with ordinary messages - one warning each, no connection replaced that nobody ended, the request in flight gets the answer of the server, the probe completes; well-formed notifications whose enumerated field is outside the list of the specification (bad_msg_notification with every error_code 0..255, negative and large codes, for unknown ids, for a pending request, for one of the acknowledgements the client wrote; bad_server_salt with other codes than 48); a probe that has encoded its request and waits for the write lock (a slow write in progress, produced through the write hook) while the receive loop acknowledges content-related messages, with GOMAXPROCS 1 and unchanged (the peer checks every request and msgs_ack byte for byte); every service message a server may send that is a request to the client or an informational message (msgs_state_req, msg_resend_req, msg_resend_ans_req, msgs_state_info, msgs_all_info, msg_detailed_info, msg_new_detailed_info, future_salts, destroy_session_ok/none, rpc_answer_unknown/dropped_running/dropped, ping), well-formed, with empty and non-empty id lists, alone, with a request pending, in a container, gzip_packed (plan item z(<item>)), as content-related and as not content-related message; service messages whose 32-bit count / length fields carry values a decoder may read as signed (container count, byte length of a container member, vector counts of msgs_ack, msgs_state_req, msg_resend_req, msgs_all_info, future_salts at 2^31-1, 2^31, 2^32-1, their neighbours and random values, with nothing, one and two elements behind them; alone, in containers, gzip_packed, nested); server msg_ids anywhere in the unsigned 64-bit range — each followed by a probe request of a fresh caller that must return its own result; the process must survive (a panic in the receive goroutine kills the harness process and is attributed to the scenario), no unencrypted frame may appear after a reconnect. distinct = distinct scenarios')


def run(ctx):
    ctx.assumptions += ["the Go runtime's scheduling during a run decides the interleaving actually exercised (sampled, not enumerated)", 'warnings are drained by the harness (a full user warning channel would block the receive loop: environment assumption)', 'a request issued while the client is still re-establishing the connection fails with a write error (a race outside the model); probes start after the reconnect']
    return rpcflow.run(ctx, SUB, MODULES, THEOREMS, RULE, gen_hook=rpcflow.regen_skeleton)


def replay(ctx, path):
    return rpcflow.replay(ctx, SUB, path)
