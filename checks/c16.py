"""C16 — see DESIGN.md §7 and docs/CLIENT_MACHINE.md."""
import rpcflow

SUB = "c16"
MODULES = ["Mtv.Props.C16"]
THEOREMS = [
    "Mtv.Client.recv_total",
    "Mtv.Client.loop_state_sane",
    "Mtv.Client.probe_completes",
    "Mtv.Client.service_traffic_silent",
    "Mtv.Client.odd_is_warned",
    "Mtv.Client.too_deep_is_warned",
    "Mtv.Client.body_decoding_total",
]
RULE = ('hostile histories on the real client: pong, msgs_ack, update objects, unknown constructor, truncated body, empty container, bad_msg_notification (stray and for a pending request), rpc_result for unknown and already answered ids, new_session_created, containers of these, orderly connection close at random points; well-formed notifications whose enumerated field is outside the list of the specification (bad_msg_notification with every error_code 0..255, negative and large codes, for unknown ids, for a pending request, for one of the acknowledgements the client wrote; bad_server_salt with other codes than 48); a probe that has encoded its request and waits for the write lock (a slow write in progress, produced through the write hook) while the receive loop acknowledges content-related messages, with GOMAXPROCS 1 and unchanged (the peer checks every request and msgs_ack byte for byte) — each followed by a probe request of a fresh caller that must return its own result; the process must survive (a panic in the receive goroutine kills the harness process and is attributed to the scenario), no unencrypted frame may appear after a reconnect. distinct = distinct scenarios')


def run(ctx):
    ctx.assumptions += ["the Go runtime's scheduling during a run decides the interleaving actually exercised (sampled, not enumerated)", 'warnings are drained by the harness (a full user warning channel would block the receive loop: environment assumption)', 'a request issued while the client is still re-establishing the connection fails with a write error (a race outside the model); probes start after the reconnect']
    return rpcflow.run(ctx, SUB, MODULES, THEOREMS, RULE)


def replay(ctx, path):
    return rpcflow.replay(ctx, SUB, path)
