// c19graph — translator for property C19: regenerates the Lean model data `Mtv/Gen/CallGraph.lean`
// (the call graph of the repository as far as it matters for where key-agreement secrets come from)
// from the current working tree of the repository.
//
//	c19graph -repo /repo -out /verif/lean/Mtv/Gen/CallGraph.lean -json /verif/.build/c19graph.json
//
// What it emits (see docs/C19.md):
//
//   - nodes: every function of the repository and of its third-party dependencies ("walked") that is
//     reachable from a root, every standard-library function called or referenced by a walked node
//     ("leaf", never expanded), and a few virtual nodes (one per key-agreement secret, one per
//     suspicious crypto/rand use);
//   - edges of a walked node: every callee the VTA call graph gives for a call site of the function,
//     every function it references as a value (closures, method values, function arguments), and the
//     methods of every concrete walked type it converts to an interface;
//   - classes of leaves: cryptoRand, mathRand, seeders, clock, suspect;
//   - entries, generators (by anchor name and by def-use from the secret-carrying fields), secrets
//     (virtual nodes whose out-edges are the calls in the backward slice of a secret-carrying field),
//     witness paths entry → generator, a witness path entry → seeder.
//
// Everything is sorted; the output file is rewritten only when its content changes.
package main

import (
	"bytes"
	"encoding/json"
	"flag"
	"fmt"
	"go/token"
	"go/types"
	"os"
	"path/filepath"
	"sort"
	"strings"

	"golang.org/x/tools/go/callgraph"
	"golang.org/x/tools/go/callgraph/cha"
	"golang.org/x/tools/go/callgraph/vta"
	"golang.org/x/tools/go/packages"
	"golang.org/x/tools/go/ssa"
	"golang.org/x/tools/go/ssa/ssautil"
)

const repoPath = "github.com/xelaj/mtproto"

// ---- anchors -------------------------------------------------------------------------------------

var entryNames = []string{
	"(*" + repoPath + ".MTProto).CreateConnection",
	repoPath + ".NewMTProto",
	repoPath + "/telegram.GetInputCheckPassword",
	repoPath + "/telegram.NewClient",
}

// entries that must exist (NewClient is optional: only if it is there)
var requiredEntries = entryNames[:3]

var namedGenerators = []string{
	repoPath + "/internal/encoding/tl.RandomInt128",
	repoPath + "/internal/encoding/tl.RandomInt256",
	repoPath + "/internal/math.MakeGAB",
	repoPath + "/telegram/internal/srp.GetInputCheckPassword",
}

// secret-carrying fields: a store to one of these fields, in a function reachable from an entry, is a
// sink; what flows into it is a key-agreement secret (or is computed from one: g_b from b, A from a).
type sinkSpec struct {
	secret, pkg, typ, field string
}

var sinkSpecs = []sinkSpec{
	{"nonce", repoPath + "/internal/mtproto/objects", "*", "Nonce"},
	{"new_nonce", repoPath + "/internal/mtproto/objects", "*", "NewNonce"},
	{"dh_b", repoPath + "/internal/mtproto/objects", "ClientDHInnerData", "GB"},
	{"srp_a", repoPath + "/telegram", "InputCheckPasswordSRPObj", "A"},
}

var secretOrder = []string{"nonce", "new_nonce", "dh_b", "srp_a"}

// ---- classification of standard-library leaves ---------------------------------------------------

type class int

const (
	clNone class = iota
	clCrypto
	clMath
	clSeeder // also mathRand
	clClock
)

func classify(pkgPath, name string) class {
	switch pkgPath {
	case "crypto/rand":
		return clCrypto
	case "math/rand", "math/rand/v2":
		if name == "math/rand.Seed" || strings.HasSuffix(name, ").Seed") {
			return clSeeder // math/rand.Seed, (*rand.Rand).Seed, (*rand/v2.PCG).Seed, (*rand/v2.ChaCha8).Seed
		}
		return clMath
	case "math/big":
		if name == "(*math/big.Int).Rand" {
			return clMath
		}
	case "time":
		switch name {
		case "time.Now", "time.Since", "time.Until":
			return clClock
		}
	case "os":
		if name == "os.Getpid" || name == "os.Getppid" {
			return clClock
		}
	}
	return clNone
}

// ---- the extractor -------------------------------------------------------------------------------

type extractor struct {
	prog   *ssa.Program
	cg     *callgraph.Graph
	stdPkg map[string]bool // package path -> is standard library

	ids    map[string]int // node name -> id
	names  []string
	kind   []string // walked | leaf | virtual
	adj    []map[int]bool
	fnOf   map[*ssa.Function]int
	walked map[*ssa.Function]bool // expanded already

	suspectIDs  map[int]bool
	notes       []string
	readerStore map[string]bool
}

func fatal(format string, a ...interface{}) {
	fmt.Fprintf(os.Stderr, "c19graph: "+format+"\n", a...)
	os.Exit(2)
}

func pkgOfFn(fn *ssa.Function) *types.Package {
	for fn != nil {
		if fn.Pkg != nil {
			return fn.Pkg.Pkg
		}
		if p := fn.Parent(); p != nil {
			fn = p
			continue
		}
		if o := fn.Origin(); o != nil && o != fn {
			fn = o
			continue
		}
		if obj := fn.Object(); obj != nil && obj.Pkg() != nil {
			return obj.Pkg()
		}
		// wrappers / bound methods / thunks of a method: take the receiver's package
		if fn.Signature != nil && fn.Signature.Recv() != nil {
			t := fn.Signature.Recv().Type()
			if p, ok := t.(*types.Pointer); ok {
				t = p.Elem()
			}
			if n, ok := t.(*types.Named); ok && n.Obj().Pkg() != nil {
				return n.Obj().Pkg()
			}
		}
		return nil
	}
	return nil
}

func firstElemHasDot(path string) bool {
	i := strings.Index(path, "/")
	if i < 0 {
		i = len(path)
	}
	return strings.Contains(path[:i], ".")
}

// isStd: a function of the standard library (a leaf). Synthetic functions without any package (rare)
// are treated as walked, which is the conservative choice.
func (x *extractor) isStd(fn *ssa.Function) bool {
	p := pkgOfFn(fn)
	if p == nil {
		return false
	}
	if v, ok := x.stdPkg[p.Path()]; ok {
		return v
	}
	return !firstElemHasDot(p.Path())
}

func (x *extractor) node(name, kind string) int {
	if id, ok := x.ids[name]; ok {
		return id
	}
	id := len(x.names)
	x.ids[name] = id
	x.names = append(x.names, name)
	x.kind = append(x.kind, kind)
	x.adj = append(x.adj, map[int]bool{})
	return id
}

func (x *extractor) fnNode(fn *ssa.Function) int {
	if id, ok := x.fnOf[fn]; ok {
		return id
	}
	name := fn.String()
	kind := "walked"
	if x.isStd(fn) {
		kind = "leaf"
	}
	if _, dup := x.ids[name]; dup {
		// two distinct functions printing alike (instantiations, wrappers): keep them apart
		for i := 2; ; i++ {
			n2 := fmt.Sprintf("%s#%d", name, i)
			if _, d := x.ids[n2]; !d {
				name = n2
				break
			}
		}
	}
	id := x.node(name, kind)
	x.fnOf[fn] = id
	return id
}

// isCryptoReaderLoad: v is `*crypto/rand.Reader` (a load of the package variable).
func isCryptoReaderLoad(v ssa.Value) bool {
	u, ok := v.(*ssa.UnOp)
	if !ok || u.Op != token.MUL {
		return false
	}
	g, ok := u.X.(*ssa.Global)
	return ok && g.Pkg != nil && g.Pkg.Pkg.Path() == "crypto/rand" && g.Name() == "Reader"
}

func isIOReader(t types.Type) bool {
	n, ok := t.(*types.Named)
	return ok && n.Obj().Pkg() != nil && n.Obj().Pkg().Path() == "io" && n.Obj().Name() == "Reader"
}

// calleesAt: the callees of one call site according to the VTA graph (static callee when there is one).
func (x *extractor) calleesAt(site ssa.CallInstruction) []*ssa.Function {
	if f := site.Common().StaticCallee(); f != nil {
		return []*ssa.Function{f}
	}
	var out []*ssa.Function
	n := x.cg.Nodes[site.Parent()]
	if n == nil {
		return nil
	}
	for _, e := range n.Out {
		if e.Site == site && e.Callee != nil && e.Callee.Func != nil {
			out = append(out, e.Callee.Func)
		}
	}
	sort.Slice(out, func(i, j int) bool { return out[i].String() < out[j].String() })
	return out
}

// targetFor: the node a call edge from a walked function points to. A call of a crypto/rand function
// that takes an io.Reader with anything but crypto/rand.Reader itself goes to a virtual `suspect`
// leaf instead of the cryptoRand leaf.
func (x *extractor) targetFor(site ssa.CallInstruction, callee *ssa.Function) int {
	if site != nil && x.isStd(callee) {
		if p := pkgOfFn(callee); p != nil && p.Path() == "crypto/rand" {
			sig := callee.Signature
			args := site.Common().Args
			off := 0
			if site.Common().IsInvoke() {
				off = 0
			} else if sig.Recv() != nil {
				off = 1
			}
			for i := 0; i < sig.Params().Len(); i++ {
				if isIOReader(sig.Params().At(i).Type()) && i+off < len(args) && !isCryptoReaderLoad(args[i+off]) {
					id := x.node(callee.String()+"[reader is not crypto/rand.Reader]", "virtual")
					x.suspectIDs[id] = true
					return id
				}
			}
		}
	}
	return x.fnNode(callee)
}

// expand emits the out-edges of a walked function.
func (x *extractor) expand(fn *ssa.Function) []*ssa.Function {
	id := x.fnNode(fn)
	var next []*ssa.Function
	add := func(site ssa.CallInstruction, callee *ssa.Function) {
		t := x.targetFor(site, callee)
		x.adj[id][t] = true
		next = append(next, callee)
	}
	// call edges
	if n := x.cg.Nodes[fn]; n != nil {
		for _, e := range n.Out {
			if e.Callee != nil && e.Callee.Func != nil {
				add(e.Site, e.Callee.Func)
			}
		}
	}
	for _, b := range fn.Blocks {
		for _, ins := range b.Instrs {
			// static callees even if the call-graph construction dropped the edge
			if c, ok := ins.(ssa.CallInstruction); ok {
				if f := c.Common().StaticCallee(); f != nil {
					add(c, f)
				}
			}
			// functions referenced as values
			for _, op := range ins.Operands(nil) {
				if op == nil || *op == nil {
					continue
				}
				switch v := (*op).(type) {
				case *ssa.Function:
					if c, ok := ins.(ssa.CallInstruction); ok && c.Common().Value == v {
						continue // the callee operand of a static call
					}
					add(nil, v)
				case *ssa.MakeClosure:
					if f, ok := v.Fn.(*ssa.Function); ok {
						add(nil, f)
					}
				}
			}
			// conversions of a concrete walked type to an interface: whoever gets the interface value
			// (the standard library included) may call its methods
			if mi, ok := ins.(*ssa.MakeInterface); ok {
				t := mi.X.Type()
				mset := x.prog.MethodSets.MethodSet(t)
				for i := 0; i < mset.Len(); i++ {
					if m := x.prog.MethodValue(mset.At(i)); m != nil && !x.isStd(m) {
						add(nil, m)
					}
				}
			}
			// anonymous functions are reached through MakeClosure (above)
		}
	}
	return next
}

func (x *extractor) walk(roots []*ssa.Function) {
	work := append([]*ssa.Function{}, roots...)
	for len(work) > 0 {
		fn := work[0]
		work = work[1:]
		if x.walked[fn] {
			continue
		}
		x.walked[fn] = true
		x.fnNode(fn)
		if x.isStd(fn) {
			continue // leaf
		}
		work = append(work, x.expand(fn)...)
	}
}

// ---- def-use: what flows into the secret-carrying fields -------------------------------------------

type slicer struct {
	x        *extractor
	reach    map[*ssa.Function]bool // functions reachable from the entries (walked)
	seen     map[ssa.Value]bool
	seenPar  map[*ssa.Parameter]bool
	callees  map[*ssa.Function]ssa.CallInstruction // every callee met in the slice (with one site)
	gens     map[*ssa.Function]bool                // walked callees: the slice stops there
	inlineIn map[*ssa.Function]bool                // functions in which the slice ran
	// use: the instruction of the current function at which the value under consideration is consumed
	// on its way to the sink (the sink store itself, or the call that passes it on). A call that merely
	// receives a local object *after* that point cannot have filled it.
	use ssa.Instruction
}

// mayPrecede: instruction a can execute before instruction b (same function): same block and earlier,
// or b's block is reachable from a's block in the control-flow graph.
func mayPrecede(a, b ssa.Instruction) bool {
	if a == nil || b == nil || a.Parent() != b.Parent() {
		return true
	}
	ba, bb := a.Block(), b.Block()
	idx := func(i ssa.Instruction) int {
		for n, x := range i.Block().Instrs {
			if x == i {
				return n
			}
		}
		return -1
	}
	seen := map[*ssa.BasicBlock]bool{}
	var reach func(x *ssa.BasicBlock) bool
	reach = func(x *ssa.BasicBlock) bool {
		for _, sc := range x.Succs {
			if sc == bb {
				return true
			}
			if !seen[sc] {
				seen[sc] = true
				if reach(sc) {
					return true
				}
			}
		}
		return false
	}
	if ba == bb {
		if idx(a) < idx(b) {
			return true
		}
		return reach(ba) // around a loop
	}
	return reach(ba)
}

func (s *slicer) call(c ssa.CallInstruction, viaResult bool) {
	fs := s.x.calleesAt(c)
	allStd := true
	for _, f := range fs {
		if _, ok := s.callees[f]; !ok {
			s.callees[f] = c
		}
		if !s.x.isStd(f) {
			allStd = false
			s.gens[f] = true
		}
	}
	if !allStd {
		return // a walked callee produces (or fills) the value: it is a generator; stop here
	}
	// standard-library call (or builtin): a conversion / copy / filler; the value depends on its arguments
	cc := c.Common()
	if cc.IsInvoke() {
		s.val(cc.Value)
	} else if _, isBuiltin := cc.Value.(*ssa.Builtin); !isBuiltin {
		if _, isFn := cc.Value.(*ssa.Function); !isFn {
			s.val(cc.Value) // dynamic call through a function value
		}
	}
	for _, a := range cc.Args {
		s.val(a)
	}
}

// memory: v is (an alias of) a local object; everything written into it matters.
func (s *slicer) object(v ssa.Value) {
	refs := v.Referrers()
	if refs == nil {
		return
	}
	for _, r := range *refs {
		switch ins := r.(type) {
		case *ssa.Store:
			if ins.Addr == v {
				s.val(ins.Val)
			}
		case *ssa.FieldAddr:
			if ins.X == v {
				s.val(ins)
			}
		case *ssa.IndexAddr:
			if ins.X == v {
				s.val(ins)
			}
		case *ssa.Slice:
			if ins.X == v {
				s.val(ins)
			}
		case ssa.CallInstruction:
			// passed to a call: the callee may fill it — if it runs before the value is consumed
			if vv, ok := ins.(ssa.Value); ok && vv == v {
				continue
			}
			if ins == s.use || !mayPrecede(ins, s.use) {
				continue
			}
			s.call(ins, false)
		case *ssa.MapUpdate:
			if ins.Map == v {
				s.val(ins.Key)
				s.val(ins.Value)
			}
		}
	}
}

func (s *slicer) val(v ssa.Value) {
	if v == nil || s.seen[v] {
		return
	}
	s.seen[v] = true
	if ins, ok := v.(ssa.Instruction); ok && ins.Parent() != nil {
		s.inlineIn[ins.Parent()] = true
	}
	switch t := v.(type) {
	case *ssa.Const, *ssa.Global, *ssa.Builtin, *ssa.FreeVar:
		return
	case *ssa.Function:
		s.callees[t] = nil
		if !s.x.isStd(t) {
			s.gens[t] = true
		}
	case *ssa.MakeClosure:
		if f, ok := t.Fn.(*ssa.Function); ok {
			s.callees[f] = nil
			s.gens[f] = true
		}
	case *ssa.Parameter:
		s.param(t)
	case *ssa.Call:
		s.call(t, true)
	case *ssa.Alloc, *ssa.MakeSlice, *ssa.MakeMap:
		s.object(v)
	case *ssa.FieldAddr:
		s.object(v)
		s.val(t.X)
	case *ssa.IndexAddr:
		s.object(v)
		s.val(t.X)
		s.val(t.Index)
	case *ssa.Slice:
		s.object(v)
		s.val(t.X)
	default:
		if ins, ok := v.(ssa.Instruction); ok {
			for _, op := range ins.Operands(nil) {
				if op != nil && *op != nil {
					s.val(*op)
				}
			}
		}
	}
}

// param: follow a parameter to the arguments at the call sites in functions reachable from the entries.
func (s *slicer) param(p *ssa.Parameter) {
	if s.seenPar[p] {
		return
	}
	s.seenPar[p] = true
	fn := p.Parent()
	idx := -1
	for i, q := range fn.Params {
		if q == p {
			idx = i
		}
	}
	n := s.x.cg.Nodes[fn]
	if n == nil || idx < 0 {
		return
	}
	for _, e := range n.In {
		if e.Caller == nil || !s.reach[e.Caller.Func] || e.Site == nil {
			continue
		}
		cc := e.Site.Common()
		var args []ssa.Value
		if cc.IsInvoke() {
			args = append([]ssa.Value{cc.Value}, cc.Args...)
		} else {
			args = cc.Args
		}
		if len(args) != len(fn.Params) {
			continue
		}
		saved := s.use
		s.use = e.Site
		s.val(args[idx])
		s.use = saved
	}
}

func matchSink(fa *ssa.FieldAddr) (string, bool) {
	pt, ok := fa.X.Type().Underlying().(*types.Pointer)
	if !ok {
		return "", false
	}
	named, ok := pt.Elem().(*types.Named)
	if !ok || named.Obj().Pkg() == nil {
		return "", false
	}
	st, ok := named.Underlying().(*types.Struct)
	if !ok {
		return "", false
	}
	fname := st.Field(fa.Field).Name()
	for _, sp := range sinkSpecs {
		if sp.pkg == named.Obj().Pkg().Path() && sp.field == fname && (sp.typ == "*" || sp.typ == named.Obj().Name()) {
			return sp.secret, true
		}
	}
	return "", false
}

// ---- main ----------------------------------------------------------------------------------------

type genInfo struct {
	Name       string   `json:"name"`
	Node       int      `json:"node"`
	Origin     []string `json:"origin"` // "anchor", "def-use:<secret>", "secret"
	MathRand   []string `json:"math_rand_path,omitempty"`
	Clock      []string `json:"clock_path,omitempty"`
	Suspect    []string `json:"suspect_path,omitempty"`
	CryptoRand []string `json:"crypto_rand_path,omitempty"`
	OK         bool     `json:"ok"`
	FullMathV1 []string `json:"full_closure_math_rand_v1,omitempty"`
}

type summary struct {
	Repo        string              `json:"repo"`
	OK          bool                `json:"ok"`
	Error       string              `json:"error,omitempty"`
	Nodes       int                 `json:"nodes"`
	Walked      int                 `json:"walked"`
	Leaves      int                 `json:"leaves"`
	Edges       int                 `json:"edges"`
	CGEdges     int                 `json:"vta_edges_whole_program"`
	Entries     []string            `json:"entries"`
	Generators  []genInfo           `json:"generators"`
	SinkSites   map[string][]string `json:"sink_sites"`
	SeedPath    []string            `json:"seed_path"`
	ReaderStore []string            `json:"crypto_reader_stores"`
	Notes       []string            `json:"notes"`
}

func main() {
	repo := flag.String("repo", "/repo", "working tree of the repository")
	out := flag.String("out", "", "Lean file to (re)write")
	jsonOut := flag.String("json", "", "summary file (diagnosis for the evidence; not part of the proof)")
	tags := flag.String("tags", "verif", "build tags")
	flag.Parse()
	if *out == "" {
		fatal("-out required")
	}
	sum := summary{Repo: *repo, SinkSites: map[string][]string{}}
	fail := func(format string, a ...interface{}) {
		sum.Error = fmt.Sprintf(format, a...)
		fmt.Fprintln(os.Stderr, "c19graph:", sum.Error)
		writeIfChanged(*out, failStub(sum.Error))
		writeJSON(*jsonOut, &sum)
		os.Exit(1)
	}

	env := append(os.Environ(), "GOFLAGS=-mod=mod", "GOPROXY=off", "GOSUMDB=off", "GOTOOLCHAIN=local", "CGO_ENABLED=0")
	cfg := &packages.Config{
		Mode:       packages.LoadAllSyntax | packages.NeedModule,
		Dir:        *repo,
		Env:        env,
		BuildFlags: []string{"-tags=" + *tags},
	}
	pkgs, err := packages.Load(cfg, "./...")
	if err != nil {
		fail("loading packages: %v", err)
	}
	var loadErrs []string
	stdPkg := map[string]bool{}
	packages.Visit(pkgs, nil, func(p *packages.Package) {
		for _, e := range p.Errors {
			loadErrs = append(loadErrs, e.Error())
		}
		stdPkg[p.PkgPath] = p.Module == nil && !firstElemHasDot(p.PkgPath)
	})
	if len(loadErrs) > 0 {
		sort.Strings(loadErrs)
		fail("the working tree does not type-check: %s", strings.Join(loadErrs[:min(3, len(loadErrs))], "; "))
	}

	prog, _ := ssautil.AllPackages(pkgs, ssa.InstantiateGenerics)
	prog.Build()
	all := ssautil.AllFunctions(prog)
	cg := vta.CallGraph(all, cha.CallGraph(prog))
	for _, n := range cg.Nodes {
		sum.CGEdges += len(n.Out)
	}

	x := &extractor{prog: prog, cg: cg, stdPkg: stdPkg, ids: map[string]int{}, fnOf: map[*ssa.Function]int{},
		walked: map[*ssa.Function]bool{}, suspectIDs: map[int]bool{}, readerStore: map[string]bool{}}

	byName := map[string]*ssa.Function{}
	var allSorted []*ssa.Function
	for fn := range all {
		allSorted = append(allSorted, fn)
	}
	sort.Slice(allSorted, func(i, j int) bool { return allSorted[i].String() < allSorted[j].String() })
	for _, fn := range allSorted {
		if _, ok := byName[fn.String()]; !ok {
			byName[fn.String()] = fn
		}
	}

	// entries
	var entryFns []*ssa.Function
	for _, n := range entryNames {
		fn := byName[n]
		if fn == nil {
			req := false
			for _, r := range requiredEntries {
				req = req || r == n
			}
			if req {
				fail("entry point %s not found in the working tree", n)
			}
			continue
		}
		entryFns = append(entryFns, fn)
	}

	// phase 1: walk from the entries; def-use needs the set of functions reachable from them
	x.walk(entryFns)
	reach := map[*ssa.Function]bool{}
	for fn := range x.walked {
		if !x.isStd(fn) {
			reach[fn] = true
		}
	}

	// phase 2: sinks and their backward slices
	type secretSlice struct {
		callees map[*ssa.Function]ssa.CallInstruction
		gens    map[*ssa.Function]bool
		sites   map[string]bool
	}
	slices := map[string]*secretSlice{}
	var reachSorted []*ssa.Function
	for fn := range reach {
		reachSorted = append(reachSorted, fn)
	}
	sort.Slice(reachSorted, func(i, j int) bool { return reachSorted[i].String() < reachSorted[j].String() })
	for _, fn := range reachSorted {
		for _, b := range fn.Blocks {
			for _, ins := range b.Instrs {
				st, ok := ins.(*ssa.Store)
				if !ok {
					continue
				}
				fa, ok := st.Addr.(*ssa.FieldAddr)
				if !ok {
					continue
				}
				secret, ok := matchSink(fa)
				if !ok {
					continue
				}
				ss := slices[secret]
				if ss == nil {
					ss = &secretSlice{callees: map[*ssa.Function]ssa.CallInstruction{}, gens: map[*ssa.Function]bool{}, sites: map[string]bool{}}
					slices[secret] = ss
				}
				ss.sites[fn.String()] = true
				sl := &slicer{x: x, reach: reach, seen: map[ssa.Value]bool{}, seenPar: map[*ssa.Parameter]bool{},
					callees: ss.callees, gens: ss.gens, inlineIn: map[*ssa.Function]bool{}, use: st}
				sl.val(st.Val)
			}
		}
	}
	for _, sec := range secretOrder {
		if slices[sec] == nil {
			fail("no store to a %s-carrying field found in any function reachable from the entry points "+
				"(the anchors of the extractor no longer match the code)", sec)
		}
	}

	// generators: anchors that exist + def-use callees
	origin := map[*ssa.Function][]string{}
	for _, n := range namedGenerators {
		if fn := byName[n]; fn != nil {
			origin[fn] = append(origin[fn], "anchor")
		} else {
			x.notes = append(x.notes, "anchor generator not present in the tree: "+n)
		}
	}
	for _, sec := range secretOrder {
		var gs []*ssa.Function
		for fn := range slices[sec].gens {
			gs = append(gs, fn)
		}
		sort.Slice(gs, func(i, j int) bool { return gs[i].String() < gs[j].String() })
		for _, fn := range gs {
			origin[fn] = append(origin[fn], "def-use:"+sec)
		}
	}
	var genFns []*ssa.Function
	for fn := range origin {
		genFns = append(genFns, fn)
	}
	sort.Slice(genFns, func(i, j int) bool { return genFns[i].String() < genFns[j].String() })
	x.walk(genFns)

	// virtual secret nodes: out-edges = every callee in the slice
	var secretIDs []int
	for _, sec := range secretOrder {
		id := x.node("secret:"+sec, "virtual")
		secretIDs = append(secretIDs, id)
		var cs []*ssa.Function
		for fn := range slices[sec].callees {
			cs = append(cs, fn)
		}
		sort.Slice(cs, func(i, j int) bool { return cs[i].String() < cs[j].String() })
		for _, fn := range cs {
			x.adj[id][x.targetFor(slices[sec].callees[fn], fn)] = true
		}
		x.walk(cs)
		var sites []string
		for s := range slices[sec].sites {
			sites = append(sites, s)
		}
		sort.Strings(sites)
		sum.SinkSites[sec] = sites
	}

	// stores to crypto/rand.Reader anywhere in walked code of the whole program
	for _, fn := range allSorted {
		if x.isStd(fn) {
			continue
		}
		for _, b := range fn.Blocks {
			for _, ins := range b.Instrs {
				if st, ok := ins.(*ssa.Store); ok {
					if g, ok := st.Addr.(*ssa.Global); ok && g.Pkg != nil && g.Pkg.Pkg.Path() == "crypto/rand" {
						x.readerStore[fn.String()] = true
					}
				}
			}
		}
	}
	var readerStoreIDs []int
	var rs []string
	for n := range x.readerStore {
		rs = append(rs, n)
	}
	sort.Strings(rs)
	for _, n := range rs {
		x.walk([]*ssa.Function{byName[n]})
		readerStoreIDs = append(readerStoreIDs, x.fnOf[byName[n]])
	}
	sum.ReaderStore = rs

	// ---- renumber deterministically: sort by name ----
	order := make([]int, len(x.names))
	for i := range order {
		order[i] = i
	}
	sort.Slice(order, func(i, j int) bool { return x.names[order[i]] < x.names[order[j]] })
	newID := make([]int, len(order))
	for n, o := range order {
		newID[o] = n
	}
	N := len(order)
	names := make([]string, N)
	kinds := make([]string, N)
	adj := make([][]int, N)
	for o, n := range newID {
		names[n] = x.names[o]
		kinds[n] = x.kind[o]
		for t := range x.adj[o] {
			adj[n] = append(adj[n], newID[t])
		}
		sort.Ints(adj[n])
	}
	remap := func(xs []int) []int {
		out := make([]int, 0, len(xs))
		for _, v := range xs {
			out = append(out, newID[v])
		}
		return out
	}
	var cryptoL, mathL, seedL, clockL, suspectL []int
	for n := 0; n < N; n++ {
		if kinds[n] == "leaf" {
			pp := ""
			for fn, id := range x.fnOf {
				if newID[id] == n {
					if p := pkgOfFn(fn); p != nil {
						pp = p.Path()
					}
					break
				}
			}
			base := names[n]
			if i := strings.Index(base, "#"); i >= 0 {
				base = base[:i]
			}
			switch classify(pp, base) {
			case clCrypto:
				cryptoL = append(cryptoL, n)
			case clMath:
				mathL = append(mathL, n)
			case clSeeder:
				mathL = append(mathL, n)
				seedL = append(seedL, n)
			case clClock:
				clockL = append(clockL, n)
			}
		}
	}
	for id := range x.suspectIDs {
		suspectL = append(suspectL, newID[id])
	}
	sort.Ints(suspectL)
	var entryIDs, genIDs []int
	for _, fn := range entryFns {
		entryIDs = append(entryIDs, newID[x.fnOf[fn]])
		sum.Entries = append(sum.Entries, fn.String())
	}
	for _, fn := range genFns {
		genIDs = append(genIDs, newID[x.fnOf[fn]])
	}
	sort.Ints(genIDs)
	secretIDs = remap(secretIDs)
	readerStoreIDs = remap(readerStoreIDs)

	// ---- diagnosis (plain BFS over the emitted graph; the Lean theorems are the authority) ----
	inSet := func(xs []int) map[int]bool {
		m := map[int]bool{}
		for _, v := range xs {
			m[v] = true
		}
		return m
	}
	bfsPath := func(from int, target map[int]bool) []int {
		prev := map[int]int{from: -1}
		q := []int{from}
		for len(q) > 0 {
			u := q[0]
			q = q[1:]
			if target[u] {
				var p []int
				for v := u; v != -1; v = prev[v] {
					p = append([]int{v}, p...)
				}
				return p
			}
			for _, v := range adj[u] {
				if _, ok := prev[v]; !ok {
					prev[v] = u
					q = append(q, v)
				}
			}
		}
		return nil
	}
	pathNames := func(p []int) []string {
		var o []string
		for _, v := range p {
			o = append(o, names[v])
		}
		return o
	}
	mathS, cryptoS, clockS, suspS, seedS := inSet(mathL), inSet(cryptoL), inSet(clockL), inSet(suspectL), inSet(seedL)
	fnByNew := map[int]*ssa.Function{}
	for fn, id := range x.fnOf {
		fnByNew[newID[id]] = fn
	}
	diag := func(id int, org []string) genInfo {
		gi := genInfo{Name: names[id], Node: id, Origin: org}
		gi.MathRand = pathNames(bfsPath(id, mathS))
		gi.CryptoRand = pathNames(bfsPath(id, cryptoS))
		gi.Clock = pathNames(bfsPath(id, clockS))
		gi.Suspect = pathNames(bfsPath(id, suspS))
		gi.OK = gi.MathRand == nil && gi.CryptoRand != nil && gi.Clock == nil && gi.Suspect == nil
		// supporting check of DESIGN §7: the full closure through the standard library
		if fn := fnByNew[id]; fn != nil {
			seen := map[*ssa.Function]bool{fn: true}
			q := []*ssa.Function{fn}
			bad := map[string]bool{}
			for len(q) > 0 {
				f := q[0]
				q = q[1:]
				if p := pkgOfFn(f); p != nil && p.Path() == "math/rand" {
					bad[f.String()] = true
				}
				if n := cg.Nodes[f]; n != nil {
					for _, e := range n.Out {
						if c := e.Callee.Func; c != nil && !seen[c] {
							seen[c] = true
							q = append(q, c)
						}
					}
				}
			}
			for b := range bad {
				gi.FullMathV1 = append(gi.FullMathV1, b)
			}
			sort.Strings(gi.FullMathV1)
			if len(gi.FullMathV1) > 6 {
				gi.FullMathV1 = append(gi.FullMathV1[:6], fmt.Sprintf("… %d in all", len(bad)))
			}
		}
		return gi
	}
	for _, fn := range genFns {
		sum.Generators = append(sum.Generators, diag(newID[x.fnOf[fn]], origin[fn]))
	}
	for i, id := range secretIDs {
		_ = i
		sum.Generators = append(sum.Generators, diag(id, []string{"secret"}))
	}

	// witness paths: entry -> generator, entry -> seeder
	var witness [][]int
	var usedIDs []int
	for _, g := range genIDs {
		var best []int
		for _, e := range entryIDs {
			if p := bfsPath(e, map[int]bool{g: true}); p != nil && (best == nil || len(p) < len(best)) {
				best = p
			}
		}
		if best == nil {
			// an anchor that exists but is not used on any path from an entry point: it still has to be a
			// crypto/rand generator (somebody may call it), but there is no path to show
			x.notes = append(x.notes, "generator not reachable from any entry point: "+names[g])
			continue
		}
		usedIDs = append(usedIDs, g)
		witness = append(witness, best)
	}
	var seedPath []int
	for _, e := range entryIDs {
		if p := bfsPath(e, seedS); p != nil && (seedPath == nil || len(p) < len(seedPath)) {
			seedPath = p
		}
	}
	sum.SeedPath = pathNames(seedPath)

	// ---- emit ----
	edges := 0
	walkedN, leafN := 0, 0
	for n := 0; n < N; n++ {
		edges += len(adj[n])
		switch kinds[n] {
		case "walked":
			walkedN++
		case "leaf":
			leafN++
		}
	}
	sum.OK, sum.Nodes, sum.Edges, sum.Walked, sum.Leaves = true, N, edges, walkedN, leafN
	sort.Strings(x.notes)
	sum.Notes = x.notes

	var b bytes.Buffer
	w := func(format string, a ...interface{}) { fmt.Fprintf(&b, format, a...) }
	w("/- GENERATED by /verif/harness-c19/cmd/c19graph from the repository's working tree on every run of\n")
	w("   `./check C19` — do not edit, do not commit. %d nodes (%d walked, %d standard-library leaves, %d virtual), %d edges. -/\n",
		N, walkedN, leafN, N-walkedN-leafN, edges)
	w("import Mtv.Rand.Graph\nnamespace Mtv.Gen.CallGraph\nopen Mtv.Rand\n\n")
	w("/-- the translator ran to completion on a tree that type-checks -/\ndef ok : Bool := true\n\n")
	w("def numNodes : Nat := %d\n\n", N)
	// adjacency rows in chunks of k ≈ √N rows (node x = row x % k of chunk x / k): a lookup in the kernel
	// then costs about 2√N list steps instead of N
	k := 1
	for k*k < N {
		k++
	}
	w("/-- rows per chunk -/\ndef chunk : Nat := %d\n\n", k)
	w("/-- out-edges of node `x`: row `x %% chunk` of chunk `x / chunk` -/\ndef adj : List Graph := [\n")
	for lo := 0; lo < N; lo += k {
		hi := min(lo+k, N)
		w("  [ -- nodes %d .. %d\n", lo, hi-1)
		for n := lo; n < hi; n++ {
			w("    %s%s\n", natList(adj[n]), sep(n, hi))
		}
		if hi < N {
			w("  ],\n")
		} else {
			w("  ]\n")
		}
	}
	w("]\n\n")
	const chunk = 5000
	nch := 0
	for lo := 0; lo < N; lo += chunk {
		hi := min(lo+chunk, N)
		w("def names%d : List String := [\n", nch)
		for n := lo; n < hi; n++ {
			w("  %q%s\n", names[n], sep(n, hi))
		}
		w("]\n\n")
		nch++
	}
	w("def names : List String := ")
	for i := 0; i < nch; i++ {
		if i > 0 {
			w(" ++ ")
		}
		w("names%d", i)
	}
	if nch == 0 {
		w("[]")
	}
	w("\n\n")
	var walkedIDs []int
	for n := 0; n < N; n++ {
		if kinds[n] != "leaf" && !suspS[n] {
			walkedIDs = append(walkedIDs, n)
		}
	}
	_ = walkedIDs
	var leafIDs []int
	for n := 0; n < N; n++ {
		if kinds[n] == "leaf" || suspS[n] {
			leafIDs = append(leafIDs, n)
		}
	}
	w("/-- standard-library functions (never expanded) and virtual suspect leaves -/\ndef leaves : List Nat := %s\n\n", natList(leafIDs))
	w("/-- `crypto/rand.*` -/\ndef cryptoRand : List Nat := %s\n", natList(cryptoL))
	w("/-- `math/rand.*`, `math/rand/v2.*`, `(*math/big.Int).Rand` -/\ndef mathRand : List Nat := %s\n", natList(mathL))
	w("/-- `math/rand.Seed`, `(*math/rand.Rand).Seed` -/\ndef seeders : List Nat := %s\n", natList(seedL))
	w("/-- `time.Now/Since/Until`, `os.Getpid/Getppid` -/\ndef clock : List Nat := %s\n", natList(clockL))
	w("/-- calls of `crypto/rand.Int/Prime/…` with a reader that is not `crypto/rand.Reader` -/\ndef suspect : List Nat := %s\n", natList(suspectL))
	w("/-- functions that assign to a package variable of `crypto/rand` (i.e. replace `Reader`) -/\ndef readerStores : List Nat := %s\n\n", natList(readerStoreIDs))
	w("def entries : List Nat := %s\n", natList(entryIDs))
	w("/-- functions whose result becomes nonce / new_nonce / the DH exponent / the SRP ephemeral (anchors + def-use) -/\n")
	w("def generators : List Nat := %s\n", natList(genIDs))
	w("/-- virtual nodes, one per secret: out-edges = every call in the backward slice of the secret-carrying field -/\n")
	w("def secrets : List Nat := %s\n\n", natList(secretIDs))
	w("/-- the generators that lie on a path from an entry point -/\ndef usedGenerators : List Nat := %s\n", natList(usedIDs))
	w("/-- for each used generator (same order) a path from an entry point to it -/\ndef witnessPaths : List (List Nat) := [")
	for i, p := range witness {
		if i > 0 {
			w(", ")
		}
		w("%s", natList(p))
	}
	w("]\n")
	w("/-- a path from an entry point to a seeder (empty if there is none) -/\ndef seedPath : List Nat := %s\n\n", natList(seedPath))
	w("def model : Model := {\n  adj := adj, chunk := chunk, numNodes := numNodes, leaves := leaves, cryptoRand := cryptoRand, mathRand := mathRand,\n")
	w("  seeders := seeders, clock := clock, suspect := suspect, readerStores := readerStores, entries := entries,\n")
	w("  generators := generators, usedGenerators := usedGenerators, secrets := secrets, witnessPaths := witnessPaths, seedPath := seedPath, ok := ok }\n\n")
	w("end Mtv.Gen.CallGraph\n")
	changed := writeIfChanged(*out, b.Bytes())
	writeJSON(*jsonOut, &sum)
	fmt.Printf("c19graph: %d nodes, %d edges, %d generators, %d secrets, changed=%v\n", N, edges, len(genIDs), len(secretIDs), changed)
}

func sep(n, hi int) string {
	if n+1 < hi {
		return ","
	}
	return ""
}

func natList(xs []int) string {
	if len(xs) == 0 {
		return "[]"
	}
	var sb strings.Builder
	sb.WriteString("[")
	for i, v := range xs {
		if i > 0 {
			sb.WriteString(", ")
		}
		fmt.Fprintf(&sb, "%d", v)
	}
	sb.WriteString("]")
	return sb.String()
}

func failStub(msg string) []byte {
	var b bytes.Buffer
	fmt.Fprintf(&b, "/- GENERATED by c19graph: the extraction FAILED (%s).\n   The model below makes every C19 graph theorem fail. -/\n", strings.ReplaceAll(msg, "-/", "- /"))
	b.WriteString("import Mtv.Rand.Graph\nnamespace Mtv.Gen.CallGraph\nopen Mtv.Rand\n")
	b.WriteString("def names : List String := []\n")
	b.WriteString("def model : Model := {\n  adj := [], chunk := 1, numNodes := 0, leaves := [], cryptoRand := [], mathRand := [], seeders := [], clock := [],\n")
	b.WriteString("  suspect := [], readerStores := [], entries := [], generators := [], usedGenerators := [], secrets := [], witnessPaths := [], seedPath := [], ok := false }\n")
	b.WriteString("end Mtv.Gen.CallGraph\n")
	return b.Bytes()
}

func writeIfChanged(path string, content []byte) bool {
	old, err := os.ReadFile(path)
	if err == nil && bytes.Equal(old, content) {
		return false
	}
	_ = os.MkdirAll(filepath.Dir(path), 0o755)
	tmp := path + ".tmp"
	if err := os.WriteFile(tmp, content, 0o644); err != nil {
		fatal("%v", err)
	}
	if err := os.Rename(tmp, path); err != nil {
		fatal("%v", err)
	}
	return true
}

func writeJSON(path string, s *summary) {
	if path == "" {
		return
	}
	b, _ := json.MarshalIndent(s, "", " ")
	_ = os.MkdirAll(filepath.Dir(path), 0o755)
	_ = os.WriteFile(path, b, 0o644)
}
