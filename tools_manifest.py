#!/usr/bin/env python3
"""Regenerates MANIFEST.json from the table below, so the manifest is always schema-valid and
lists exactly the properties that have a check (everything else under not_applicable with a reason)."""
import json
import os

HERE = os.path.dirname(os.path.abspath(__file__))

CHECKS = {
    "C08": {
        "category": "proof",
        "text": "Lean 4 theorems about the framing model (exact-count read equals the read on the concatenated stream for every segmentation; frame/read round trip for every message the format carries and any number of messages; announcement detection; signed error codes), tied to the Go code by a correspondence run over the real mode/transport code incl. a real loopback TCP connection.",
        "design_ref": "DESIGN.md §7 C08",
        "note": "Trusted: Lean kernel; axioms propext/Classical.choice/Quot.sound at most; the harness and its spec framer; that tcpConn.Read is exact-count (observed over loopback); kernel TCP segmentation itself is not controlled. The abridged length arithmetic (len/WordLen, byte(w), byte(w>>8), byte(w>>16)) is translated from the working tree (harness/cmd/arithfacts -> Gen/Arith.lean) and proved equal to leBytes (len/4) 3 (abridged_length_bytes). Sequences on one goroutine: a message of 2^18..2^20 (thorough 2^24) bytes, then long-form frames (seed C08-m18).",
        "technique": "Lean 4 proof (induction over segment lists and message lists) + differential correspondence Go vs Lean driver + go/parser translation of the length arithmetic into BitVec 64 definitions (regenerated every run), proved equal to the Nat model (Props/Arith.lean)",
    },
}

NOT_YET = {}

import glob
for f in sorted(glob.glob(os.path.join(HERE, "checks", "c*.manifest.json"))):
    pid = os.path.basename(f).split(".")[0].upper()
    CHECKS[pid] = json.load(open(f))

# checks whose files exist but which are still being built / do not yet pass on the unchanged tree
HOLD = []
for pid in HOLD:
    CHECKS.pop(pid, None)

def main():
    props = [json.loads(l) for l in open(os.path.join(HERE, "properties.jsonl"))]
    checks = []
    na = []
    for p in props:
        pid = p["id"]
        if pid in CHECKS:
            c = CHECKS[pid]
            checks.append({
                "property_id": pid,
                "quick_cmd": "./check %s --tier quick" % pid,
                "thorough_cmd": "./check %s --tier thorough" % pid,
                "evidence_file": "/verif/evidence/%s.json" % pid,
                "replay_cmd_template": "./check %s --replay {path}" % pid,
                "engine": "lean4+vh",
                "level_claimed": {"category": c["category"], "text": c["text"], "design_ref": c["design_ref"]},
                "level_note": c["note"],
                "technique": c["technique"],
            })
        else:
            na.append({"property_id": pid, "reason": NOT_YET.get(pid, "check not built yet in this round: the Lean model, theorems and correspondence for this property are still to be written (see DESIGN.md §7); not claimed until its check passes on the unchanged tree")})
    m = {
        "version": 1,
        "setup_cmd": "./setup.sh",
        "hooks": {
            "guard": "verif",
            "enable": "go build -tags verif (the harness /verif/harness imports /repo through a replace directive and is built with -tags verif on every check)",
            "baseline_off_cmd": "cd /repo && export GOFLAGS=-mod=mod GOPROXY=off GOSUMDB=off && go test -vet=off -count=1 ./... && (cd internal/cmd/tlgen && go test -vet=off -count=1 ./...) && (cd telegram/deeplinks && go test -vet=off -count=1 ./...)",
            "source_commits": HOOK_COMMITS,
            "add_only": True,
        },
        "engines": [
            {"name": "lean4+vh", "path": "/verif/lean, /verif/harness, /verif/lib/vlib.py",
             "serves_properties": sorted(CHECKS.keys()),
             "kind_free_text": "Lean 4 model + theorems (lake build, #print axioms audit, leanchecker in the thorough tier); Go harness calling the real code in-process; correspondence diff against the compiled Lean driver; violation search; evidence writer"},
        ],
        "checks": checks,
        "notes": "Every check rebuilds the harness from /repo's working tree with -tags verif, regenerates the Lean facts extracted from the tree, re-checks the theorems and their axioms, and runs the correspondence. VERIF_SEED seeds every random choice. See DESIGN.md.",
        "not_applicable": na,
    }
    json.dump(m, open(os.path.join(HERE, "MANIFEST.json"), "w"), indent=1)

HOOK_COMMITS = ["36bce13", "6fcc21e", "c2c0393", "7ab197e", "c8d31e5"]

if __name__ == "__main__":
    main()
