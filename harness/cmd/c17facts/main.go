// c17facts — go/ast fact extractor of property C17. It reads, from the working tree given by
// -repo, the data the Lean model of RPC-error handling is parametrised by, and writes
//
//	-lean  FILE   lean/Mtv/Gen/ErrTables.lean (only when the content changes: Lake caches by content)
//	-json  FILE   the same facts as JSON, read by `vh c17` (generator and property oracle)
//
// Extracted: errors.go `specificErrors` (rows in source order: prefix, suffix, kind), errors.go
// `errorMessages` (sorted by key), utils.go `defaultDCList`, and the statement shape of mtproto.go
// `tryToProcessErr` (switch tag, case labels, recognised statement kinds per case).
//
// Standard library only (go/parser, go/ast, go/printer). Anything the extractor does not understand
// (a non-literal table entry, a missing declaration) is a hard error: exit status 1 and a message.
package main

import (
	"bytes"
	"encoding/json"
	"flag"
	"fmt"
	"go/ast"
	"go/parser"
	"go/printer"
	"go/token"
	"os"
	"path/filepath"
	"regexp"
	"sort"
	"strconv"
	"strings"
	"unicode/utf8"
)

type Row struct {
	Prefix string `json:"prefix"`
	Suffix string `json:"suffix"`
	Kind   string `json:"kind"` // "Int", "String", or another reflect.Kind name
}

type KV struct {
	Key string `json:"key"`
	Val string `json:"val"`
}

type DC struct {
	ID   int64  `json:"id"`
	Addr string `json:"addr"`
}

type ProcCase struct {
	Labels []string `json:"labels"` // empty = default
	Steps  []string `json:"steps"`  // ProcStep constructor names
	Source []string `json:"source"` // normalised statements, for the reader
}

type Facts struct {
	Rows      []Row      `json:"rows"`
	Catalogue []KV       `json:"catalogue"`
	DCs       []DC       `json:"dcs"`
	ProcTag   string     `json:"proc_tag"`
	ProcCases []ProcCase `json:"proc_cases"`
}

func die(format string, a ...interface{}) {
	fmt.Fprintf(os.Stderr, "c17facts: "+format+"\n", a...)
	os.Exit(1)
}

func parse(fset *token.FileSet, path string) *ast.File {
	f, err := parser.ParseFile(fset, path, nil, 0)
	if err != nil {
		die("parsing %s: %v", path, err)
	}
	return f
}

func strLit(e ast.Expr, what string) string {
	// string literals, and concatenations of string literals
	switch v := e.(type) {
	case *ast.BasicLit:
		if v.Kind == token.STRING {
			s, err := strconv.Unquote(v.Value)
			if err != nil {
				die("%s: bad string literal %s", what, v.Value)
			}
			if !utf8.ValidString(s) {
				die("%s: string literal is not valid UTF-8 (not supported by the JSON side of this extractor)", what)
			}
			return s
		}
	case *ast.ParenExpr:
		return strLit(v.X, what)
	case *ast.BinaryExpr:
		if v.Op == token.ADD {
			return strLit(v.X, what) + strLit(v.Y, what)
		}
	}
	die("%s: expected a string literal, found %T", what, e)
	return ""
}

func intLit(e ast.Expr, what string) int64 {
	switch v := e.(type) {
	case *ast.BasicLit:
		if v.Kind == token.INT {
			n, err := strconv.ParseInt(v.Value, 0, 64)
			if err != nil {
				die("%s: bad int literal %s", what, v.Value)
			}
			return n
		}
	case *ast.ParenExpr:
		return intLit(v.X, what)
	case *ast.UnaryExpr:
		if v.Op == token.SUB {
			return -intLit(v.X, what)
		}
		if v.Op == token.ADD {
			return intLit(v.X, what)
		}
	}
	die("%s: expected an integer literal, found %T", what, e)
	return 0
}

func findVar(f *ast.File, name string) ast.Expr {
	for _, d := range f.Decls {
		gd, ok := d.(*ast.GenDecl)
		if !ok || gd.Tok != token.VAR {
			continue
		}
		for _, sp := range gd.Specs {
			vs := sp.(*ast.ValueSpec)
			for i, n := range vs.Names {
				if n.Name == name {
					if i >= len(vs.Values) {
						die("var %s has no initialiser", name)
					}
					return vs.Values[i]
				}
			}
		}
	}
	die("var %s not found", name)
	return nil
}

func findFunc(f *ast.File, name string) *ast.FuncDecl {
	for _, d := range f.Decls {
		if fd, ok := d.(*ast.FuncDecl); ok && fd.Name.Name == name && fd.Body != nil {
			return fd
		}
	}
	die("func %s not found", name)
	return nil
}

func rows(f *ast.File) []Row {
	cl, ok := findVar(f, "specificErrors").(*ast.CompositeLit)
	if !ok {
		die("specificErrors is not a composite literal")
	}
	var out []Row
	for i, e := range cl.Elts {
		what := fmt.Sprintf("specificErrors[%d]", i)
		el, ok := e.(*ast.CompositeLit)
		if !ok {
			die("%s: not a composite literal", what)
		}
		var pe, se, ke ast.Expr
		if len(el.Elts) > 0 {
			if _, keyed := el.Elts[0].(*ast.KeyValueExpr); keyed {
				for _, x := range el.Elts {
					kv := x.(*ast.KeyValueExpr)
					switch kv.Key.(*ast.Ident).Name {
					case "prefix":
						pe = kv.Value
					case "suffix":
						se = kv.Value
					case "kind":
						ke = kv.Value
					default:
						die("%s: unknown field", what)
					}
				}
			} else {
				if len(el.Elts) != 3 {
					die("%s: expected 3 positional fields", what)
				}
				pe, se, ke = el.Elts[0], el.Elts[1], el.Elts[2]
			}
		}
		r := Row{Kind: "Invalid"}
		if pe != nil {
			r.Prefix = strLit(pe, what+".prefix")
		}
		if se != nil {
			r.Suffix = strLit(se, what+".suffix")
		}
		if ke != nil {
			sel, ok := ke.(*ast.SelectorExpr)
			if !ok {
				die("%s.kind: expected reflect.<Kind>", what)
			}
			if id, ok := sel.X.(*ast.Ident); !ok || id.Name != "reflect" {
				die("%s.kind: expected reflect.<Kind>", what)
			}
			r.Kind = sel.Sel.Name
		}
		out = append(out, r)
	}
	return out
}

func catalogue(f *ast.File) []KV {
	cl, ok := findVar(f, "errorMessages").(*ast.CompositeLit)
	if !ok {
		die("errorMessages is not a composite literal")
	}
	var out []KV
	seen := map[string]bool{}
	for i, e := range cl.Elts {
		kv, ok := e.(*ast.KeyValueExpr)
		if !ok {
			die("errorMessages[%d]: not key: value", i)
		}
		k := strLit(kv.Key, fmt.Sprintf("errorMessages[%d] key", i))
		v := strLit(kv.Value, fmt.Sprintf("errorMessages[%q]", k))
		if seen[k] {
			die("errorMessages: duplicate key %q", k)
		}
		seen[k] = true
		out = append(out, KV{k, v})
	}
	sort.Slice(out, func(i, j int) bool { return out[i].Key < out[j].Key })
	return out
}

// findVarIn looks a package-level variable up in any of the given files; nil when it is not declared with an
// initialiser there.
func findVarIn(files []*ast.File, name string) ast.Expr {
	for _, f := range files {
		for _, d := range f.Decls {
			gd, ok := d.(*ast.GenDecl)
			if !ok || gd.Tok != token.VAR {
				continue
			}
			for _, sp := range gd.Specs {
				vs := sp.(*ast.ValueSpec)
				for i, n := range vs.Names {
					if n.Name == name && len(vs.Values) == len(vs.Names) {
						return vs.Values[i]
					}
				}
			}
		}
	}
	return nil
}

// dcs: the CONTENT of the default data-centre list. Accepted forms of defaultDCList's single statement:
// `return map[int]string{…}` and `return <ident>` where <ident> is a package-level variable of the package
// (any file of it) initialised with such a literal (possibly through further identifiers). Which map OBJECT
// a client gets (a fresh one or one shared with other clients) is not a fact about the content: that is
// observed on the compiled code by the c17.two operations of `vh c17`.
func dcs(f *ast.File, pkg []*ast.File) []DC {
	fd := findFunc(f, "defaultDCList")
	var out []DC
	found := false
	for _, st := range fd.Body.List {
		rs, ok := st.(*ast.ReturnStmt)
		if !ok || len(rs.Results) != 1 {
			continue
		}
		res := rs.Results[0]
		for hops := 0; ; hops++ {
			if pe, isParen := res.(*ast.ParenExpr); isParen {
				res = pe.X
				continue
			}
			id, isIdent := res.(*ast.Ident)
			if !isIdent {
				break
			}
			if hops > 8 {
				die("defaultDCList: chain of identifiers too long at %s", id.Name)
			}
			init := findVarIn(pkg, id.Name)
			if init == nil {
				die("defaultDCList: returns %s, which is not a package-level variable with an initialiser", id.Name)
			}
			res = init
		}
		cl, ok := res.(*ast.CompositeLit)
		if !ok {
			die("defaultDCList: return value is not a composite literal (nor a package-level variable initialised with one)")
		}
		if mt, isMap := cl.Type.(*ast.MapType); !isMap {
			die("defaultDCList: the literal is not a map literal")
		} else {
			k, kok := mt.Key.(*ast.Ident)
			v, vok := mt.Value.(*ast.Ident)
			if !kok || !vok || k.Name != "int" || v.Name != "string" {
				die("defaultDCList: the literal is not a map[int]string")
			}
		}
		found = true
		seen := map[int64]bool{}
		for i, e := range cl.Elts {
			kv, ok := e.(*ast.KeyValueExpr)
			if !ok {
				die("defaultDCList[%d]: not key: value", i)
			}
			id := intLit(kv.Key, "defaultDCList key")
			if seen[id] {
				die("defaultDCList: duplicate key %d", id)
			}
			seen[id] = true
			out = append(out, DC{id, strLit(kv.Value, "defaultDCList value")})
		}
	}
	if !found || len(fd.Body.List) != 1 {
		die("defaultDCList: expected a single `return map[int]string{…}` (or `return <package-level variable>`)")
	}
	sort.Slice(out, func(i, j int) bool { return out[i].ID < out[j].ID })
	return out
}

// pkgFiles parses every non-test .go file of the repository's root package (for package-level variables that
// a function of utils.go may return).
func pkgFiles(fset *token.FileSet, repo string) []*ast.File {
	names, err := filepath.Glob(filepath.Join(repo, "*.go"))
	if err != nil {
		die("%v", err)
	}
	sort.Strings(names)
	var out []*ast.File
	for _, n := range names {
		if strings.HasSuffix(n, "_test.go") {
			continue
		}
		out = append(out, parse(fset, n))
	}
	return out
}

var ws = regexp.MustCompile(`\s+`)

func render(fset *token.FileSet, n ast.Node) string {
	var b bytes.Buffer
	if err := printer.Fprint(&b, fset, n); err != nil {
		die("printing: %v", err)
	}
	return strings.TrimSpace(ws.ReplaceAllString(b.String(), " "))
}

const ident = `[A-Za-z_][A-Za-z_0-9]*`

var (
	reAssert   = regexp.MustCompile(`^(` + ident + `), (` + ident + `) := e\.AdditionalInfo\.\(int\)$`)
	reIfNotRet = regexp.MustCompile(`^if !(` + ident + `) \{ return e \}$`)
	reLookup   = regexp.MustCompile(`^(` + ident + `), (` + ident + `) := m\.dclist\[(` + ident + `)\]$`)
	reLookupU  = regexp.MustCompile(`^(` + ident + `), (` + ident + `) := m\.dclist\[e\.AdditionalInfo\.\(int\)\]$`)
	reIfNotWr  = regexp.MustCompile(`^if !(` + ident + `) \{ return errors\.Wrapf\(e, "[^"]*", e\.AdditionalInfo\) \}$`)
	reSetAddr  = regexp.MustCompile(`^m\.addr = (` + ident + `)$`)
	reReconn   = regexp.MustCompile(`^(` + ident + `) := m\.Reconnect\(\)$`)
	reRetVar   = regexp.MustCompile(`^return (` + ident + `)$`)
)

// classify maps the statements of one case body to ProcStep names. Variable names are free but
// must be used consistently (the looked-up key is the asserted value, the assigned address is the
// looked-up one, the returned error is Reconnect's); an inconsistent use is "unknown".
func classify(stmts []string) []string {
	var out []string
	var dcVar, okVar, ipVar, foundVar, errVar string
	for _, s := range stmts {
		step := "unknown"
		switch {
		case reAssert.MatchString(s):
			m := reAssert.FindStringSubmatch(s)
			dcVar, okVar = m[1], m[2]
			step = "assertChecked"
		case reLookupU.MatchString(s):
			m := reLookupU.FindStringSubmatch(s)
			ipVar, foundVar = m[1], m[2]
			step = "lookupDcUnchecked"
		case reLookup.MatchString(s):
			m := reLookup.FindStringSubmatch(s)
			if dcVar != "" && m[3] == dcVar {
				ipVar, foundVar = m[1], m[2]
				step = "lookupDc"
			}
		case reIfNotRet.MatchString(s):
			if m := reIfNotRet.FindStringSubmatch(s); okVar != "" && m[1] == okVar {
				step = "ifNotOkReturnE"
			}
		case reIfNotWr.MatchString(s):
			if m := reIfNotWr.FindStringSubmatch(s); foundVar != "" && m[1] == foundVar {
				step = "ifNotFoundReturnWrapped"
			}
		case reSetAddr.MatchString(s):
			if m := reSetAddr.FindStringSubmatch(s); ipVar != "" && m[1] == ipVar {
				step = "setAddr"
			}
		case reReconn.MatchString(s):
			errVar = reReconn.FindStringSubmatch(s)[1]
			step = "reconnect"
		case s == "return e":
			step = "returnE"
		case reRetVar.MatchString(s):
			if m := reRetVar.FindStringSubmatch(s); errVar != "" && m[1] == errVar {
				step = "returnErr"
			}
		}
		out = append(out, step)
	}
	return out
}

func procShape(fset *token.FileSet, f *ast.File) (string, []ProcCase) {
	fd := findFunc(f, "tryToProcessErr")
	if fd.Recv == nil || len(fd.Type.Params.List) != 1 || len(fd.Type.Params.List[0].Names) != 1 ||
		fd.Type.Params.List[0].Names[0].Name != "e" || len(fd.Recv.List) != 1 || len(fd.Recv.List[0].Names) != 1 ||
		fd.Recv.List[0].Names[0].Name != "m" || render(fset, fd.Recv.List[0].Type) != "*MTProto" {
		die("tryToProcessErr: expected `func (m *MTProto) tryToProcessErr(e *ErrResponseCode) error`")
	}
	// the equivalent guard form `if <tag> != "LIT" { return e }; <handling>` is read as the switch
	// `switch <tag> { case "LIT": <handling>; default: return e }`
	if len(fd.Body.List) >= 2 {
		if ifs, ok := fd.Body.List[0].(*ast.IfStmt); ok && ifs.Init == nil && ifs.Else == nil && len(ifs.Body.List) == 1 {
			if be, ok := ifs.Cond.(*ast.BinaryExpr); ok && be.Op == token.NEQ {
				if bl, ok := be.Y.(*ast.BasicLit); ok && bl.Kind == token.STRING {
					lit, _ := strconv.Unquote(bl.Value)
					mk := func(labels []string, stmts []ast.Stmt) ProcCase {
						pc := ProcCase{Labels: labels, Steps: []string{}, Source: []string{}}
						for _, st := range stmts {
							pc.Source = append(pc.Source, render(fset, st))
						}
						if st := classify(pc.Source); st != nil {
							pc.Steps = st
						}
						return pc
					}
					return render(fset, be.X), []ProcCase{mk([]string{lit}, fd.Body.List[1:]), mk([]string{}, ifs.Body.List)}
				}
			}
		}
	}
	if len(fd.Body.List) != 1 {
		return "not-a-single-switch", nil
	}
	sw, ok := fd.Body.List[0].(*ast.SwitchStmt)
	if !ok || sw.Init != nil || sw.Tag == nil {
		return "not-a-single-switch", nil
	}
	tag := render(fset, sw.Tag)
	var cases []ProcCase
	for _, c := range sw.Body.List {
		cc := c.(*ast.CaseClause)
		pc := ProcCase{Labels: []string{}, Steps: []string{}, Source: []string{}}
		for _, l := range cc.List {
			if bl, ok := l.(*ast.BasicLit); ok && bl.Kind == token.STRING {
				s, _ := strconv.Unquote(bl.Value)
				pc.Labels = append(pc.Labels, s)
			} else {
				// a non-literal label cannot be modelled: make the clause unrecognisable
				pc.Labels = append(pc.Labels, "\x00non-literal:"+render(fset, l))
			}
		}
		for _, st := range cc.Body {
			pc.Source = append(pc.Source, render(fset, st))
		}
		pc.Steps = classify(pc.Source)
		if pc.Steps == nil {
			pc.Steps = []string{}
		}
		cases = append(cases, pc)
	}
	return tag, cases
}

// ---- Lean rendering -------------------------------------------------------------------------------

func leanBytes(s string) string {
	if len(s) == 0 {
		return "[]"
	}
	var b strings.Builder
	b.WriteByte('[')
	for i := 0; i < len(s); i++ {
		if i > 0 {
			b.WriteByte(',')
		}
		b.WriteString(strconv.Itoa(int(s[i])))
	}
	b.WriteByte(']')
	return b.String()
}

// leanStr renders a byte string as `str <len> <little-endian base-256 numeral>`: one numeral per
// string keeps the elaboration of the ~380-entry catalogue fast (`Mtv.Client.str` = `leBytes`).
func leanStr(s string) string {
	if len(s) == 0 {
		return "(str 0 0)"
	}
	var b strings.Builder
	b.WriteString("(str ")
	b.WriteString(strconv.Itoa(len(s)))
	b.WriteString(" 0x")
	for i := len(s) - 1; i >= 0; i-- {
		fmt.Fprintf(&b, "%02x", s[i])
	}
	b.WriteByte(')')
	return b.String()
}

// comment-safe rendering of a Go string
func cmt(s string) string {
	q := strconv.QuoteToASCII(s)
	q = strings.ReplaceAll(q, "-/", "-\\u002f")
	q = strings.ReplaceAll(q, "/-", "/\\u002d")
	return q
}

func leanKind(k string) string {
	switch k {
	case "Int":
		return ".int"
	case "String":
		return ".string"
	}
	return ".other"
}

func leanFile(fc Facts) string {
	var b strings.Builder
	b.WriteString("/-\n  GENERATED on every run by harness/cmd/c17facts (go/ast) from the working tree's errors.go,\n" +
		"  utils.go and mtproto.go. Not committed; do not edit. Strings are Go byte strings (UTF-8 bytes).\n-/\n")
	b.WriteString("import Mtv.Client.ErrTypes\nnamespace Mtv.Gen\nopen Mtv Mtv.Client\n\n")
	b.WriteString("/-- errors.go `specificErrors`, in source order -/\ndef specificErrors : List Row := [\n")
	for i, r := range fc.Rows {
		sep := ","
		if i == len(fc.Rows)-1 {
			sep = ""
		}
		fmt.Fprintf(&b, "  -- %s X %s reflect.%s\n  ⟨%s, %s, %s⟩%s\n", cmt(r.Prefix), cmt(r.Suffix), r.Kind,
			leanBytes(r.Prefix), leanBytes(r.Suffix), leanKind(r.Kind), sep)
	}
	b.WriteString("]\n\n")
	b.WriteString("/-- errors.go `errorMessages`, sorted by key (a Go map literal: keys are distinct) -/\ndef errorMessages : List (Bytes × Bytes) := [\n")
	for i, kv := range fc.Catalogue {
		sep := ","
		if i == len(fc.Catalogue)-1 {
			sep = ""
		}
		fmt.Fprintf(&b, "  -- %s: %s\n  (%s, %s)%s\n", cmt(kv.Key), cmt(kv.Val), leanStr(kv.Key), leanStr(kv.Val), sep)
	}
	b.WriteString("]\n\n")
	b.WriteString("/-- utils.go `defaultDCList`, sorted by id -/\ndef defaultDCList : List (Int × Bytes) := [\n")
	for i, d := range fc.DCs {
		sep := ","
		if i == len(fc.DCs)-1 {
			sep = ""
		}
		fmt.Fprintf(&b, "  -- %d: %s\n  (%d, %s)%s\n", d.ID, cmt(d.Addr), d.ID, leanBytes(d.Addr), sep)
	}
	b.WriteString("]\n\n")
	fmt.Fprintf(&b, "/-- mtproto.go `tryToProcessErr`: the switch tag is %s -/\ndef procSwitchTag : Bytes := %s\n\n", cmt(fc.ProcTag), leanBytes(fc.ProcTag))
	b.WriteString("/-- mtproto.go `tryToProcessErr`: case clauses in source order (`labels = []` is `default`) -/\ndef procCases : List ProcCase := [\n")
	for i, c := range fc.ProcCases {
		sep := ","
		if i == len(fc.ProcCases)-1 {
			sep = ""
		}
		var ls, ss []string
		for _, l := range c.Labels {
			ls = append(ls, leanBytes(l))
		}
		for _, s := range c.Steps {
			ss = append(ss, "."+s)
		}
		for j, src := range c.Source {
			fmt.Fprintf(&b, "  --   %s   => %s\n", cmt(src), c.Steps[j])
		}
		fmt.Fprintf(&b, "  -- labels %s\n  ⟨[%s], [%s]⟩%s\n", cmt(strings.Join(c.Labels, " | ")), strings.Join(ls, ", "), strings.Join(ss, ", "), sep)
	}
	b.WriteString("]\n\nend Mtv.Gen\n")
	return b.String()
}

func writeIfChanged(path, content string) {
	if old, err := os.ReadFile(path); err == nil && string(old) == content {
		return
	}
	if err := os.MkdirAll(filepath.Dir(path), 0o755); err != nil {
		die("%v", err)
	}
	tmp := fmt.Sprintf("%s.tmp%d", path, os.Getpid())
	if err := os.WriteFile(tmp, []byte(content), 0o644); err != nil {
		die("%v", err)
	}
	if err := os.Rename(tmp, path); err != nil {
		die("%v", err)
	}
}

func main() {
	repo := flag.String("repo", "/repo", "working tree of xelaj/mtproto")
	leanOut := flag.String("lean", "", "write lean/Mtv/Gen/ErrTables.lean here (only when changed)")
	jsonOut := flag.String("json", "", "write the facts as JSON here")
	flag.Parse()

	fset := token.NewFileSet()
	ef := parse(fset, filepath.Join(*repo, "errors.go"))
	uf := parse(fset, filepath.Join(*repo, "utils.go"))
	mf := parse(fset, filepath.Join(*repo, "mtproto.go"))

	var fc Facts
	fc.Rows = rows(ef)
	fc.Catalogue = catalogue(ef)
	fc.DCs = dcs(uf, pkgFiles(fset, *repo))
	fc.ProcTag, fc.ProcCases = procShape(fset, mf)

	if *leanOut != "" {
		writeIfChanged(*leanOut, leanFile(fc))
	}
	if *jsonOut != "" {
		b, _ := json.MarshalIndent(fc, "", " ")
		writeIfChanged(*jsonOut, string(b)+"\n")
	}
	if *leanOut == "" && *jsonOut == "" {
		b, _ := json.MarshalIndent(fc, "", " ")
		fmt.Println(string(b))
	}
	fmt.Fprintf(os.Stderr, "c17facts: %d rows, %d catalogue entries, %d data centres, %d case clauses of tryToProcessErr\n",
		len(fc.Rows), len(fc.Catalogue), len(fc.DCs), len(fc.ProcCases))
}
