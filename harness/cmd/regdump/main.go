// regdump prints the Lean rendering of the TL constructor registry of the working tree.
package main

import (
	"fmt"
	"os"

	"github.com/xelaj/mtproto/verifharness/internal/reg"
)

func main() {
	src := reg.LeanSource()
	if len(os.Args) > 1 {
		old, err := os.ReadFile(os.Args[1])
		if err == nil && string(old) == src {
			return // unchanged: keep the file (and Lake's cache) as is
		}
		if err := os.WriteFile(os.Args[1], []byte(src), 0o644); err != nil {
			panic(err)
		}
		return
	}
	fmt.Print(src)
}
