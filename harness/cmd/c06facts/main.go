// c06facts — extracts from the working tree of xelaj/mtproto, with go/parser only, the statement
// skeleton of math.SplitPQ (internal/math/math.go) that the Lean model of it
// (lean/Mtv/Handshake/SplitPQ.lean) was written against, for property C06:
//
//   - splitPQSource: one entry per import the function refers to (which package `rand` is), one per variable of the package-level `var (…)` declarations SplitPQ refers
//     to (big0, big1, big15, big17 with their initialisers), the signature of the function, and then
//     every statement of its body in source order, nesting shown by leading ". ": loops with the source
//     text of their conditions, `if`s with theirs (and `} else {`), every assignment / definition /
//     call / increment as its normalised source text (so: the big.Int method called, its receiver and
//     operands, the constants 64 and 18, the final swap and the return).
//
// Any edit of the function other than comments and white space changes the list; the kernel-checked
// theorem Mtv.Handshake.splitpq_matches_source (lean/Mtv/Props/C06.lean) demands equality with the list
// in the model file.
//
// Output: a Lean file (namespace Mtv.Gen), written only when its content changes.
package main

import (
	"bytes"
	"flag"
	"fmt"
	"go/ast"
	"go/parser"
	"go/printer"
	"go/token"
	"os"
	"path/filepath"
	"sort"
	"strings"
)

var fset = token.NewFileSet()

func src(n ast.Node) string {
	var b bytes.Buffer
	_ = printer.Fprint(&b, fset, n)
	return strings.Join(strings.Fields(b.String()), " ")
}

type walker struct {
	out  []string
	used map[string]bool // identifiers the function body mentions
}

func (w *walker) emit(depth int, s string) {
	w.out = append(w.out, strings.Repeat(". ", depth)+s)
}

func (w *walker) block(depth int, stmts []ast.Stmt) {
	for _, s := range stmts {
		w.stmt(depth, s)
	}
}

func (w *walker) ifStmt(depth int, st *ast.IfStmt) {
	head := "if "
	if st.Init != nil {
		head += src(st.Init) + "; "
	}
	w.emit(depth, head+src(st.Cond)+" {")
	w.block(depth+1, st.Body.List)
	for st.Else != nil {
		switch e := st.Else.(type) {
		case *ast.BlockStmt:
			w.emit(depth, "} else {")
			w.block(depth+1, e.List)
			st = &ast.IfStmt{}
		case *ast.IfStmt:
			h := "} else if "
			if e.Init != nil {
				h += src(e.Init) + "; "
			}
			w.emit(depth, h+src(e.Cond)+" {")
			w.block(depth+1, e.Body.List)
			st = e
		default:
			st = &ast.IfStmt{}
		}
	}
	w.emit(depth, "}")
}

func (w *walker) stmt(depth int, s ast.Stmt) {
	switch st := s.(type) {
	case *ast.ForStmt:
		head := "for "
		if st.Init != nil || st.Post != nil {
			init, post := "", ""
			if st.Init != nil {
				init = src(st.Init)
			}
			if st.Post != nil {
				post = src(st.Post)
			}
			cond := ""
			if st.Cond != nil {
				cond = src(st.Cond)
			}
			head += init + "; " + cond + "; " + post
		} else if st.Cond != nil {
			head += src(st.Cond)
		}
		w.emit(depth, strings.TrimRight(head, " ")+" {")
		w.block(depth+1, st.Body.List)
		w.emit(depth, "}")
	case *ast.RangeStmt:
		k, v := "", ""
		if st.Key != nil {
			k = src(st.Key)
		}
		if st.Value != nil {
			v = ", " + src(st.Value)
		}
		w.emit(depth, "for "+k+v+" "+st.Tok.String()+" range "+src(st.X)+" {")
		w.block(depth+1, st.Body.List)
		w.emit(depth, "}")
	case *ast.IfStmt:
		w.ifStmt(depth, st)
	case *ast.BlockStmt:
		w.emit(depth, "{")
		w.block(depth+1, st.List)
		w.emit(depth, "}")
	case *ast.SwitchStmt, *ast.TypeSwitchStmt, *ast.SelectStmt, *ast.GoStmt, *ast.DeferStmt, *ast.LabeledStmt:
		// none of these occurs in the function the model was written against: the whole text is the entry
		w.emit(depth, "stmt "+src(s))
	default:
		// assignments, definitions, expression statements (method calls), ++/--, return, break, continue, var
		w.emit(depth, src(s))
	}
}

func parse(path string) *ast.File {
	f, err := parser.ParseFile(fset, path, nil, 0)
	if err != nil {
		fmt.Fprintln(os.Stderr, "c06facts:", err)
		os.Exit(1)
	}
	return f
}

func findFunc(f *ast.File, name string) *ast.FuncDecl {
	for _, d := range f.Decls {
		if fd, ok := d.(*ast.FuncDecl); ok && fd.Recv == nil && fd.Name.Name == name {
			return fd
		}
	}
	return nil
}

// package-level variables and constants the function body mentions, with their initialisers, in the
// order of their names (a declaration without initialiser is printed as such)
func packageValues(f *ast.File, used map[string]bool) []string {
	var out []string
	for _, d := range f.Decls {
		gd, ok := d.(*ast.GenDecl)
		if !ok || (gd.Tok != token.VAR && gd.Tok != token.CONST) {
			continue
		}
		for _, sp := range gd.Specs {
			vs := sp.(*ast.ValueSpec)
			for i, n := range vs.Names {
				if !used[n.Name] {
					continue
				}
				line := strings.ToLower(gd.Tok.String()) + " " + n.Name
				if vs.Type != nil {
					line += " " + src(vs.Type)
				}
				switch {
				case len(vs.Values) == len(vs.Names):
					line += " = " + src(vs.Values[i])
				case len(vs.Values) > 0:
					line += " = (multi) " + src(vs.Values[0])
				}
				out = append(out, line)
			}
		}
	}
	sort.Strings(out)
	return out
}

// the imports the function body refers to (`big.`, `rand.`, `time.`): which package a qualifier names
func importsUsed(f *ast.File, used map[string]bool) []string {
	var out []string
	for _, im := range f.Imports {
		path := strings.Trim(im.Path.Value, "\"")
		name := path[strings.LastIndex(path, "/")+1:]
		if im.Name != nil {
			name = im.Name.Name
		}
		if used[name] {
			out = append(out, "import "+name+" "+path)
		}
	}
	sort.Strings(out)
	return out
}

func leanStr(s string) string {
	var b strings.Builder
	b.WriteByte('"')
	for _, r := range s {
		switch {
		case r == '"':
			b.WriteString(`\"`)
		case r == '\\':
			b.WriteString(`\\`)
		case r < 0x20 || r == 0x7f:
			fmt.Fprintf(&b, `\x%02x`, r)
		default:
			b.WriteRune(r)
		}
	}
	b.WriteByte('"')
	return b.String()
}

func leanStrList(name string, xs []string) string {
	var b strings.Builder
	fmt.Fprintf(&b, "def %s : List String := [\n", name)
	for i, x := range xs {
		sep := ","
		if i == len(xs)-1 {
			sep = ""
		}
		fmt.Fprintf(&b, "  %s%s\n", leanStr(x), sep)
	}
	b.WriteString("]\n")
	return b.String()
}

func main() {
	repo := flag.String("repo", "/repo", "working tree of xelaj/mtproto")
	out := flag.String("lean", "", "Lean file to write")
	flag.Parse()
	f := parse(filepath.Join(*repo, "internal", "math", "math.go"))
	fn := findFunc(f, "SplitPQ")
	if fn == nil || fn.Body == nil {
		fmt.Fprintln(os.Stderr, "c06facts: func SplitPQ not found in internal/math/math.go")
		os.Exit(1)
	}
	w := &walker{used: map[string]bool{}}
	ast.Inspect(fn.Body, func(n ast.Node) bool {
		if id, ok := n.(*ast.Ident); ok {
			w.used[id.Name] = true
		}
		return true
	})
	sig := "func " + fn.Name.Name + strings.TrimPrefix(src(fn.Type), "func")
	w.block(1, fn.Body.List)
	lines := append(importsUsed(f, w.used), packageValues(f, w.used)...)
	lines = append(lines, sig)
	lines = append(lines, w.out...)

	var b strings.Builder
	b.WriteString("/- GENERATED on every run from the working tree of the repository by harness/cmd/c06facts\n")
	b.WriteString("   (go/parser over internal/math/math.go). Never committed. -/\n")
	b.WriteString("namespace Mtv.Gen\n\n")
	b.WriteString(leanStrList("splitPQSource", lines))
	b.WriteString("\nend Mtv.Gen\n")

	if *out == "" {
		fmt.Print(b.String())
		return
	}
	if old, err := os.ReadFile(*out); err == nil && string(old) == b.String() {
		return
	}
	if err := os.WriteFile(*out, []byte(b.String()), 0o644); err != nil {
		fmt.Fprintln(os.Stderr, "c06facts:", err)
		os.Exit(1)
	}
}
