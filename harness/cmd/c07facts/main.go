// c07facts — extracts from the working tree of xelaj/mtproto, with go/parser only, the facts the
// handshake model of C06/C07 is compared with on every run:
//
//   - hsChecks: the ordered skeleton of (*MTProto).makeAuthKey in handshake.go — every request and
//     helper call that decides how the exchange goes on, every `if` with the source text of its
//     condition and what its body does (early return / assignments / break), the fingerprint loop,
//     the type assertions, the assignments to the client state, the final return;
//   - hsWrapperAsserts: the type assertion each request wrapper in objects/methods.go applies to
//     the answer (ReqPQ, ReqDHParams, SetClientDHParams);
//   - hsServerDHParams / hsSetClientDHAnswer: constructor ids of the types implementing the two
//     answer interfaces (objects/types.go);
//   - hsServiceCases: the case types of the switch in (*MTProto).makeRequest (mtproto.go);
//   - hsCreateConn: the skeleton of (*MTProto).CreateConnection (mtproto.go), same notation as hsChecks: what is
//     started before the key exchange and what happens to it when the exchange fails;
//   - hsReaderCases: the cases of `switch err` in the routine started by startReadingResponses: what the reading
//     routine does when a read ends (nil / context.Canceled / io.EOF / anything else);
//   - hsKeyAfterHangup: the skeleton of (*MTProto).keyAfterHangup, which the io.EOF case asks before it reconnects.
//
// Output: a Lean file (namespace Mtv.Gen), written only when its content changes.
package main

import (
	"bytes"
	"flag"
	"fmt"
	"go/ast"
	"go/parser"
	"go/printer"
	"go/token"
	"os"
	"path/filepath"
	"regexp"
	"sort"
	"strconv"
	"strings"
)

var fset = token.NewFileSet()

func src(n ast.Node) string {
	var b bytes.Buffer
	_ = printer.Fprint(&b, fset, n)
	return strings.Join(strings.Fields(b.String()), " ")
}

var interesting = regexp.MustCompile(`^(m\.\w+|math\.(SplitPQ|DoRSAencrypt|MakeGAB)|ige\.\w+|tl\.(Marshal|DecodeUnknownObject)|check|decryptDHAnswer)$`)

func tracked(lhs string) bool { return strings.HasPrefix(lhs, "m.") || lhs == "found" }

// summary of the statements of an if / range body
func bodySummary(stmts []ast.Stmt) string {
	var parts []string
	for _, s := range stmts {
		switch st := s.(type) {
		case *ast.ReturnStmt:
			if len(st.Results) == 1 && src(st.Results[0]) != "nil" {
				parts = append(parts, "return error")
			} else {
				parts = append(parts, "return "+joinExprs(st.Results))
			}
		case *ast.AssignStmt:
			parts = append(parts, "set "+joinExprs(st.Lhs)+" = "+joinExprs(st.Rhs))
		case *ast.BranchStmt:
			parts = append(parts, strings.ToLower(st.Tok.String()))
		case *ast.IfStmt:
			parts = append(parts, ifSummary(st))
		case *ast.ExprStmt:
			parts = append(parts, "do "+src(st.X))
		default:
			parts = append(parts, "stmt "+src(s))
		}
	}
	return strings.Join(parts, "; ")
}

func joinExprs(xs []ast.Expr) string {
	var p []string
	for _, x := range xs {
		p = append(p, src(x))
	}
	return strings.Join(p, ", ")
}

func ifSummary(st *ast.IfStmt) string {
	c := src(st.Cond)
	if st.Init != nil {
		c = src(st.Init) + "; " + c
	}
	out := "if " + c + ": " + bodySummary(st.Body.List)
	if st.Else != nil {
		switch e := st.Else.(type) {
		case *ast.BlockStmt:
			out += " else: " + bodySummary(e.List)
		case *ast.IfStmt:
			out += " else " + ifSummary(e)
		}
	}
	return out
}

func callee(x ast.Expr) (string, bool) {
	c, ok := x.(*ast.CallExpr)
	if !ok {
		return "", false
	}
	return src(c.Fun), true
}

func skeleton(fn *ast.FuncDecl) []string {
	var out []string
	for _, s := range fn.Body.List {
		switch st := s.(type) {
		case *ast.AssignStmt:
			if len(st.Rhs) == 1 {
				if ta, ok := st.Rhs[0].(*ast.TypeAssertExpr); ok {
					out = append(out, "assert "+src(ta))
					continue
				}
				if name, ok := callee(st.Rhs[0]); ok && interesting.MatchString(name) {
					out = append(out, "call "+name)
					continue
				}
			}
			if len(st.Lhs) == 1 && tracked(src(st.Lhs[0])) {
				out = append(out, "set "+src(st.Lhs[0])+" = "+joinExprs(st.Rhs))
			}
		case *ast.ExprStmt:
			if name, ok := callee(st.X); ok && interesting.MatchString(name) {
				out = append(out, "call "+name)
			}
		case *ast.IfStmt:
			out = append(out, ifSummary(st))
		case *ast.RangeStmt:
			out = append(out, "range "+src(st.X)+": "+bodySummary(st.Body.List))
		case *ast.ForStmt:
			out = append(out, "for "+src(st.Cond)+": "+bodySummary(st.Body.List))
		case *ast.ReturnStmt:
			// the final return: `return errors.Wrap(err, "saving session")` is nil when err is nil
			out = append(out, "return")
		case *ast.GoStmt, *ast.DeferStmt, *ast.SwitchStmt, *ast.TypeSwitchStmt, *ast.SelectStmt:
			out = append(out, "stmt "+src(s))
		}
	}
	return out
}

func parse(path string) *ast.File {
	f, err := parser.ParseFile(fset, path, nil, 0)
	if err != nil {
		fmt.Fprintln(os.Stderr, "c07facts:", err)
		os.Exit(1)
	}
	return f
}

func findFunc(f *ast.File, recv, name string) *ast.FuncDecl {
	for _, d := range f.Decls {
		fd, ok := d.(*ast.FuncDecl)
		if !ok || fd.Name.Name != name {
			continue
		}
		r := ""
		if fd.Recv != nil && len(fd.Recv.List) == 1 {
			r = src(fd.Recv.List[0].Type)
		}
		if r == recv {
			return fd
		}
	}
	return nil
}

// implementers: constructor ids of the types with a method named marker
func implementers(f *ast.File, marker string) []uint64 {
	crc := map[string]uint64{}
	var types []string
	for _, d := range f.Decls {
		fd, ok := d.(*ast.FuncDecl)
		if !ok || fd.Recv == nil || len(fd.Recv.List) != 1 {
			continue
		}
		r := strings.TrimPrefix(src(fd.Recv.List[0].Type), "*")
		switch fd.Name.Name {
		case marker:
			types = append(types, r)
		case "CRC":
			if fd.Body != nil && len(fd.Body.List) == 1 {
				if rs, ok := fd.Body.List[0].(*ast.ReturnStmt); ok && len(rs.Results) == 1 {
					if lit, ok := rs.Results[0].(*ast.BasicLit); ok {
						if v, err := strconv.ParseUint(lit.Value, 0, 64); err == nil {
							crc[r] = v
						}
					}
				}
			}
		}
	}
	var out []uint64
	for _, t := range types {
		if v, ok := crc[t]; ok {
			out = append(out, v)
		} else {
			out = append(out, 0)
		}
	}
	sort.Slice(out, func(i, j int) bool { return out[i] < out[j] })
	return out
}

// wrapperAssert: the first type assertion on `data` in a request wrapper
func wrapperAssert(f *ast.File, name string) string {
	fd := findFunc(f, "", name)
	if fd == nil {
		return name + ": missing"
	}
	res := name + ": none"
	ast.Inspect(fd.Body, func(n ast.Node) bool {
		if ta, ok := n.(*ast.TypeAssertExpr); ok && res == name+": none" {
			res = name + ": " + src(ta)
		}
		return true
	})
	return res
}

func serviceCases(f *ast.File) []string {
	fd := findFunc(f, "*MTProto", "makeRequest")
	var out []string
	if fd == nil {
		return []string{"missing"}
	}
	ast.Inspect(fd.Body, func(n ast.Node) bool {
		ts, ok := n.(*ast.TypeSwitchStmt)
		if !ok {
			return true
		}
		for _, c := range ts.Body.List {
			cc := c.(*ast.CaseClause)
			last := "falls through to return"
			if len(cc.Body) > 0 {
				if rs, ok := cc.Body[len(cc.Body)-1].(*ast.ReturnStmt); ok {
					last = "return " + joinExprs(rs.Results)
				}
			}
			out = append(out, "case "+joinExprs(cc.List)+": "+last)
		}
		return false
	})
	return out
}

// readerCases: what the routine started by startReadingResponses does with the result of a read: the `if`
// statements between the read and the `switch err` (entries "before switch: ..."), then the cases of the switch
func readerCases(f *ast.File) []string {
	fd := findFunc(f, "*MTProto", "startReadingResponses")
	if fd == nil {
		return []string{"missing"}
	}
	var out []string
	found := false
	ast.Inspect(fd.Body, func(n ast.Node) bool {
		if found {
			return false
		}
		var list []ast.Stmt
		switch b := n.(type) {
		case *ast.BlockStmt:
			list = b.List
		case *ast.CommClause:
			list = b.Body
		case *ast.CaseClause:
			list = b.Body
		default:
			return true
		}
		for i, st := range list {
			sw, ok := st.(*ast.SwitchStmt)
			if !ok || sw.Tag == nil || src(sw.Tag) != "err" {
				continue
			}
			found = true
			for _, pre := range list[:i] {
				if is, ok := pre.(*ast.IfStmt); ok {
					out = append(out, "before switch: "+ifSummary(is))
				}
			}
			for _, c := range sw.Body.List {
				cc := c.(*ast.CaseClause)
				head := "default"
				if len(cc.List) > 0 {
					head = "case " + joinExprs(cc.List)
				}
				out = append(out, head+": "+bodySummary(cc.Body))
			}
			return false
		}
		return true
	})
	if !found {
		return []string{"no switch err"}
	}
	return out
}

func leanStr(s string) string {
	var b strings.Builder
	b.WriteByte('"')
	for _, r := range s {
		switch {
		case r == '"':
			b.WriteString(`\"`)
		case r == '\\':
			b.WriteString(`\\`)
		case r < 0x20 || r == 0x7f:
			fmt.Fprintf(&b, `\x%02x`, r)
		default:
			b.WriteRune(r)
		}
	}
	b.WriteByte('"')
	return b.String()
}

func leanStrList(name string, xs []string) string {
	var b strings.Builder
	fmt.Fprintf(&b, "def %s : List String := [\n", name)
	for i, x := range xs {
		sep := ","
		if i == len(xs)-1 {
			sep = ""
		}
		fmt.Fprintf(&b, "  %s%s\n", leanStr(x), sep)
	}
	b.WriteString("]\n")
	return b.String()
}

func leanNatList(name string, xs []uint64) string {
	var p []string
	for _, x := range xs {
		p = append(p, fmt.Sprintf("0x%08x", x))
	}
	return fmt.Sprintf("def %s : List Nat := [%s]\n", name, strings.Join(p, ", "))
}

func main() {
	repo := flag.String("repo", "/repo", "working tree of xelaj/mtproto")
	out := flag.String("lean", "", "Lean file to write")
	flag.Parse()
	hs := parse(filepath.Join(*repo, "handshake.go"))
	fn := findFunc(hs, "*MTProto", "makeAuthKey")
	if fn == nil {
		fmt.Fprintln(os.Stderr, "c07facts: makeAuthKey not found")
		os.Exit(1)
	}
	methods := parse(filepath.Join(*repo, "internal", "mtproto", "objects", "methods.go"))
	types := parse(filepath.Join(*repo, "internal", "mtproto", "objects", "types.go"))
	mt := parse(filepath.Join(*repo, "mtproto.go"))

	var b strings.Builder
	b.WriteString("/- GENERATED on every run from the working tree of the repository by harness/cmd/c07facts\n")
	b.WriteString("   (go/parser over handshake.go, objects/methods.go, objects/types.go, mtproto.go). Never committed. -/\n")
	b.WriteString("namespace Mtv.Gen\n\n")
	b.WriteString(leanStrList("hsChecks", skeleton(fn)))
	b.WriteString("\n")
	b.WriteString(leanStrList("hsWrapperAsserts", []string{
		wrapperAssert(methods, "ReqPQ"), wrapperAssert(methods, "ReqDHParams"), wrapperAssert(methods, "SetClientDHParams")}))
	b.WriteString("\n")
	b.WriteString(leanNatList("hsServerDHParams", implementers(types, "ImplementsServerDHParams")))
	b.WriteString(leanNatList("hsSetClientDHAnswer", implementers(types, "ImplementsSetClientDHParamsAnswer")))
	b.WriteString("\n")
	b.WriteString(leanStrList("hsServiceCases", serviceCases(mt)))
	b.WriteString("\n")
	// since the connection is replaced under connMutex (D31) the work of CreateConnection is in createConnection
	cc := findFunc(mt, "*MTProto", "createConnection")
	if cc == nil {
		cc = findFunc(mt, "*MTProto", "CreateConnection")
	}
	if cc != nil {
		b.WriteString(leanStrList("hsCreateConn", skeleton(cc)))
	} else {
		b.WriteString(leanStrList("hsCreateConn", []string{"missing"}))
	}
	b.WriteString("\n")
	b.WriteString(leanStrList("hsReaderCases", readerCases(mt)))
	b.WriteString("\n")
	if kh := findFunc(mt, "*MTProto", "keyAfterHangup"); kh != nil {
		b.WriteString(leanStrList("hsKeyAfterHangup", skeleton(kh)))
	} else {
		b.WriteString(leanStrList("hsKeyAfterHangup", []string{"missing"}))
	}
	b.WriteString("\nend Mtv.Gen\n")

	if *out == "" {
		fmt.Print(b.String())
		return
	}
	if old, err := os.ReadFile(*out); err == nil && string(old) == b.String() {
		return
	}
	if err := os.WriteFile(*out, []byte(b.String()), 0o644); err != nil {
		fmt.Fprintln(os.Stderr, "c07facts:", err)
		os.Exit(1)
	}
}
