// c13fields writes lean/Mtv/Gen/RegistryFields.lean: every field of every registered struct type of the
// working tree with its struct tag as written (reflection through the verif-tagged hook; see
// reg.LeanFieldsSource). Used by C13 only.
//
// usage: c13fields <out.lean>
package main

import (
	"os"

	"github.com/xelaj/mtproto/verifharness/internal/reg"
)

func main() {
	src := reg.LeanFieldsSource()
	old, err := os.ReadFile(os.Args[1])
	if err == nil && string(old) == src {
		return // unchanged: keep the file (and Lake's cache) as is
	}
	if err := os.WriteFile(os.Args[1], []byte(src), 0o644); err != nil {
		panic(err)
	}
}
