// c09facts — extracts from the working tree of xelaj/mtproto, with go/parser only, the ordered
// statement skeleton of the client's send and receive paths, the facts the client machine of
// C09/C10/C11/C16 is compared with on every run:
//
//   - sendPacket, writeRPCResponse (network.go); makeRequest, processResponse (mtproto.go): the
//     statements that matter, in source order (depth-first walk of the body);
//   - dispatchResponse (mtproto.go): an outline (label, the case types in source order, the final
//     return) and one list per case of its type switch ("dispatchResponse/<case types>").
//
// The walk is generic: it emits a tag whenever a statement or expression matches one of the
// recognised patterns, prefixed with the context it is in:
//
//	m.X.Y(..)                      "<y> X"            (lock seqNoMutex, add expectedTypes, get responseChannels,
//	                                                   delete responseChannels, ...; m.transport.WriteMsg: "write")
//	m.F(..)                        "call F"           (+ the composite literal types among the arguments)
//	utils.GenerateMessageId()      "genid"
//	tl.DecodeUnknownObject(..)     "decode"
//	tl.UnwrapNativeTypes(..)       "unwrap"
//	x.(T)                          "assert x.(T)"
//	c <- v                         "chan send"
//	<-c                            "chan recv"
//	m.f = e, m.f += e, m.f++       "set m.f = e", ... (also any assignment reading m.seqNo, m.lastMsgID,
//	                                                   m.serverSalt, m.containerDepth)
//	return a, b                    "return a, b"      (calls abbreviated to f(..))
//	goto L / break / continue      "goto L" / "break" / "continue"
//	range X                        "range X"
//	case T1, T2 / default          "case T1, T2" / "default"
//
// context: "[cond]" inside the body of `if cond` ("[init; cond]" with an init statement),
// "[not (cond)]" inside its else, "[range X]", "[for cond]", "[case ..]" / "[default]", "[select]",
// "[func]" inside a function literal, "defer" / "go" for deferred / spawned calls (the body of a
// deferred or spawned function literal is walked). Arguments are scanned before the call they
// belong to, the right-hand side of an assignment before the assignment.
//
// Output: a Lean file (namespace Mtv.Gen.ClientSkeleton), written only when its content changes.
package main

import (
	"bytes"
	"flag"
	"fmt"
	"go/ast"
	"go/parser"
	"go/printer"
	"go/token"
	"os"
	"path/filepath"
	"regexp"
	"strings"
)

var fset = token.NewFileSet()

func die(format string, a ...any) {
	fmt.Fprintf(os.Stderr, "c09facts: "+format+"\n", a...)
	os.Exit(1)
}

func src(n ast.Node) string {
	var b bytes.Buffer
	_ = printer.Fprint(&b, fset, n)
	return strings.Join(strings.Fields(b.String()), " ")
}

func joinExprs(xs []ast.Expr) string {
	var p []string
	for _, x := range xs {
		p = append(p, src(x))
	}
	return strings.Join(p, ", ")
}

var (
	reMember  = regexp.MustCompile(`^m\.(\w+)\.(\w+)$`)
	reMethod  = regexp.MustCompile(`^m\.(\w+)$`)
	reField   = regexp.MustCompile(`^m\.\w+$`)
	reTracked = regexp.MustCompile(`\bm\.(seqNo|lastMsgID|serverSalt|containerDepth)\b`)
)

// calls outside the receiver that matter
var plainCalls = map[string]string{
	"utils.GenerateMessageId": "genid",
	"tl.DecodeUnknownObject":  "decode",
	"tl.UnwrapNativeTypes":    "unwrap",
}

type walker struct {
	out []string
	// outline: the bodies of the cases of the first type switch are not walked (dispatchResponse)
	outline bool
}

func (w *walker) emit(ctx []string, tag string) {
	w.out = append(w.out, strings.Join(append(append([]string{}, ctx...), tag), " "))
}

func with(ctx []string, c string) []string {
	return append(append([]string{}, ctx...), c)
}

// composite literal types among the arguments of a call: &objects.MsgsAck{..} -> "&objects.MsgsAck"
func litArgs(c *ast.CallExpr) string {
	var p []string
	for _, a := range c.Args {
		x := a
		amp := ""
		if u, ok := x.(*ast.UnaryExpr); ok && u.Op == token.AND {
			x, amp = u.X, "&"
		}
		if cl, ok := x.(*ast.CompositeLit); ok && cl.Type != nil {
			p = append(p, amp+src(cl.Type))
		}
	}
	if len(p) == 0 {
		return ""
	}
	return " " + strings.Join(p, " ")
}

func (w *walker) callTag(ctx []string, c *ast.CallExpr) {
	name := src(c.Fun)
	if t, ok := plainCalls[name]; ok {
		w.emit(ctx, t)
		return
	}
	if mm := reMember.FindStringSubmatch(name); mm != nil {
		if mm[1] == "transport" && mm[2] == "WriteMsg" {
			w.emit(ctx, "write")
			return
		}
		w.emit(ctx, strings.ToLower(mm[2])+" "+mm[1])
		return
	}
	if mm := reMethod.FindStringSubmatch(name); mm != nil {
		w.emit(ctx, "call "+mm[1]+litArgs(c))
	}
}

// expr scans an expression in evaluation order: operands and arguments before the call
func (w *walker) expr(ctx []string, e ast.Node) {
	if e == nil {
		return
	}
	ast.Inspect(e, func(n ast.Node) bool {
		switch x := n.(type) {
		case *ast.CallExpr:
			if fl, ok := x.Fun.(*ast.FuncLit); ok {
				for _, a := range x.Args {
					w.expr(ctx, a)
				}
				w.stmts(with(ctx, "[func]"), fl.Body.List)
				return false
			}
			w.expr(ctx, x.Fun)
			for _, a := range x.Args {
				w.expr(ctx, a)
			}
			w.callTag(ctx, x)
			return false
		case *ast.UnaryExpr:
			if x.Op == token.ARROW {
				w.expr(ctx, x.X)
				w.emit(ctx, "chan recv")
				return false
			}
		case *ast.TypeAssertExpr:
			if x.Type != nil {
				w.expr(ctx, x.X)
				w.emit(ctx, "assert "+src(x))
				return false
			}
		case *ast.FuncLit:
			w.stmts(with(ctx, "[func]"), x.Body.List)
			return false
		}
		return true
	})
}

// result of a return statement, calls abbreviated
func retSummary(rs *ast.ReturnStmt) string {
	if len(rs.Results) == 0 {
		return "return"
	}
	var p []string
	for _, r := range rs.Results {
		if c, ok := r.(*ast.CallExpr); ok {
			if len(c.Args) == 0 {
				p = append(p, src(c.Fun)+"()")
			} else {
				p = append(p, src(c.Fun)+"(..)")
			}
			continue
		}
		p = append(p, src(r))
	}
	return "return " + strings.Join(p, ", ")
}

// deferred / spawned call: the body of a function literal is walked
func (w *walker) later(ctx []string, kw string, c *ast.CallExpr) {
	ctx = with(ctx, kw)
	if fl, ok := c.Fun.(*ast.FuncLit); ok {
		for _, a := range c.Args {
			w.expr(ctx, a)
		}
		w.stmts(ctx, fl.Body.List)
		return
	}
	w.expr(ctx, c)
}

func condText(st *ast.IfStmt) string {
	c := src(st.Cond)
	if st.Init != nil {
		c = src(st.Init) + "; " + c
	}
	return c
}

func caseText(cc *ast.CaseClause) string {
	if cc.List == nil {
		return "default"
	}
	return "case " + joinExprs(cc.List)
}

func (w *walker) stmts(ctx []string, list []ast.Stmt) {
	for _, s := range list {
		w.stmt(ctx, s)
	}
}

func (w *walker) stmt(ctx []string, s ast.Stmt) {
	switch st := s.(type) {
	case nil:
	case *ast.ExprStmt:
		w.expr(ctx, st.X)
	case *ast.AssignStmt:
		for _, r := range st.Rhs {
			w.expr(ctx, r)
		}
		for _, l := range st.Lhs {
			w.expr(ctx, l)
		}
		field := false
		for _, l := range st.Lhs {
			if reField.MatchString(src(l)) {
				field = true
			}
		}
		if field || reTracked.MatchString(joinExprs(st.Rhs)) {
			w.emit(ctx, "set "+joinExprs(st.Lhs)+" "+st.Tok.String()+" "+joinExprs(st.Rhs))
		}
	case *ast.IncDecStmt:
		w.expr(ctx, st.X)
		if reField.MatchString(src(st.X)) {
			w.emit(ctx, "set "+src(st.X)+st.Tok.String())
		}
	case *ast.DeclStmt:
		gd, ok := st.Decl.(*ast.GenDecl)
		if !ok {
			return
		}
		for _, sp := range gd.Specs {
			vs, ok := sp.(*ast.ValueSpec)
			if !ok {
				continue
			}
			for _, v := range vs.Values {
				w.expr(ctx, v)
			}
			if len(vs.Values) > 0 && reTracked.MatchString(joinExprs(vs.Values)) {
				var names []string
				for _, n := range vs.Names {
					names = append(names, n.Name)
				}
				w.emit(ctx, "set "+strings.Join(names, ", ")+" = "+joinExprs(vs.Values))
			}
		}
	case *ast.SendStmt:
		w.expr(ctx, st.Chan)
		w.expr(ctx, st.Value)
		w.emit(ctx, "chan send")
	case *ast.ReturnStmt:
		for _, r := range st.Results {
			w.expr(ctx, r)
		}
		w.emit(ctx, retSummary(st))
	case *ast.DeferStmt:
		w.later(ctx, "defer", st.Call)
	case *ast.GoStmt:
		w.later(ctx, "go", st.Call)
	case *ast.BranchStmt:
		t := strings.ToLower(st.Tok.String())
		if st.Label != nil {
			t += " " + st.Label.Name
		}
		w.emit(ctx, t)
	case *ast.LabeledStmt:
		w.emit(ctx, "label "+st.Label.Name)
		w.stmt(ctx, st.Stmt)
	case *ast.BlockStmt:
		w.stmts(ctx, st.List)
	case *ast.IfStmt:
		w.stmt(ctx, st.Init)
		w.expr(ctx, st.Cond)
		c := condText(st)
		w.stmts(with(ctx, "["+c+"]"), st.Body.List)
		if st.Else != nil {
			w.stmt(with(ctx, "[not ("+c+")]"), st.Else)
		}
	case *ast.RangeStmt:
		w.expr(ctx, st.X)
		w.emit(ctx, "range "+src(st.X))
		w.stmts(with(ctx, "[range "+src(st.X)+"]"), st.Body.List)
	case *ast.ForStmt:
		w.stmt(ctx, st.Init)
		c := "for"
		if st.Cond != nil {
			w.expr(ctx, st.Cond)
			c = "for " + src(st.Cond)
		}
		in := with(ctx, "["+c+"]")
		w.stmts(in, st.Body.List)
		w.stmt(in, st.Post)
	case *ast.SwitchStmt:
		w.stmt(ctx, st.Init)
		w.expr(ctx, st.Tag)
		for _, c := range st.Body.List {
			cc := c.(*ast.CaseClause)
			for _, e := range cc.List {
				w.expr(ctx, e)
			}
			w.emit(ctx, caseText(cc))
			w.stmts(with(ctx, "["+caseText(cc)+"]"), cc.Body)
		}
	case *ast.TypeSwitchStmt:
		w.stmt(ctx, st.Init)
		w.stmt(ctx, st.Assign)
		outline := w.outline
		w.outline = false
		for _, c := range st.Body.List {
			cc := c.(*ast.CaseClause)
			w.emit(ctx, caseText(cc))
			if !outline {
				w.stmts(with(ctx, "["+caseText(cc)+"]"), cc.Body)
			}
		}
	case *ast.SelectStmt:
		for _, c := range st.Body.List {
			cc := c.(*ast.CommClause)
			in := with(ctx, "[select]")
			w.stmt(in, cc.Comm)
			w.stmts(in, cc.Body)
		}
	}
}

func parse(path string) *ast.File {
	f, err := parser.ParseFile(fset, path, nil, 0)
	if err != nil {
		die("%v", err)
	}
	return f
}

func findFunc(f *ast.File, recv, name string) *ast.FuncDecl {
	for _, d := range f.Decls {
		fd, ok := d.(*ast.FuncDecl)
		if !ok || fd.Name.Name != name || fd.Body == nil {
			continue
		}
		r := ""
		if fd.Recv != nil && len(fd.Recv.List) == 1 {
			r = src(fd.Recv.List[0].Type)
		}
		if r == recv {
			return fd
		}
	}
	return nil
}

func mustFunc(f *ast.File, file, name string) *ast.FuncDecl {
	fd := findFunc(f, "*MTProto", name)
	if fd == nil {
		die("func (m *MTProto) %s not found in %s", name, file)
	}
	if fd.Recv.List[0].Names == nil || fd.Recv.List[0].Names[0].Name != "m" {
		die("the receiver of %s is not named m", name)
	}
	return fd
}

// the first type switch among the statements of a body (possibly labeled), not nested deeper
func topTypeSwitch(fd *ast.FuncDecl) *ast.TypeSwitchStmt {
	for _, s := range fd.Body.List {
		if l, ok := s.(*ast.LabeledStmt); ok {
			s = l.Stmt
		}
		if ts, ok := s.(*ast.TypeSwitchStmt); ok {
			return ts
		}
	}
	return nil
}

// short name of the types of a case: *objects.Pong, *objects.MsgsAck -> "Pong, MsgsAck"
func caseName(cc *ast.CaseClause) string {
	if cc.List == nil {
		return "default"
	}
	var p []string
	for _, e := range cc.List {
		p = append(p, shortType(src(e)))
	}
	return strings.Join(p, ", ")
}

func shortType(s string) string {
	s = strings.TrimPrefix(s, "*")
	return strings.TrimPrefix(s, "objects.")
}

func requireCases(fn string, ts *ast.TypeSwitchStmt, want []string) {
	have := map[string]int{}
	for _, c := range ts.Body.List {
		cc := c.(*ast.CaseClause)
		if cc.List == nil {
			have["default"]++
		}
		for _, e := range cc.List {
			have[shortType(src(e))]++
		}
	}
	for _, t := range want {
		if have[t] == 0 {
			die("%s: no case for %s in the type switch", fn, t)
		}
		if have[t] > 1 {
			die("%s: more than one case for %s in the type switch", fn, t)
		}
	}
}

type entry struct {
	name string
	tags []string
}

func walkFunc(fd *ast.FuncDecl, outline bool) []string {
	w := &walker{outline: outline}
	w.stmts(nil, fd.Body.List)
	return w.out
}

func leanStr(s string) string {
	var b strings.Builder
	b.WriteByte('"')
	for _, r := range s {
		switch {
		case r == '"':
			b.WriteString(`\"`)
		case r == '\\':
			b.WriteString(`\\`)
		case r < 0x20 || r == 0x7f:
			fmt.Fprintf(&b, `\x%02x`, r)
		default:
			b.WriteRune(r)
		}
	}
	b.WriteByte('"')
	return b.String()
}

func leanList(indent string, xs []string) string {
	if len(xs) == 0 {
		return "[]"
	}
	var b strings.Builder
	b.WriteString("[\n")
	for i, x := range xs {
		sep := ","
		if i == len(xs)-1 {
			sep = ""
		}
		fmt.Fprintf(&b, "%s  %s%s\n", indent, leanStr(x), sep)
	}
	b.WriteString(indent + "]")
	return b.String()
}

func main() {
	repo := flag.String("repo", "/repo", "working tree of xelaj/mtproto")
	out := flag.String("lean", "", "Lean file to write")
	flag.Parse()
	nw := parse(filepath.Join(*repo, "network.go"))
	mt := parse(filepath.Join(*repo, "mtproto.go"))

	sendPacket := mustFunc(nw, "network.go", "sendPacket")
	writeRPC := mustFunc(nw, "network.go", "writeRPCResponse")
	makeRequest := mustFunc(mt, "mtproto.go", "makeRequest")
	processResponse := mustFunc(mt, "mtproto.go", "processResponse")
	dispatch := mustFunc(mt, "mtproto.go", "dispatchResponse")

	mrSwitch := topTypeSwitch(makeRequest)
	if mrSwitch == nil {
		die("makeRequest: no type switch on the response")
	}
	requireCases("makeRequest", mrSwitch, []string{"RpcError", "errorSessionConfigsChanged", "BadMsgError"})
	dsSwitch := topTypeSwitch(dispatch)
	if dsSwitch == nil {
		die("dispatchResponse: no type switch on the message")
	}
	requireCases("dispatchResponse", dsSwitch, []string{"MessageContainer", "BadServerSalt", "NewSessionCreated",
		"Pong", "MsgsAck", "BadMsgNotification", "RpcResult", "GzipPacked", "default"})

	entries := []entry{
		{"sendPacket", walkFunc(sendPacket, false)},
		{"writeRPCResponse", walkFunc(writeRPC, false)},
		{"makeRequest", walkFunc(makeRequest, false)},
		{"processResponse", walkFunc(processResponse, false)},
		{"dispatchResponse", walkFunc(dispatch, true)},
	}
	var caseNames []string
	for _, c := range dsSwitch.Body.List {
		cc := c.(*ast.CaseClause)
		w := &walker{}
		w.stmts(nil, cc.Body)
		caseNames = append(caseNames, caseName(cc))
		entries = append(entries, entry{"dispatchResponse/" + caseName(cc), w.out})
	}

	var b strings.Builder
	b.WriteString("/- GENERATED on every run from the working tree of the repository by harness/cmd/c09facts\n")
	b.WriteString("   (go/parser over network.go, mtproto.go): the ordered statement skeleton of sendPacket,\n")
	b.WriteString("   writeRPCResponse, makeRequest, processResponse, dispatchResponse. Never committed. -/\n")
	b.WriteString("namespace Mtv.Gen.ClientSkeleton\n\n")
	for _, e := range entries[:5] {
		fmt.Fprintf(&b, "def %s : List String := %s\n\n", e.name, leanList("", e.tags))
	}
	fmt.Fprintf(&b, "def dispatchCases : List String := %s\n\n", leanList("", caseNames))
	b.WriteString("def skeleton : List (String × List String) := [\n")
	for i, e := range entries {
		sep := ","
		if i == len(entries)-1 {
			sep = ""
		}
		fmt.Fprintf(&b, "  (%s, %s)%s\n", leanStr(e.name), leanList("  ", e.tags), sep)
	}
	b.WriteString("]\n")
	b.WriteString("\nend Mtv.Gen.ClientSkeleton\n")

	if *out == "" {
		fmt.Print(b.String())
		return
	}
	if old, err := os.ReadFile(*out); err == nil && string(old) == b.String() {
		return
	}
	if err := os.WriteFile(*out, []byte(b.String()), 0o644); err != nil {
		die("%v", err)
	}
}
