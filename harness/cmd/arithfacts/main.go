// arithfacts — translates, with go/parser only, the straight-line integer arithmetic of a few functions
// of the working tree of xelaj/mtproto into Lean 4 definitions over `BitVec 64` (Go's int / int64 on the
// platforms the library is built for) — the code AS WRITTEN, operator by operator:
//
//	+  -  *        BitVec + - *            (wrap-around, as Go)
//	/  %           BitVec.sdiv, BitVec.srem (truncated signed division, as Go)
//	<<  >>         <<< (constant count), BitVec.sshiftRight (arithmetic, as Go for signed operands)
//	&  |  ^  &^    &&& ||| ^^^  and  x &&& ~~~y
//	-x  ^x         -x, ~~~x
//	== != < <= > >=   decide (=) / BitVec.slt / BitVec.sle   (Bool)
//	&& || !        && || !
//	byte(x)        BitVec.setWidth 8 x   (only as the outermost operation of a target)
//	int(x) int64(x) identity on 64-bit operands
//	literals       n#64; untyped constant expressions are translated like any other expression
//	pkg.Const      the literal value of the constant, read from the package's sources in the tree
//
// Everything the translator cannot express — a call (`time.Now().UnixNano()`, `len(msg)`), a field of an
// argument (`msg.MsgID`) — becomes a PARAMETER of the generated definition, named after its source text.
// A target names a function and a variable (or `return`): the definition is the chain of `const` / `:=` / `=`
// statements of the function body, in source order, that the value depends on, closed by the value itself.
// Theorems in Mtv/Props/Arith.lean relate these definitions to the hand-written models over Nat; they are
// re-checked by the kernel on every run, so an edit of the arithmetic in /repo changes the definition and
// must still satisfy them.
//
// Output: a Lean file (namespace Mtv.Gen.Arith), written only when its content changes.
package main

import (
	"bytes"
	"flag"
	"fmt"
	"go/ast"
	"go/parser"
	"go/printer"
	"go/token"
	"os"
	"path/filepath"
	"regexp"
	"sort"
	"strconv"
	"strings"
)

var fset = token.NewFileSet()
var repo string
var width = 64 // width of the integers of the target being translated (int, int64: 64; int32: 32)

func die(format string, a ...any) {
	fmt.Fprintf(os.Stderr, "arithfacts: "+format+"\n", a...)
	os.Exit(1)
}

func src(n ast.Node) string {
	var b bytes.Buffer
	printer.Fprint(&b, fset, n)
	return strings.Join(strings.Fields(b.String()), " ")
}

type target struct {
	lean     string // name of the Lean definition
	file     string // path below the repository root
	fn       string // function (or method) name
	variable string // the variable whose value is wanted; "return" for the function's (single) return value
	pick     string // "" the right-hand side itself; "make2" the length argument of make([]T, n); "arg:<f>:<k>" the first argument of the k-th call of method/function f in the body (variable is ignored)
	bits     int    // 0 = 64; 32 for int32 arithmetic
	doc      string
}

var targets = []target{
	{"generateMessageId", "internal/utils/utils.go", "GenerateMessageId", "return", "", 0,
		"utils.GenerateMessageId, the clock reading as a parameter"},
	{"encryptPaddedLen", "internal/aes_ige/aes.go", "Encrypt", "data", "make2", 0,
		"aes_ige.Encrypt: length of the zero-padded plaintext buffer"},
	{"tempNeedToAdd", "internal/aes_ige/aes.go", "EncryptMessageWithTempKeys", "needToAdd", "", 0,
		"aes_ige.EncryptMessageWithTempKeys: number of random padding bytes"},
	{"abridgedWords", "internal/mode/arbiged.go", "WriteMsg", "msgLength", "", 0,
		"abridged WriteMsg: the length in words"},
	{"abridgedB1", "internal/mode/arbiged.go", "WriteMsg", "b1", "", 0, "abridged WriteMsg: first length byte of the long form"},
	{"abridgedB2", "internal/mode/arbiged.go", "WriteMsg", "b2", "", 0, "abridged WriteMsg: second length byte of the long form"},
	{"abridgedB3", "internal/mode/arbiged.go", "WriteMsg", "b3", "", 0, "abridged WriteMsg: third length byte of the long form"},
	{"encryptedParityMod", "internal/mtproto/messages/messages.go", "DeserializeEncrypted", "mod", "", 0,
		"messages.DeserializeEncrypted: msg_id & 3, the value the server-parity test looks at"},
	{"sendPacketMsgId", "network.go", "sendPacket", "msgID", "final", 0,
		"sendPacket: the msg_id written, after the bump past the last one (`if msgID <= m.lastMsgID { msgID = m.lastMsgID + 4 }`)"},
	{"seqNoContent", "internal/mtproto/messages/messages.go", "serializePacket", "", "arg:PutInt:1", 32,
		"serializePacket: the seq_no written for a message that requires acknowledgement"},
	{"seqNoService", "internal/mtproto/messages/messages.go", "serializePacket", "", "arg:PutInt:2", 32,
		"serializePacket: the seq_no written for a message that does not"},
}

type env struct {
	file    *ast.File
	consts  map[string]ast.Expr // constants of the function and of the file
	assigns map[string]ast.Expr // last straight-line definition of each variable before the target
	order   []string            // let-bound names in dependency order
	bound   map[string]string   // name -> Lean term
	params  []string
	pset    map[string]bool
	renamed map[string]string // names made by the translator -> the source text they stand for
}

var identRe = regexp.MustCompile(`[^A-Za-z0-9_]+`)

func (e *env) param(text string) string {
	name := strings.Trim(identRe.ReplaceAllString(text, "_"), "_")
	if name == "" || (name[0] >= '0' && name[0] <= '9') {
		name = "p_" + name
	}
	if !e.pset[name] {
		e.pset[name] = true
		e.params = append(e.params, name)
	}
	return name
}

// constant of another package of the tree: pkg.Name
func foreignConst(file *ast.File, pkg, name string) (string, bool) {
	for _, im := range file.Imports {
		p, _ := strconv.Unquote(im.Path.Value)
		local := filepath.Base(p)
		if im.Name != nil {
			local = im.Name.Name
		}
		if local != pkg || !strings.HasPrefix(p, "github.com/xelaj/mtproto/") {
			continue
		}
		dir := filepath.Join(repo, strings.TrimPrefix(p, "github.com/xelaj/mtproto/"))
		pkgs, err := parser.ParseDir(token.NewFileSet(), dir, func(fi os.FileInfo) bool { return !strings.HasSuffix(fi.Name(), "_test.go") }, 0)
		if err != nil {
			return "", false
		}
		for _, pk := range pkgs {
			for _, f := range pk.Files {
				for _, d := range f.Decls {
					gd, ok := d.(*ast.GenDecl)
					if !ok || gd.Tok != token.CONST {
						continue
					}
					for _, s := range gd.Specs {
						vs := s.(*ast.ValueSpec)
						for i, n := range vs.Names {
							if n.Name == name && i < len(vs.Values) {
								if bl, ok := vs.Values[i].(*ast.BasicLit); ok && bl.Kind == token.INT {
									return bl.Value, true
								}
							}
						}
					}
				}
			}
		}
	}
	return "", false
}

func lit(v string) string {
	n, err := strconv.ParseInt(v, 0, 64)
	if err != nil {
		die("literal %s", v)
	}
	return fmt.Sprintf("%d#%d", n, width)
}

// tr translates an integer expression; the result is a Lean term of type BitVec 64
func (e *env) tr(x ast.Expr) string {
	switch v := x.(type) {
	case *ast.ParenExpr:
		return e.tr(v.X)
	case *ast.BasicLit:
		if v.Kind == token.INT {
			return lit(v.Value)
		}
	case *ast.Ident:
		if t, ok := e.bound[v.Name]; ok {
			_ = t
			return v.Name
		}
		if c, ok := e.consts[v.Name]; ok {
			e.bind(v.Name, c)
			return v.Name
		}
		if a, ok := e.assigns[v.Name]; ok {
			e.bind(v.Name, a)
			return v.Name
		}
		return e.param(v.Name)
	case *ast.UnaryExpr:
		switch v.Op {
		case token.SUB:
			return "(-" + e.tr(v.X) + ")"
		case token.XOR:
			return "(~~~" + e.tr(v.X) + ")"
		case token.ADD:
			return e.tr(v.X)
		}
	case *ast.BinaryExpr:
		a, b := e.tr(v.X), ""
		switch v.Op {
		case token.SHL, token.SHR:
			bl, ok := v.Y.(*ast.BasicLit)
			if !ok {
				die("%s: shift by a non-literal count is not translated", src(x))
			}
			if v.Op == token.SHL {
				return "(" + a + " <<< " + bl.Value + ")"
			}
			return "(BitVec.sshiftRight " + a + " " + bl.Value + ")"
		}
		b = e.tr(v.Y)
		switch v.Op {
		case token.ADD:
			return "(" + a + " + " + b + ")"
		case token.SUB:
			return "(" + a + " - " + b + ")"
		case token.MUL:
			return "(" + a + " * " + b + ")"
		case token.QUO:
			return "(BitVec.sdiv " + a + " " + b + ")"
		case token.REM:
			return "(BitVec.srem " + a + " " + b + ")"
		case token.AND:
			return "(" + a + " &&& " + b + ")"
		case token.OR:
			return "(" + a + " ||| " + b + ")"
		case token.XOR:
			return "(" + a + " ^^^ " + b + ")"
		case token.AND_NOT:
			return "(" + a + " &&& ~~~" + b + ")"
		}
	case *condExpr:
		return "(if " + e.trBool(v.cond) + " then " + e.tr(v.then) + " else " + e.tr(v.els) + ")"
	case *ast.CallExpr:
		if id, ok := v.Fun.(*ast.Ident); ok && len(v.Args) == 1 {
			switch id.Name {
			case "int", "int64", "int32":
				return e.tr(v.Args[0])
			}
		}
		return e.param(src(x))
	case *ast.SelectorExpr:
		if id, ok := v.X.(*ast.Ident); ok {
			if val, ok := foreignConst(e.file, id.Name, v.Sel.Name); ok {
				return lit(val)
			}
		}
		return e.param(src(x))
	}
	die("%s: expression not translated (%T)", src(x), x)
	return ""
}

// condExpr: `if cond { x = then }` behind a definition of x: the value of x afterwards
type condExpr struct {
	ast.BadExpr
	cond      ast.Expr
	then, els ast.Expr
}

// trBool translates a condition (comparisons of integers, && || !)
func (e *env) trBool(x ast.Expr) string {
	switch v := x.(type) {
	case *ast.ParenExpr:
		return e.trBool(v.X)
	case *ast.UnaryExpr:
		if v.Op == token.NOT {
			return "(!" + e.trBool(v.X) + ")"
		}
	case *ast.BinaryExpr:
		switch v.Op {
		case token.LAND:
			return "(" + e.trBool(v.X) + " && " + e.trBool(v.Y) + ")"
		case token.LOR:
			return "(" + e.trBool(v.X) + " || " + e.trBool(v.Y) + ")"
		}
		a, b := e.tr(v.X), e.tr(v.Y)
		switch v.Op {
		case token.EQL:
			return "(" + a + " == " + b + ")"
		case token.NEQ:
			return "(" + a + " != " + b + ")"
		case token.LSS:
			return "(BitVec.slt " + a + " " + b + ")"
		case token.LEQ:
			return "(BitVec.sle " + a + " " + b + ")"
		case token.GTR:
			return "(BitVec.slt " + b + " " + a + ")"
		case token.GEQ:
			return "(BitVec.sle " + b + " " + a + ")"
		}
	}
	die("%s: condition not translated", src(x))
	return ""
}

func (e *env) bind(name string, x ast.Expr) {
	if _, ok := e.bound[name]; ok {
		return
	}
	e.bound[name] = "" // guards against a cycle
	if ce, ok := x.(*condExpr); ok {
		// x0 := <els>; if cond { x = then }: the earlier value gets a name of its own
		first := name + "0"
		e.bind2(first, ce.els)
		t := "(if " + e.trBool(substIdent(ce.cond, name, first)) + " then " + e.tr(substIdent(ce.then, name, first)) + " else " + first + ")"
		e.bound[name] = t
		e.order = append(e.order, name)
		return
	}
	if c, ok := x.(*ast.CallExpr); ok {
		// a call that is not a conversion: the variable itself is the parameter
		if id, ok := c.Fun.(*ast.Ident); !ok || (id.Name != "int" && id.Name != "int64" && id.Name != "byte") {
			delete(e.bound, name)
			e.pset[name] = true
			e.params = append(e.params, name)
			e.bound[name] = "param"
			return
		}
	}
	t := e.tr(x)
	e.bound[name] = t
	e.order = append(e.order, name)
}

// bind2 binds a name that does not occur in the source (the earlier value of a reassigned variable)
func (e *env) bind2(name string, x ast.Expr) {
	if c, ok := x.(*ast.CallExpr); ok {
		if id, ok := c.Fun.(*ast.Ident); !ok || (id.Name != "int" && id.Name != "int64" && id.Name != "int32") {
			e.bound[name] = "param"
			e.pset[name] = true
			e.params = append(e.params, name)
			e.renamed[name] = src(x)
			return
		}
	}
	e.bound[name] = e.tr(x)
	e.order = append(e.order, name)
}

// substIdent: x with every identifier `from` replaced by `to` (a copy; only the node kinds tr/trBool know)
func substIdent(x ast.Expr, from, to string) ast.Expr {
	switch v := x.(type) {
	case *ast.Ident:
		if v.Name == from {
			return &ast.Ident{Name: to}
		}
	case *ast.ParenExpr:
		return &ast.ParenExpr{X: substIdent(v.X, from, to)}
	case *ast.UnaryExpr:
		return &ast.UnaryExpr{Op: v.Op, X: substIdent(v.X, from, to)}
	case *ast.BinaryExpr:
		return &ast.BinaryExpr{X: substIdent(v.X, from, to), Op: v.Op, Y: substIdent(v.Y, from, to)}
	}
	return x
}

func findFunc(f *ast.File, name string) *ast.FuncDecl {
	for _, d := range f.Decls {
		if fd, ok := d.(*ast.FuncDecl); ok && fd.Name.Name == name && fd.Body != nil {
			return fd
		}
	}
	return nil
}

// oneAssign: `if cond { x = e }` with nothing else
func oneAssign(v *ast.IfStmt) (*ast.AssignStmt, bool) {
	if v.Init != nil || v.Else != nil || len(v.Body.List) != 1 {
		return nil, false
	}
	as, ok := v.Body.List[0].(*ast.AssignStmt)
	if !ok || as.Tok != token.ASSIGN || len(as.Lhs) != 1 || len(as.Rhs) != 1 {
		return nil, false
	}
	return as, true
}

func translate(t target) (string, string) {
	path := filepath.Join(repo, t.file)
	f, err := parser.ParseFile(fset, path, nil, 0)
	if err != nil {
		die("%v", err)
	}
	fd := findFunc(f, t.fn)
	if fd == nil {
		die("%s: function %s not found", t.file, t.fn)
	}
	width = 64
	if t.bits != 0 {
		width = t.bits
	}
	e := &env{file: f, consts: map[string]ast.Expr{}, assigns: map[string]ast.Expr{}, bound: map[string]string{}, pset: map[string]bool{}, renamed: map[string]string{}}
	for _, d := range f.Decls { // file-level constants
		if gd, ok := d.(*ast.GenDecl); ok && gd.Tok == token.CONST {
			for _, s := range gd.Specs {
				vs := s.(*ast.ValueSpec)
				for i, n := range vs.Names {
					if i < len(vs.Values) {
						e.consts[n.Name] = vs.Values[i]
					}
				}
			}
		}
	}
	var want ast.Expr
	var sources []string
	// straight-line walk of the body (nested blocks included, in source order) up to the target
	var walk func(list []ast.Stmt) bool
	walk = func(list []ast.Stmt) bool {
		for _, s := range list {
			switch v := s.(type) {
			case *ast.DeclStmt:
				if gd, ok := v.Decl.(*ast.GenDecl); ok && gd.Tok == token.VAR {
					for _, sp := range gd.Specs {
						vs := sp.(*ast.ValueSpec)
						for i, n := range vs.Names {
							if i < len(vs.Values) {
								e.assigns[n.Name] = vs.Values[i]
							}
						}
					}
				}
				if gd, ok := v.Decl.(*ast.GenDecl); ok && gd.Tok == token.CONST {
					for _, sp := range gd.Specs {
						vs := sp.(*ast.ValueSpec)
						for i, n := range vs.Names {
							if i < len(vs.Values) {
								e.consts[n.Name] = vs.Values[i]
							}
						}
					}
				}
			case *ast.AssignStmt:
				if len(v.Lhs) == len(v.Rhs) {
					for i, l := range v.Lhs {
						if id, ok := l.(*ast.Ident); ok {
							if id.Name == t.variable && t.pick != "final" && !strings.HasPrefix(t.pick, "arg:") {
								want = v.Rhs[i]
								sources = append(sources, src(v))
								return true
							}
							e.assigns[id.Name] = v.Rhs[i]
						}
					}
				}
			case *ast.ReturnStmt:
				if t.variable == "return" && len(v.Results) == 1 {
					want = v.Results[0]
					sources = append(sources, src(v))
					return true
				}
			case *ast.BlockStmt:
				if walk(v.List) {
					return true
				}
			case *ast.IfStmt:
				// `if cond { x = e }` (no else, no init) behind a definition of x: x becomes the conditional value
				if as, ok := oneAssign(v); ok {
					if id, ok := as.Lhs[0].(*ast.Ident); ok {
						if prev, defined := e.assigns[id.Name]; defined {
							e.assigns[id.Name] = &condExpr{cond: v.Cond, then: as.Rhs[0], els: prev}
							sources = append(sources, src(v))
							continue
						}
					}
				}
				if walk(v.Body.List) {
					return true
				}
				if eb, ok := v.Else.(*ast.BlockStmt); ok && walk(eb.List) {
					return true
				}
			}
		}
		return false
	}
	found := walk(fd.Body.List)
	if t.pick == "final" {
		// the value of the variable at the end of the straight-line part of the body
		if x, ok := e.assigns[t.variable]; ok {
			want, found = &ast.Ident{Name: t.variable}, true
			_ = x
		}
	}
	if strings.HasPrefix(t.pick, "arg:") {
		p := strings.Split(t.pick, ":")
		k, _ := strconv.Atoi(p[2])
		n := 0
		ast.Inspect(fd.Body, func(nd ast.Node) bool {
			if c, ok := nd.(*ast.CallExpr); ok && want == nil && len(c.Args) >= 1 {
				name := ""
				switch f := c.Fun.(type) {
				case *ast.Ident:
					name = f.Name
				case *ast.SelectorExpr:
					name = f.Sel.Name
				}
				if name == p[1] {
					if n++; n == k {
						want, found = c.Args[0], true
						sources = append(sources, src(c))
					}
				}
			}
			return true
		})
	}
	if !found || want == nil {
		die("%s %s: no definition of %s found", t.file, t.fn, t.variable+t.pick)
	}
	if len(sources) == 0 {
		sources = append(sources, t.variable)
	}
	if t.pick == "make2" {
		c, ok := want.(*ast.CallExpr)
		if !ok || len(c.Args) < 2 || src(c.Fun) != "make" {
			die("%s %s: %s is not make([]T, n)", t.file, t.fn, src(want))
		}
		want = c.Args[1]
	}
	outWidth := width
	if c, ok := want.(*ast.CallExpr); ok {
		if id, ok := c.Fun.(*ast.Ident); ok && id.Name == "byte" && len(c.Args) == 1 {
			outWidth = 8
			want = c.Args[0]
		}
	}
	body := e.tr(want)
	if outWidth == 8 {
		body = "BitVec.setWidth 8 " + body
	}
	var b strings.Builder
	fmt.Fprintf(&b, "/-- %s (%s, func %s): `%s`", t.doc, t.file, t.fn, strings.ReplaceAll(sources[len(sources)-1], "`", "'"))
	for _, n := range e.order {
		if x, ok := e.assigns[n]; ok {
			if ce, isCond := x.(*condExpr); isCond {
				fmt.Fprintf(&b, "; `%s := %s; if %s { %s = %s }`", n, src(ce.els), src(ce.cond), n, src(ce.then))
				continue
			}
			fmt.Fprintf(&b, "; `%s := %s`", n, src(x))
		} else if x, ok := e.consts[n]; ok {
			fmt.Fprintf(&b, "; `const %s = %s`", n, src(x))
		}
	}
	b.WriteString(" -/\n")
	fmt.Fprintf(&b, "def %s", t.lean)
	for _, p := range e.params {
		fmt.Fprintf(&b, " (%s : BitVec %d)", p, width)
	}
	fmt.Fprintf(&b, " : BitVec %d :=\n", outWidth)
	for _, n := range e.order {
		fmt.Fprintf(&b, "  let %s : BitVec %d := %s\n", n, width, e.bound[n])
	}
	fmt.Fprintf(&b, "  %s\n", body)
	sig := t.lean + "(" + strings.Join(e.params, ",") + ")"
	return b.String(), sig
}

func main() {
	leanOut := flag.String("lean", "", "Lean file to write")
	flag.StringVar(&repo, "repo", "/repo", "working tree of xelaj/mtproto")
	flag.Parse()
	var b strings.Builder
	b.WriteString("/- GENERATED by harness/cmd/arithfacts from the working tree of xelaj/mtproto — do not edit.\n   Integer arithmetic of the library as written, operator by operator, over BitVec 64. -/\nnamespace Mtv.Gen.Arith\n\n")
	var sigs []string
	for _, t := range targets {
		d, sig := translate(t)
		b.WriteString(d)
		b.WriteString("\n")
		sigs = append(sigs, sig)
	}
	sort.Strings(sigs)
	b.WriteString("end Mtv.Gen.Arith\n")
	out := b.String()
	if *leanOut == "" {
		fmt.Print(out)
		return
	}
	old, _ := os.ReadFile(*leanOut)
	if string(old) != out {
		if err := os.WriteFile(*leanOut, []byte(out), 0o644); err != nil {
			die("%v", err)
		}
		fmt.Printf("arithfacts: %d definitions (file rewritten): %s\n", len(sigs), strings.Join(sigs, " "))
	} else {
		fmt.Printf("arithfacts: %d definitions (unchanged)\n", len(sigs))
	}
}
