// c13facts reads telegram/methods_gen.go and telegram/methods_special.go of the working tree with
// go/parser (no type checking needed) and writes lean/Mtv/Gen/Methods.lean: for every client method
// its shape (receiver, parameters, the request literal with field <- argument, which request call, the
// decoder hint, the asserted result type), and for every hand-written request wrapper its struct
// layout, constructor id and FlagIndex.
//
// usage: c13facts <repo> <out.lean>
package main

import (
	"fmt"
	"go/ast"
	"go/parser"
	"go/printer"
	"go/token"
	"os"
	"path/filepath"
	"reflect"
	"sort"
	"strconv"
	"strings"
)

var fset = token.NewFileSet()

func text(n ast.Node) string {
	var b strings.Builder
	_ = printer.Fprint(&b, fset, n)
	return b.String()
}

func q(s string) string { return strconv.Quote(s) }

// goTy renders a Go type expression of package telegram as a Lean `GoTy` term.
func goTy(e ast.Expr) string {
	switch x := e.(type) {
	case *ast.Ident:
		switch x.Name {
		case "int32", "int64", "float64", "string", "bool":
			return "(.prim " + q(x.Name) + ")"
		}
		return "(.named " + q("telegram."+x.Name) + ")"
	case *ast.ArrayType:
		if x.Len == nil {
			if id, ok := x.Elt.(*ast.Ident); ok && id.Name == "byte" {
				return ".bytes"
			}
			return "(.slice " + goTy(x.Elt) + ")"
		}
	case *ast.StarExpr:
		switch y := x.X.(type) {
		case *ast.Ident:
			return "(.ptr " + q("telegram."+y.Name) + ")"
		case *ast.SelectorExpr:
			return "(.ptr " + q(text(y)) + ")"
		}
	case *ast.SelectorExpr:
		if text(x) == "tl.Object" {
			return ".obj"
		}
	}
	return "(.other " + q(text(e)) + ")"
}

func bstr(s string) string {
	if s == "" {
		return "⟨0, 0⟩"
	}
	return fmt.Sprintf("⟨%d, 0x%x⟩", len(s), []byte(s))
}

func flagTerm(tag string) string {
	if !strings.HasPrefix(tag, "flag:") {
		return "none"
	}
	parts := strings.Split(tag, ",")
	n, _ := strconv.Atoi(strings.TrimPrefix(parts[0], "flag:"))
	in := false
	for _, o := range parts[1:] {
		if o == "encoded_in_bitflags" {
			in = true
		}
	}
	return fmt.Sprintf("(some ⟨%d, %v⟩)", n, in)
}

type method struct {
	name, recv                    string
	args                          [][2]string // name, Lean GoTy term
	reqType                       string
	passThrough                   bool // the single *Params argument is handed to the request call
	assign                        [][2]string
	call, hint, asserted, retType string
	ok                            bool
	why                           string
	argText                       [][2]string
	skeleton                      []string // bodySkeleton: the statements of the body, in order
}

func parseMethod(fd *ast.FuncDecl) method {
	m := method{name: fd.Name.Name}
	if fd.Recv != nil && len(fd.Recv.List) == 1 {
		m.recv = text(fd.Recv.List[0].Type)
	}
	for _, p := range fd.Type.Params.List {
		for _, n := range p.Names {
			m.args = append(m.args, [2]string{n.Name, goTy(p.Type)})
			m.argText = append(m.argText, [2]string{n.Name, text(p.Type)})
		}
	}
	if fd.Type.Results != nil && len(fd.Type.Results.List) >= 1 {
		m.retType = goTy(fd.Type.Results.List[0].Type)
	}
	ast.Inspect(fd.Body, func(n ast.Node) bool {
		switch x := n.(type) {
		case *ast.CallExpr:
			sel, ok := x.Fun.(*ast.SelectorExpr)
			if !ok || m.call != "" {
				return true
			}
			if sel.Sel.Name == "MakeRequest" || sel.Sel.Name == "MakeRequestWithHintToDecoder" {
				m.call = sel.Sel.Name
				if len(x.Args) >= 1 {
					switch a := x.Args[0].(type) {
					case *ast.UnaryExpr: // &T{...}
						if cl, ok := a.X.(*ast.CompositeLit); ok {
							m.reqType = text(cl.Type)
							for _, el := range cl.Elts {
								if kv, ok := el.(*ast.KeyValueExpr); ok {
									m.assign = append(m.assign, [2]string{text(kv.Key), text(kv.Value)})
								} else {
									m.why = "positional composite literal"
								}
							}
						}
					case *ast.Ident:
						m.passThrough = true
						for _, ar := range m.argText {
							if ar[0] == a.Name {
								m.reqType = strings.TrimPrefix(ar[1], "*")
							}
						}
					}
				}
				if len(x.Args) >= 2 {
					// reflect.TypeOf(T{})
					if c2, ok := x.Args[1].(*ast.CallExpr); ok && len(c2.Args) == 1 {
						if cl, ok := c2.Args[0].(*ast.CompositeLit); ok {
							m.hint = "(some " + goTy(cl.Type) + ")"
						}
					}
				}
			}
		case *ast.TypeAssertExpr:
			if m.asserted == "" && x.Type != nil {
				m.asserted = goTy(x.Type)
			}
		}
		return true
	})
	m.ok = m.call != "" && m.reqType != ""
	m.skeleton = bodySkeleton(fd)
	return m
}

// skeletonTerm renders a body skeleton as a Lean `List BodyStmt` term.
func skeletonTerm(sk []string) string {
	var out []string
	for _, k := range sk {
		switch k {
		case "call":
			out = append(out, ".call")
		case "iferr":
			out = append(out, ".ifErr")
		case "assert":
			out = append(out, ".assert")
		case "ifnotok-error":
			out = append(out, ".ifNotOkErr")
		case "ifnotok-panic":
			out = append(out, ".ifNotOkPanic")
		case "ret":
			out = append(out, ".ret")
		case "ret-assert":
			out = append(out, ".retAssert")
		default:
			// free text of the source may follow "other:"; keep the report line splittable on blanks and commas
			k = strings.Map(func(r rune) rune {
				if r == ' ' || r == ',' || r == ';' || r == '\t' || r == '\n' || r == '=' {
					return '_'
				}
				return r
			}, strings.TrimPrefix(k, "other:"))
			out = append(out, "(.other "+q(k)+")")
		}
	}
	return "[" + strings.Join(out, ", ") + "]"
}

type wrapper struct {
	name      string
	id        string
	flagIndex string
	fields    [][3]string // name, Lean GoTy term, tag
}

// constLit: package-level constant name -> the literal it stands for
var constLit = map[string]string{}

// litOf: the literal an expression denotes when that can be read off the syntax — a basic literal, a named
// constant with such a value, a conversion T(x) or a parenthesised one of these; "" otherwise
func litOf(e ast.Expr) string {
	switch x := e.(type) {
	case *ast.BasicLit:
		return x.Value
	case *ast.Ident:
		return constLit[x.Name]
	case *ast.ParenExpr:
		return litOf(x.X)
	case *ast.CallExpr:
		if len(x.Args) == 1 {
			if _, ok := x.Fun.(*ast.Ident); ok {
				return litOf(x.Args[0])
			}
		}
	}
	return ""
}

// valText: the literal behind an expression when there is one, else its source text
func valText(e ast.Expr) string {
	if l := litOf(e); l != "" {
		return l
	}
	return text(e)
}

func main() {
	repo, out := os.Args[1], os.Args[2]
	emitEnums(repo, out) // enums.go: constants of the enum types by name, texts of String()
	var methods []method
	wrappers := map[string]*wrapper{}
	crcOf := map[string]string{} // Go type name -> literal returned by its CRC() method
	// package-level constants with a literal value (a constructor id may be returned through a named constant)
	for _, fn := range []string{"methods_gen.go", "methods_special.go"} {
		f, err := parser.ParseFile(fset, filepath.Join(repo, "telegram", fn), nil, 0)
		if err != nil {
			panic(err)
		}
		for _, d := range f.Decls {
			gd, ok := d.(*ast.GenDecl)
			if !ok || gd.Tok != token.CONST {
				continue
			}
			for _, sp := range gd.Specs {
				vs, ok := sp.(*ast.ValueSpec)
				if !ok {
					continue
				}
				for i, n := range vs.Names {
					if i < len(vs.Values) {
						if lit := litOf(vs.Values[i]); lit != "" {
							constLit[n.Name] = lit
						}
					}
				}
			}
		}
	}
	for _, fn := range []string{"methods_gen.go", "methods_special.go"} {
		f, err := parser.ParseFile(fset, filepath.Join(repo, "telegram", fn), nil, 0)
		if err != nil {
			panic(err)
		}
		special := fn == "methods_special.go"
		for _, d := range f.Decls {
			switch x := d.(type) {
			case *ast.FuncDecl:
				if x.Recv != nil && len(x.Recv.List) == 1 {
					rt := text(x.Recv.List[0].Type)
					if x.Name.Name == "CRC" && x.Body != nil && len(x.Body.List) == 1 {
						if r, ok := x.Body.List[0].(*ast.ReturnStmt); ok && len(r.Results) == 1 {
							crcOf[strings.TrimPrefix(rt, "*")] = valText(r.Results[0])
						}
					}
					if strings.HasSuffix(rt, "Client") && x.Body != nil {
						// every method of the client in these two files is a row: one without a request call
						// (call "", request type "") fails its obligation instead of dropping out of the table
						methods = append(methods, parseMethod(x))
						continue
					}
					if special && x.Body != nil && (x.Name.Name == "CRC" || x.Name.Name == "FlagIndex") {
						tn := strings.TrimPrefix(rt, "*")
						w := wrappers[tn]
						if w == nil {
							w = &wrapper{name: tn, flagIndex: "none"}
							wrappers[tn] = w
						}
						if len(x.Body.List) == 1 {
							if r, ok := x.Body.List[0].(*ast.ReturnStmt); ok && len(r.Results) == 1 {
								if x.Name.Name == "CRC" {
									w.id = valText(r.Results[0])
								} else {
									w.flagIndex = "some " + text(r.Results[0])
								}
							}
						}
					}
				}
			case *ast.GenDecl:
				if !special {
					continue
				}
				for _, sp := range x.Specs {
					ts, ok := sp.(*ast.TypeSpec)
					if !ok {
						continue
					}
					st, ok := ts.Type.(*ast.StructType)
					if !ok {
						continue
					}
					w := wrappers[ts.Name.Name]
					if w == nil {
						w = &wrapper{name: ts.Name.Name, flagIndex: "none"}
						wrappers[ts.Name.Name] = w
					}
					for _, fl := range st.Fields.List {
						tag := ""
						if fl.Tag != nil {
							s, _ := strconv.Unquote(fl.Tag.Value)
							tag = reflect.StructTag(s).Get("tl")
						}
						for _, n := range fl.Names {
							w.fields = append(w.fields, [3]string{n.Name, goTy(fl.Type), tag})
						}
					}
				}
			}
		}
	}
	sort.Slice(methods, func(i, j int) bool { return methods[i].name < methods[j].name })
	var b strings.Builder
	b.WriteString("/- GENERATED on every run from telegram/methods_gen.go and telegram/methods_special.go of the\n   working tree by harness/cmd/c13facts (go/parser). Never committed. -/\nimport Mtv.Schema.Methods\nnamespace Mtv.Gen\nopen Mtv.Schema\n\n")
	const chunk = 40
	n := 0
	for i := 0; i < len(methods); i += chunk {
		fmt.Fprintf(&b, "def methods%d : List MethodFact := [\n", n)
		end := i + chunk
		if end > len(methods) {
			end = len(methods)
		}
		for j := i; j < end; j++ {
			m := methods[j]
			var args, asg []string
			for _, a := range m.args {
				args = append(args, fmt.Sprintf("(%s, %s)", q(a[0]), a[1]))
			}
			for _, a := range m.assign {
				asg = append(asg, fmt.Sprintf("(%s, %s)", q(a[0]), q(a[1])))
			}
			sep := ","
			if j == end-1 {
				sep = ""
			}
			hint := m.hint
			if hint == "" {
				hint = "none"
			}
			id := crcOf[m.reqType]
			if id == "" {
				id = "0"
			}
			asserted, retType := m.asserted, m.retType
			if asserted == "" {
				asserted = "(.other \"\")"
			}
			if retType == "" {
				retType = "(.other \"-\")"
			}
			fmt.Fprintf(&b, "  ⟨%s, %s, %s, %v, [%s], [%s], %s, %s, %s, %s, %s⟩%s\n", q(m.name), q("telegram."+m.reqType), id, m.passThrough,
				strings.Join(args, ", "), strings.Join(asg, ", "), q(m.call), hint, asserted, retType, skeletonTerm(m.skeleton), sep)
		}
		b.WriteString("]\n\n")
		n++
	}
	b.WriteString("def methodChunks : List (List MethodFact) := [")
	for k := 0; k < n; k++ {
		if k > 0 {
			b.WriteString(", ")
		}
		fmt.Fprintf(&b, "methods%d", k)
	}
	b.WriteString("]\n\ndef methods : List MethodFact := methodChunks.flatten\n\n")
	var wn []string
	for k, w := range wrappers {
		if w.id != "" {
			wn = append(wn, k)
		}
	}
	sort.Strings(wn)
	b.WriteString("def wrappers : List WrapperFact := [\n")
	for i, k := range wn {
		w := wrappers[k]
		var fs, fns []string
		for _, f := range w.fields {
			fs = append(fs, fmt.Sprintf("(%s, %s, %s)", q(f[0]), f[1], flagTerm(f[2])))
			fns = append(fns, bstr(f[0]))
		}
		sep := ","
		if i == len(wn)-1 {
			sep = ""
		}
		sn := strings.TrimSuffix(w.name, "Params")
		if sn != "" {
			sn = strings.ToLower(sn[:1]) + sn[1:]
		}
		fmt.Fprintf(&b, "  ⟨%s, %s, %s, %s, [%s], [%s]⟩%s\n", q("telegram."+w.name), bstr(sn), w.id, w.flagIndex, strings.Join(fs, ", "), strings.Join(fns, ", "), sep)
	}
	b.WriteString("]\n\nend Mtv.Gen\n")
	src := b.String()
	if old, err := os.ReadFile(out); err == nil && string(old) == src {
		return
	}
	if err := os.WriteFile(out, []byte(src), 0o644); err != nil {
		panic(err)
	}
}
