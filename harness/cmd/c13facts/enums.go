package main

// Enumerations of package telegram: the Go NAME of every constant of an enum type, and the text String() gives
// for every id — facts the registry (reflection: ids and types) cannot see.
//
// From every non-test file of telegram/ (go/parser):
//
//   - enum types: `type X uint32`;
//   - constants: every name of a const declaration whose type is an enum type — written `Name X = <literal>`,
//     `Name = X(<literal>)`, or repeated implicitly — with its value read off the syntax (anything else, e.g. iota or
//     an expression, is recorded with the impossible value 2^32 and fails its obligation);
//   - String(): every `case X(<literal>): return "<text>"` of a method String of an enum type.
//
// Written to <dir of out.lean>/EnumConsts.lean (Mtv.Gen.enumConsts, Mtv.Gen.enumStrings) and to
// harness/cmd/vh/c13enum_names.go: the constants BY NAME, for the compiler to bind (c13.e2e.enum passes them to the
// generated methods). That file holds names only; it is rewritten when the set of names changes.

import (
	"fmt"
	"go/ast"
	"go/parser"
	"go/token"
	"os"
	"path/filepath"
	"sort"
	"strconv"
	"strings"
)

type enumConst struct {
	name, typ string
	value     uint64
}

type enumString struct {
	typ   string
	id    uint64
	text  string
	okLit bool
}

const enumNoValue = uint64(1) << 32

func enumLit(e ast.Expr, types map[string]bool) (typ string, v uint64, ok bool) {
	switch x := e.(type) {
	case *ast.BasicLit:
		if x.Kind == token.INT {
			n, err := strconv.ParseUint(x.Value, 0, 64)
			return "", n, err == nil
		}
	case *ast.ParenExpr:
		return enumLit(x.X, types)
	case *ast.CallExpr:
		if id, isID := x.Fun.(*ast.Ident); isID && len(x.Args) == 1 && (types[id.Name] || id.Name == "uint32") {
			_, n, ok := enumLit(x.Args[0], types)
			if types[id.Name] {
				return id.Name, n, ok
			}
			return "", n, ok
		}
	}
	return "", 0, false
}

func emitEnums(repo, outLean string) {
	dir := filepath.Join(repo, "telegram")
	ents, err := os.ReadDir(dir)
	if err != nil {
		panic(err)
	}
	var files []*ast.File
	for _, e := range ents {
		n := e.Name()
		if e.IsDir() || !strings.HasSuffix(n, ".go") || strings.HasSuffix(n, "_test.go") {
			continue
		}
		f, err := parser.ParseFile(fset, filepath.Join(dir, n), nil, 0)
		if err != nil {
			panic(err)
		}
		files = append(files, f)
	}
	types := map[string]bool{}
	for _, f := range files {
		for _, d := range f.Decls {
			gd, ok := d.(*ast.GenDecl)
			if !ok || gd.Tok != token.TYPE {
				continue
			}
			for _, sp := range gd.Specs {
				ts := sp.(*ast.TypeSpec)
				if id, ok := ts.Type.(*ast.Ident); ok && id.Name == "uint32" && ts.Assign == token.NoPos {
					types[ts.Name.Name] = true
				}
			}
		}
	}
	var consts []enumConst
	var strs []enumString
	for _, f := range files {
		for _, d := range f.Decls {
			switch x := d.(type) {
			case *ast.GenDecl:
				if x.Tok != token.CONST {
					continue
				}
				lastTyp := "" // an omitted type and value repeat the previous spec's
				for _, sp := range x.Specs {
					vs := sp.(*ast.ValueSpec)
					declTyp := ""
					if id, ok := vs.Type.(*ast.Ident); ok {
						declTyp = id.Name
					}
					if vs.Type == nil && len(vs.Values) == 0 {
						declTyp = lastTyp // implicit repetition: not a literal value
						for _, n := range vs.Names {
							if types[declTyp] {
								consts = append(consts, enumConst{n.Name, declTyp, enumNoValue})
							}
						}
						continue
					}
					lastTyp = ""
					for i, n := range vs.Names {
						typ, val, ok := declTyp, enumNoValue, false
						if i < len(vs.Values) {
							var ct string
							var v uint64
							ct, v, ok = enumLit(vs.Values[i], types)
							if ok {
								val = v
							}
							if typ == "" {
								typ = ct
							}
						}
						if types[typ] {
							consts = append(consts, enumConst{n.Name, typ, val})
							lastTyp = typ
						}
					}
				}
			case *ast.FuncDecl:
				if x.Recv == nil || len(x.Recv.List) != 1 || x.Name.Name != "String" || x.Body == nil {
					continue
				}
				rt := strings.TrimPrefix(text(x.Recv.List[0].Type), "*")
				if !types[rt] {
					continue
				}
				ast.Inspect(x.Body, func(n ast.Node) bool {
					cc, ok := n.(*ast.CaseClause)
					if !ok || len(cc.List) == 0 {
						return true
					}
					txt, okTxt := "", false
					if len(cc.Body) == 1 {
						if r, ok := cc.Body[0].(*ast.ReturnStmt); ok && len(r.Results) == 1 {
							if bl, ok := r.Results[0].(*ast.BasicLit); ok && bl.Kind == token.STRING {
								if s, err := strconv.Unquote(bl.Value); err == nil {
									txt, okTxt = s, true
								}
							}
						}
					}
					for _, e := range cc.List {
						_, v, ok := enumLit(e, types)
						if !ok {
							// a case written with the constant's name: the id is that constant's
							if id, isID := e.(*ast.Ident); isID {
								for _, c := range consts {
									if c.name == id.Name {
										v, ok = c.value, true
									}
								}
							}
						}
						if !ok {
							v = enumNoValue
						}
						strs = append(strs, enumString{rt, v, txt, okTxt})
					}
					return true
				})
			}
		}
	}
	sort.Slice(consts, func(i, j int) bool { return consts[i].name < consts[j].name })
	sort.SliceStable(strs, func(i, j int) bool {
		if strs[i].typ != strs[j].typ {
			return strs[i].typ < strs[j].typ
		}
		return strs[i].id < strs[j].id
	})

	var b strings.Builder
	b.WriteString("/- GENERATED on every run from the non-test files of telegram/ of the working tree by harness/cmd/c13facts\n   (go/parser): the constants of the enum types by NAME, and the texts of their String() methods. Never committed. -/\nimport Mtv.Schema.EnumTypes\nnamespace Mtv.Gen\nopen Mtv.Schema\n\n")
	b.WriteString("def enumConsts : List EnumConst := [\n")
	for i, c := range consts {
		sep := ","
		if i == len(consts)-1 {
			sep = ""
		}
		fmt.Fprintf(&b, "  ⟨%s, %s, 0x%x⟩%s  -- %s %s\n", bstr(c.name), bstr(c.typ), c.value, sep, c.name, c.typ)
	}
	b.WriteString("]\n\ndef enumStrings : List EnumString := [\n")
	for i, s := range strs {
		sep := ","
		if i == len(strs)-1 {
			sep = ""
		}
		t := s.text
		if !s.okLit {
			t = ""
		}
		fmt.Fprintf(&b, "  ⟨%s, 0x%x, %s⟩%s  -- %s\n", bstr(s.typ), s.id, bstr(t), sep, strconv.Quote(s.text))
	}
	b.WriteString("]\n\nend Mtv.Gen\n")
	writeIfChanged(filepath.Join(filepath.Dir(outLean), "EnumConsts.lean"), b.String())

	// the constants by name, for the harness (names only: the compiler binds them to the tree's values)
	var g strings.Builder
	g.WriteString("package main\n\n// GENERATED by harness/cmd/c13facts (tools/regen_schema.sh) from the const declarations of telegram/ of the\n// working tree: every constant of an enum type BY NAME. Names only — the values are the compiler's. Rewritten when\n// the set of names changes.\n\nimport \"github.com/xelaj/mtproto/telegram\"\n\n")
	g.WriteString("type c13EnumName struct {\n\tname, typ string\n\tv         interface{}\n}\n\nvar c13EnumNames = []c13EnumName{\n")
	for _, c := range consts {
		if !ast.IsExported(c.name) {
			continue
		}
		fmt.Fprintf(&g, "\t{%q, %q, telegram.%s},\n", c.name, c.typ, c.name)
	}
	g.WriteString("}\n")
	// <verif>/lean/Mtv/Gen/Methods.lean -> <verif>/harness/cmd/vh
	root := filepath.Dir(filepath.Dir(filepath.Dir(filepath.Dir(outLean))))
	if abs, err := filepath.Abs(outLean); err == nil {
		root = filepath.Dir(filepath.Dir(filepath.Dir(filepath.Dir(abs))))
	}
	vh := filepath.Join(root, "harness", "cmd", "vh")
	if st, err := os.Stat(vh); err == nil && st.IsDir() {
		writeIfChanged(filepath.Join(vh, "c13enum_names.go"), g.String())
	}
}

func writeIfChanged(path, src string) {
	if old, err := os.ReadFile(path); err == nil && string(old) == src {
		return
	}
	tmp := path + ".tmp" + strconv.Itoa(os.Getpid())
	if err := os.WriteFile(tmp, []byte(src), 0o644); err != nil {
		panic(err)
	}
	if err := os.Rename(tmp, path); err != nil {
		panic(err)
	}
}
