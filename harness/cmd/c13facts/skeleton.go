package main

import (
	"go/ast"
	"go/token"
	"strings"
)

// bodySkeleton names the statements of a client method's body, in order: which of them there are is part of
// what "the method sends the request and returns its answer" means (an early return in front of the request,
// a cache, a retry loop, a dropped error check all change the skeleton).
//
//	call            x, err := c.MakeRequest…(…)                       (exactly one call of a request function)
//	iferr           if err != nil { return …, errors.Wrap(err, …) }     (nothing but that return)
//	assert          resp, ok := x.(T)
//	ifnotok-panic   if !ok { panic(…) }
//	ret             return resp, nil
//	ret-assert      return x.(T), nil
//	other:<kind>    anything else
func bodySkeleton(fd *ast.FuncDecl) string {
	if fd.Body == nil {
		return "nobody"
	}
	var out []string
	for _, st := range fd.Body.List {
		out = append(out, stmtKind(st))
	}
	return strings.Join(out, ";")
}

func isRequestCall(e ast.Expr) bool {
	c, ok := e.(*ast.CallExpr)
	if !ok {
		return false
	}
	sel, ok := c.Fun.(*ast.SelectorExpr)
	return ok && (sel.Sel.Name == "MakeRequest" || sel.Sel.Name == "MakeRequestWithHintToDecoder")
}

func countRequestCalls(n ast.Node) int {
	k := 0
	ast.Inspect(n, func(x ast.Node) bool {
		if e, ok := x.(ast.Expr); ok && isRequestCall(e) {
			k++
		}
		return true
	})
	return k
}

func stmtKind(st ast.Stmt) string {
	switch s := st.(type) {
	case *ast.AssignStmt:
		if s.Tok == token.DEFINE && len(s.Lhs) == 2 && len(s.Rhs) == 1 {
			if isRequestCall(s.Rhs[0]) && countRequestCalls(s) == 1 {
				return "call"
			}
			if _, ok := s.Rhs[0].(*ast.TypeAssertExpr); ok && countRequestCalls(s) == 0 {
				return "assert"
			}
		}
		return "other:assign"
	case *ast.IfStmt:
		if s.Init != nil || s.Else != nil || countRequestCalls(s) != 0 || len(s.Body.List) != 1 {
			return "other:if"
		}
		switch c := s.Cond.(type) {
		case *ast.BinaryExpr: // err != nil
			x, xok := c.X.(*ast.Ident)
			y, yok := c.Y.(*ast.Ident)
			if c.Op == token.NEQ && xok && yok && x.Name == "err" && y.Name == "nil" {
				if r, ok := s.Body.List[0].(*ast.ReturnStmt); ok && len(r.Results) == 2 {
					if call, ok := r.Results[1].(*ast.CallExpr); ok {
						if sel, ok := call.Fun.(*ast.SelectorExpr); ok && sel.Sel.Name == "Wrap" {
							return "iferr"
						}
					}
				}
			}
		case *ast.UnaryExpr: // !ok
			if x, ok := c.X.(*ast.Ident); ok && c.Op == token.NOT && x.Name == "ok" {
				if es, ok := s.Body.List[0].(*ast.ExprStmt); ok {
					if call, ok := es.X.(*ast.CallExpr); ok {
						if id, ok := call.Fun.(*ast.Ident); ok && id.Name == "panic" {
							return "ifnotok-panic"
						}
					}
				}
			}
		}
		return "other:if"
	case *ast.ReturnStmt:
		if len(s.Results) == 2 && countRequestCalls(s) == 0 {
			if id, ok := s.Results[1].(*ast.Ident); ok && id.Name == "nil" {
				switch s.Results[0].(type) {
				case *ast.Ident:
					return "ret"
				case *ast.TypeAssertExpr:
					return "ret-assert"
				}
			}
		}
		return "other:return"
	}
	return "other:stmt"
}
