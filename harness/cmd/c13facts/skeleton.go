package main

import (
	"go/ast"
	"go/token"
)

// bodySkeleton names the statements of a client method's body, in order: which of them there are is part of
// what "the method sends the request and returns its answer" means (an early return in front of the request,
// a cache, a retry loop, a dropped error check, a result taken from somewhere else all change the skeleton).
// The kinds follow the VALUE through the body, not only the syntax of each statement: `assert` is an
// assertion on the variable the request call defined, `ret` returns the variable that assertion defined.
//
//	call            x, err := <receiver>.MakeRequest…(…)              (the only call of a request function so far)
//	iferr           if err != nil { return <nil|false|literal>, errors.Wrap(err, …) }   (err of the call; nothing else)
//	assert          resp, ok := x.(T)                                  (x of the call)
//	ifnotok-error   if !ok { return <nil|false|literal>, errors.Errorf(<literal>, x) }   (ok of the assertion, x of the call; nothing else)
//	ifnotok-panic   if !ok { panic(…) }                                (ok of the assertion; what tlgen emitted before D32)
//	ret             return resp, nil                                   (resp of the assertion)
//	ret-assert      return x.(T), nil                                  (x of the call)
//	other:<kind>    anything else
func bodySkeleton(fd *ast.FuncDecl) []string {
	if fd.Body == nil {
		return []string{"other:nobody"}
	}
	sk := skel{}
	if fd.Recv != nil && len(fd.Recv.List) == 1 && len(fd.Recv.List[0].Names) == 1 {
		sk.recv = fd.Recv.List[0].Names[0].Name
	}
	var out []string
	for _, st := range fd.Body.List {
		out = append(out, sk.stmtKind(st))
	}
	return out
}

// skel carries the names the statements seen so far have defined.
type skel struct {
	recv     string // receiver name
	res, err string // x, err := recv.MakeRequest(…)
	resp, ok string // resp, ok := x.(T)
	calls    int
}

func requestCall(e ast.Expr) (*ast.CallExpr, *ast.SelectorExpr) {
	c, ok := e.(*ast.CallExpr)
	if !ok {
		return nil, nil
	}
	sel, ok := c.Fun.(*ast.SelectorExpr)
	if ok && (sel.Sel.Name == "MakeRequest" || sel.Sel.Name == "MakeRequestWithHintToDecoder") {
		return c, sel
	}
	return nil, nil
}

func countRequestCalls(n ast.Node) int {
	k := 0
	ast.Inspect(n, func(x ast.Node) bool {
		if e, ok := x.(ast.Expr); ok {
			if c, _ := requestCall(e); c != nil {
				k++
			}
		}
		return true
	})
	return k
}

// countCalls: calls of any function inside n (a skeleton statement has exactly the calls its kind names).
func countCalls(n ast.Node) int {
	k := 0
	ast.Inspect(n, func(x ast.Node) bool {
		if _, ok := x.(*ast.CallExpr); ok {
			k++
		}
		return true
	})
	return k
}

func identName(e ast.Expr) string {
	if id, ok := e.(*ast.Ident); ok {
		return id.Name
	}
	return ""
}

func (sk *skel) stmtKind(st ast.Stmt) string {
	switch s := st.(type) {
	case *ast.AssignStmt:
		if s.Tok != token.DEFINE || len(s.Lhs) != 2 || len(s.Rhs) != 1 {
			return "other:assign"
		}
		a, b := identName(s.Lhs[0]), identName(s.Lhs[1])
		if a == "" || b == "" || a == "_" || b == "_" {
			return "other:assign"
		}
		if c, sel := requestCall(s.Rhs[0]); c != nil {
			if countRequestCalls(s) != 1 {
				return "other:nested-call"
			}
			if sk.calls > 0 {
				return "other:second-call"
			}
			if sk.recv == "" || identName(sel.X) != sk.recv {
				return "other:call-on-" + text(sel.X)
			}
			sk.calls++
			sk.res, sk.err = a, b
			return "call"
		}
		if ta, ok := s.Rhs[0].(*ast.TypeAssertExpr); ok && ta.Type != nil && countCalls(s) == 0 {
			if sk.calls != 1 || identName(ta.X) != sk.res {
				return "other:assert-on-" + text(ta.X)
			}
			if sk.resp != "" {
				return "other:second-assert"
			}
			sk.resp, sk.ok = a, b
			return "assert"
		}
		return "other:assign"
	case *ast.IfStmt:
		if s.Init != nil || s.Else != nil || len(s.Body.List) != 1 {
			return "other:if"
		}
		switch c := s.Cond.(type) {
		case *ast.BinaryExpr: // err != nil
			if c.Op == token.NEQ && sk.calls == 1 && identName(c.X) == sk.err && identName(c.Y) == "nil" {
				r, ok := s.Body.List[0].(*ast.ReturnStmt)
				if !ok || len(r.Results) != 2 || countCalls(r) != 1 {
					return "other:if"
				}
				switch z := r.Results[0].(type) { // the zero value of the result type
				case *ast.Ident:
					if z.Name != "nil" && z.Name != "false" {
						return "other:if"
					}
				case *ast.BasicLit:
				default:
					return "other:if"
				}
				call, ok := r.Results[1].(*ast.CallExpr)
				if !ok || len(call.Args) < 1 || identName(call.Args[0]) != sk.err {
					return "other:if"
				}
				if sel, ok := call.Fun.(*ast.SelectorExpr); ok && identName(sel.X) == "errors" && sel.Sel.Name == "Wrap" {
					return "iferr"
				}
			}
		case *ast.UnaryExpr: // !ok
			if c.Op == token.NOT && sk.ok != "" && identName(c.X) == sk.ok {
				if r, ok := s.Body.List[0].(*ast.ReturnStmt); ok && len(r.Results) == 2 && countCalls(r) == 1 {
					zeroOK := false
					switch z := r.Results[0].(type) {
					case *ast.Ident:
						zeroOK = z.Name == "nil" || z.Name == "false"
					case *ast.BasicLit:
						zeroOK = true
					}
					if call, ok := r.Results[1].(*ast.CallExpr); ok && zeroOK && len(call.Args) == 2 && identName(call.Args[1]) == sk.res {
						if _, lit := call.Args[0].(*ast.BasicLit); lit {
							if sel, ok := call.Fun.(*ast.SelectorExpr); ok && identName(sel.X) == "errors" && sel.Sel.Name == "Errorf" {
								return "ifnotok-error"
							}
						}
					}
				}
				if es, ok := s.Body.List[0].(*ast.ExprStmt); ok && countCalls(es) <= 3 && countRequestCalls(es) == 0 {
					if call, ok := es.X.(*ast.CallExpr); ok && identName(call.Fun) == "panic" {
						return "ifnotok-panic"
					}
				}
			}
		}
		return "other:if"
	case *ast.ReturnStmt:
		if len(s.Results) == 2 && identName(s.Results[1]) == "nil" && countCalls(s) == 0 {
			switch r := s.Results[0].(type) {
			case *ast.Ident:
				if sk.resp != "" && r.Name == sk.resp {
					return "ret"
				}
				return "other:return-" + r.Name
			case *ast.TypeAssertExpr:
				if r.Type != nil && sk.calls == 1 && identName(r.X) == sk.res {
					return "ret-assert"
				}
				return "other:return-assert-on-" + text(r.X)
			}
		}
		return "other:return"
	}
	return "other:stmt"
}
