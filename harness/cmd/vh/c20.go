package main

// C20 — resolving a Telegram link is total and maps usernames and invites correctly.
// Real code exercised: telegram/deeplinks (Resolve, ReservedHosts) — with it resolveHttpLink,
// fixURLHost, matchPath — and, for the stdlib parts the Lean side only models, net/url.Parse,
// (*url.URL).Hostname and strings.ToLower.
//
// Operations (all strings travel as hex, "-" = empty):
//   c20.resolve <link>                        deeplinks.Resolve(link)            -> ok:resolve:<domain> | ok:join:<token> | err:<class>
//   c20.rp <link> <scheme> <host> <path>      Go's own url.Parse output is part of the operation, so that the Lean
//   c20.rp <link> perr                        resolveParsed is compared on exactly what Go parsed; result of Resolve(link)
//   c20.parse <link>                          url.Parse(link) -> the fields, or err:<class>      (vs UrlLite.parse)
//   c20.hostname <host>                       (&url.URL{Host: host}).Hostname()                  (vs Links.hostname)
//   c20.tolower <s>                           strings.ToLower(s)                                 (vs Links.toLower)
//   c20.hosts                                 deeplinks.ReservedHosts()                          (vs the regenerated Gen/Links.lean)
//   c20.lowertab                              every rune whose unicode.ToLower differs           (vs the regenerated Gen/Links.lean)
//   c20.alias <how> <k> <names> <links>       a caller treats the slice ReservedHosts() returned as its own and writes
//                                             through it (how = read | append | assign | prefix); Resolve of every link
//                                             before and after, and ReservedHosts() after           (vs resolveString twice)

import (
	"encoding/hex"
	"fmt"
	"net/url"
	"regexp"
	"sort"
	"strconv"
	"strings"
	"unicode"
	"unicode/utf8"

	"github.com/xelaj/mtproto/telegram/deeplinks"
)

func init() {
	register(&Prop{Name: "c20", Stateless: true, Gen: c20Gen, Exec: c20Exec, Judge: c20Judge})
}

// ---- canonicalisation ---------------------------------------------------------------------------

func hexS(s string) string { return hexD([]byte(s)) }

func unhexS(tok string) string { return string(parseBytes(tok)) }

// c20ErrClass maps the errors of deeplinks.Resolve to a small enum (never message text). The
// messages that embed caller data all start with a quote, so the fixed ones are tested first.
func c20ErrClass(err error) string {
	s := err.Error()
	switch {
	case strings.HasPrefix(s, "not a uri: "):
		return "parse"
	case s == "not implemented":
		return "tg"
	case s == "invite token required":
		return "token"
	case s == "username required":
		return "username"
	case strings.HasPrefix(s, "'") && strings.HasSuffix(s, "hostname is not owned by telegram"):
		return "host"
	case strings.HasPrefix(s, "'") && strings.HasSuffix(s, ": this path does not look valid"):
		return "path"
	case strings.HasPrefix(s, "'") && strings.Contains(s, ": invalid uri scheme"):
		return "scheme"
	}
	return "?" // an error whose text the harness does not know (a reworded message): class left open
}

func c20Canon(d deeplinks.Deeplink, err error) string {
	if err != nil {
		if d != nil {
			return "both-value-and-error"
		}
		return "err:" + c20ErrClass(err)
	}
	switch v := d.(type) {
	case *deeplinks.ResolveParameters:
		if v == nil {
			return "ok:nil"
		}
		if v.Start != "" || v.Post != 0 || v.Thread != 0 || v.Comment != 0 {
			return "ok:resolve:" + hexS(v.Domain) + ":extra-fields-set"
		}
		return "ok:resolve:" + hexS(v.Domain)
	case *deeplinks.JoinParameters:
		if v == nil {
			return "ok:nil"
		}
		return "ok:join:" + hexS(v.Invite)
	case nil:
		return "ok:nil"
	}
	return fmt.Sprintf("ok:other:%T", d)
}

func c20ParseErrClass(err error) string {
	if ue, ok := err.(*url.Error); ok {
		err = ue.Err
	}
	switch err.(type) {
	case url.EscapeError:
		return "escape"
	case url.InvalidHostError:
		return "hostchar"
	}
	s := err.Error()
	switch {
	case strings.HasPrefix(s, "net/url: invalid control character"):
		return "ctl"
	case s == "missing protocol scheme":
		return "noscheme"
	case s == "first path segment in URL cannot contain colon":
		return "colon"
	case strings.HasPrefix(s, "invalid port "):
		return "port"
	case s == "missing ']' in host":
		return "bracket"
	case s == "net/url: invalid userinfo":
		return "userinfo"
	}
	return "other(" + hexS(s) + ")"
}

// ---- executor -----------------------------------------------------------------------------------

func c20Exec(op []string) string {
	switch {
	case op[0] == "c20.resolve" && len(op) == 2:
		return c20Canon(deeplinks.Resolve(unhexS(op[1])))
	case op[0] == "c20.rp" && (len(op) == 5 || len(op) == 3):
		link := unhexS(op[1])
		u, err := url.Parse(link)
		p := "perr"
		if err == nil {
			p = hexS(u.Scheme) + "," + hexS(u.Host) + "," + hexS(u.Path)
		}
		return "p=" + p + " r=" + c20Canon(deeplinks.Resolve(link))
	case op[0] == "c20.parse" && len(op) == 2:
		u, err := url.Parse(unhexS(op[1]))
		if err != nil {
			return "err:" + c20ParseErrClass(err)
		}
		return fmt.Sprintf("ok s=%s h=%s p=%s o=%s q=%s f=%s", hexS(u.Scheme), hexS(u.Host), hexS(u.Path),
			hexS(u.Opaque), hexS(u.RawQuery), hexS(u.Fragment))
	case op[0] == "c20.hostname" && len(op) == 2:
		return "hostname=" + hexS((&url.URL{Host: unhexS(op[1])}).Hostname())
	case op[0] == "c20.tolower" && len(op) == 2:
		return "lower=" + hexS(strings.ToLower(unhexS(op[1])))
	case op[0] == "c20.hosts" && len(op) == 1:
		var hs []string
		for _, h := range deeplinks.ReservedHosts() {
			hs = append(hs, hexS(h))
		}
		return "hosts=" + showList(hs)
	case op[0] == "c20.alias" && len(op) == 5:
		return c20Alias(op[1], atoi(op[2]), c20UnhexList(op[3]), c20UnhexList(op[4]))
	case op[0] == "c20.lowertab" && len(op) == 1:
		var ps []string
		for r := rune(0); r <= unicode.MaxRune; r++ {
			if l := unicode.ToLower(r); l != r {
				ps = append(ps, fmt.Sprintf("%d:%d", r, l))
			}
		}
		return "pairs=" + showList(ps)
	}
	return "bad-op"
}

func c20UnhexList(tok string) []string {
	var out []string
	for _, b := range parseBytesList(tok) {
		out = append(out, string(b))
	}
	return out
}

func c20HexList(xs []string) string {
	var hs []string
	for _, x := range xs {
		hs = append(hs, hexS(x))
	}
	return showList(hs)
}

// c20Alias: what a caller of the public ReservedHosts() may do with "its" list, and what Resolve says
// about the links before and after. A []string handed to a caller is the caller's: building an own
// allow-list from a prefix of it (append to a re-slice: in place when there is spare capacity), or
// rewriting its elements (look-alike hosts, normalisation), must not change what Resolve does later.
//
//	read          the list is only read
//	append k ns   own := append(list[:k], ns...)
//	assign k ns   list[(k+i) % len] = ns[i]
//	prefix k ns   list[i] = ns[0] + list[i] for every i >= k
func c20Alias(how string, k int, names, links []string) string {
	resolveAll := func() []string {
		var rs []string
		for _, l := range links {
			rs = append(rs, c20Canon(deeplinks.Resolve(l)))
		}
		return rs
	}
	before := resolveAll()
	list := deeplinks.ReservedHosts()
	if k > len(list) {
		k = len(list)
	}
	switch how {
	case "read":
		n := 0
		for _, h := range list {
			n += len(h)
		}
		_ = n
	case "append":
		own := append(list[:k], names...)
		_ = own
	case "assign":
		for i, n := range names {
			if len(list) > 0 {
				list[(k+i)%len(list)] = n
			}
		}
	case "prefix":
		for i := k; i < len(list) && len(names) > 0; i++ {
			list[i] = names[0] + list[i]
		}
	default:
		return "bad-op"
	}
	after := resolveAll()
	return "before=" + showList(before) + " after=" + showList(after) + " hosts=" + c20HexList(deeplinks.ReservedHosts())
}

// ---- the property oracle (written from the property text; shares nothing with the resolver) --------

// The Telegram-owned hosts the property speaks about.
var c20Owned = map[string]bool{"telegram.me": true, "telegram.dog": true, "t.me": true, "tx.me": true, "telesco.pe": true}

// the structured link grammar [scheme "://"] host [":" port] ("/" seg)* ["?" q] ["#" f], read the way
// RFC 3986 reads it: a leading "<scheme>://" is a scheme and never a host called <scheme> with an empty
// port; a scheme-less link that starts with "//" is a network-path reference, which the grammar does not
// contain (not judged beyond totality).
var c20SchemePart = regexp.MustCompile(`^([A-Za-z][A-Za-z0-9+.\-]*)://`)
var c20RestPart = regexp.MustCompile(`^(?s)((?:[A-Za-z0-9.\-%]|[\x80-\xff])*)(:[0-9]*)?((?:/[^/?#]*)*)(\?[^#]*)?(#.*)?$`)

func c20HasCTL(s string) bool {
	for i := 0; i < len(s); i++ {
		if s[i] < 0x20 || s[i] == 0x7f {
			return true
		}
	}
	return false
}

func c20IsHex(c byte) bool {
	return '0' <= c && c <= '9' || 'a' <= c && c <= 'f' || 'A' <= c && c <= 'F'
}

func c20HexVal(c byte) byte {
	switch {
	case c <= '9':
		return c - '0'
	case c >= 'a':
		return c - 'a' + 10
	}
	return c - 'A' + 10
}

// pctDecode: RFC 3986 percent-decoding of one component; ok=false when an escape is malformed.
func c20PctDecode(s string) (string, bool) {
	var b []byte
	for i := 0; i < len(s); i++ {
		if s[i] != '%' {
			b = append(b, s[i])
			continue
		}
		if i+2 >= len(s) || !c20IsHex(s[i+1]) || !c20IsHex(s[i+2]) {
			return "", false
		}
		b = append(b, c20HexVal(s[i+1])<<4|c20HexVal(s[i+2]))
		i += 2
	}
	return string(b), true
}

// lower-casing as the property means it: every letter replaced by its lower-case counterpart.
func c20Lower(s string) string {
	var b strings.Builder
	for _, r := range s {
		b.WriteRune(unicode.ToLower(r))
	}
	return b.String()
}

func c20AsciiLower(s string) string {
	b := []byte(s)
	for i, c := range b {
		if 'A' <= c && c <= 'Z' {
			b[i] = c + 32
		}
	}
	return string(b)
}

type c20Expect struct {
	structured bool     // the link is in the structured grammar (else only totality + sanity are required)
	mustErr    string   // non-empty: the property requires an error, for this reason
	either     string   // non-empty: outside what the statement fixes; an error or the right mapping are both fine
	want       []string // acceptable ok results (canonical form); empty together with mustErr==""  ⇒ unconstrained
}

// c20Oracle decides what the property requires of Resolve(link).
func c20Oracle(link string) c20Expect {
	var e c20Expect
	if c20HasCTL(link) {
		return e
	}
	scheme, hasScheme, rest := "", false, link
	if sm := c20SchemePart.FindStringSubmatch(link); sm != nil {
		scheme, hasScheme, rest = sm[1], true, link[len(sm[0]):]
	} else if strings.HasPrefix(link, "//") {
		return e
	}
	m := c20RestPart.FindStringSubmatchIndex(rest)
	if m == nil {
		return e
	}
	e.structured = true
	grp := func(i int) (string, bool) {
		if m[2*i] < 0 {
			return "", false
		}
		return rest[m[2*i]:m[2*i+1]], true
	}
	host, _ := grp(1)
	port, hasPort := grp(2)
	path, _ := grp(3)
	query, _ := grp(4)
	frag, _ := grp(5)

	// scheme
	switch ls := c20AsciiLower(scheme); {
	case !hasScheme:
		if hasPort {
			// DESIGN §7 reading: host:port/… without a scheme is not one of the two shapes of the statement
			e.either = "host:port without a scheme"
		}
	case ls == "http" || ls == "https":
		if hasPort {
			// "an optional port": a number 0..65535; an empty or larger one is not a port (error or mapping: both fine)
			if n, err := strconv.ParseUint(strings.TrimPrefix(port, ":"), 10, 64); err != nil || n > 65535 {
				e.either = "not a port number: " + port
			}
		}
	default:
		e.mustErr = "scheme " + ls + " is not http(s)"
		return e
	}
	// host
	// (a host may carry percent-escapes and non-ASCII text: RFC 3986 reg-name. Only ASCII letter case, a
	// trailing dot and escapes of the very same bytes are "another spelling"; a host that equals an owned
	// one only after Unicode case folding or compatibility mapping — teleſco.pe, ｔ.me — is a different host)
	hostDec, hostOK := c20PctDecode(host)
	switch {
	case c20Owned[host]:
	case !hostOK || strings.ContainsAny(hostDec, "/:?#@[]"):
		// a malformed escape, or an escaped delimiter inside the host: how that reads is not fixed by the statement
		return c20Expect{structured: true}
	case c20Owned[strings.TrimSuffix(c20AsciiLower(hostDec), ".")]:
		e.either = "another spelling (letter case / trailing dot / percent-escapes) of a Telegram-owned host"
	default:
		e.mustErr = "host " + host + " is not Telegram-owned"
		return e
	}
	// malformed escapes make the link malformed
	if _, ok := c20PctDecode(frag); !ok {
		e.mustErr = "malformed percent-escape in the fragment"
		return e
	}
	if _, ok := c20PctDecode(strings.TrimPrefix(query, "?")); !ok {
		e.either = "malformed percent-escape in the query"
	}
	if path == "" {
		e.mustErr = "bare host"
		return e
	}
	var segs []string
	for _, raw := range strings.Split(path[1:], "/") {
		s, ok := c20PctDecode(raw)
		if !ok {
			e.mustErr = "malformed percent-escape in the path"
			return e
		}
		if strings.Contains(s, "/") {
			// an escaped slash: whether it separates segments is not fixed by the statement
			return c20Expect{structured: true}
		}
		segs = append(segs, s)
	}
	switch {
	case len(segs) == 1 && segs[0] != "":
		e.want = []string{"ok:resolve:" + hexS(c20Lower(segs[0]))}
		if !utf8.ValidString(segs[0]) {
			// "lower-cased" has no single meaning for bytes that are not text
			e.want = append(e.want, "ok:resolve:"+hexS(c20AsciiLower(segs[0])), "ok:resolve:"+hexS(strings.ToLower(segs[0])))
		}
	case len(segs) == 2 && segs[0] == "joinchat" && segs[1] != "":
		e.want = []string{"ok:join:" + hexS(segs[1])}
	default:
		e.mustErr = fmt.Sprintf("path shape %q is neither /<username> nor /joinchat/<token>", path)
	}
	return e
}

func c20JudgeResult(link, res string) string {
	if strings.HasPrefix(res, "panic:") {
		return fmt.Sprintf("Resolve(%q) panics: %s", link, res)
	}
	if !strings.HasPrefix(res, "err:") && !strings.HasPrefix(res, "ok:resolve:") && !strings.HasPrefix(res, "ok:join:") {
		return fmt.Sprintf("Resolve(%q) returned neither a username, an invite nor an error: %s", link, res)
	}
	// sanity of every ok result, structured or not
	if strings.HasPrefix(res, "ok:") {
		parts := strings.Split(res, ":")
		if len(parts) != 3 {
			return fmt.Sprintf("Resolve(%q): unexpected fields set: %s", link, res)
		}
		v := unhexS(parts[2])
		if v == "" {
			return fmt.Sprintf("Resolve(%q) succeeded with an empty %s", link, parts[1])
		}
		if strings.Contains(v, "/") {
			return fmt.Sprintf("Resolve(%q) succeeded with a %s containing '/': %q", link, parts[1], v)
		}
		if parts[1] == "resolve" && utf8.ValidString(v) && c20Lower(v) != v {
			return fmt.Sprintf("Resolve(%q): username %q is not lower-cased", link, v)
		}
	}
	e := c20Oracle(link)
	if !e.structured {
		return ""
	}
	isErr := strings.HasPrefix(res, "err:")
	if e.mustErr != "" {
		if !isErr {
			return fmt.Sprintf("Resolve(%q) = %s, but the property requires an error (%s)", link, res, e.mustErr)
		}
		return ""
	}
	if len(e.want) == 0 {
		return ""
	}
	for _, w := range e.want {
		if res == w {
			return ""
		}
	}
	if isErr && e.either != "" {
		return ""
	}
	return fmt.Sprintf("Resolve(%q) = %s, the property requires %s", link, res, e.want[0])
}

func c20Judge(op []string, out string) string {
	if strings.HasPrefix(out, "panic:") && op[0] != "c20.resolve" && op[0] != "c20.rp" {
		return "panic: " + out
	}
	switch op[0] {
	case "c20.resolve":
		return c20JudgeResult(unhexS(op[1]), out)
	case "c20.rp":
		if strings.HasPrefix(out, "panic:") {
			return c20JudgeResult(unhexS(op[1]), out)
		}
		i := strings.Index(out, " r=")
		if i < 0 {
			return "malformed result " + out
		}
		return c20JudgeResult(unhexS(op[1]), out[i+3:])
	case "c20.hosts":
		return c20JudgeHosts(strings.TrimPrefix(out, "hosts="))
	case "c20.alias":
		if len(op) != 5 || out == "bad-op" {
			return ""
		}
		f := kvC20(out)
		links := c20UnhexList(op[4])
		before, after := strings.Split(f["before"], ","), strings.Split(f["after"], ",")
		if len(before) != len(links) || len(after) != len(links) {
			return "malformed result " + clip(out)
		}
		what := fmt.Sprintf("a caller's %s through the slice ReservedHosts() returned (k=%s, names %q)", op[1], op[2], c20UnhexList(op[3]))
		var bad []string
		for i, l := range links {
			if why := c20JudgeResult(l, before[i]); why != "" {
				bad = append(bad, "before "+what+": "+why)
			}
			if after[i] != before[i] {
				bad = append(bad, fmt.Sprintf("Resolve(%q) was %s and is %s after %s: the outcome depends on what a caller did with its list, not on the link", l, before[i], after[i], what))
			}
			if why := c20JudgeResult(l, after[i]); why != "" {
				bad = append(bad, "after "+what+": "+why)
			}
			if len(bad) >= 4 {
				break
			}
		}
		if why := c20JudgeHosts(f["hosts"]); why != "" {
			bad = append(bad, "after "+what+": "+why)
		}
		return strings.Join(bad, "; ")
	}
	return ""
}

func kvC20(out string) map[string]string {
	m := map[string]string{}
	for _, f := range strings.Fields(out) {
		if i := strings.IndexByte(f, '='); i > 0 {
			m[f[:i]] = f[i+1:]
		}
	}
	return m
}

// c20JudgeHosts: the list (comma separated hex) is exactly the five Telegram-owned hosts.
func c20JudgeHosts(list string) string {
	got := map[string]bool{}
	for _, h := range strings.Split(list, ",") {
		if h != "-" {
			got[unhexS(h)] = true
		}
	}
	var diff []string
	for h := range c20Owned {
		if !got[h] {
			diff = append(diff, "missing "+h)
		}
	}
	for h := range got {
		if !c20Owned[h] {
			diff = append(diff, "foreign "+h)
		}
	}
	sort.Strings(diff)
	if len(diff) > 0 {
		return "ReservedHosts() is not the set of Telegram-owned hosts: " + strings.Join(diff, ", ")
	}
	return ""
}

// ---- generation ---------------------------------------------------------------------------------

var c20Schemes = []string{"", "http://", "https://", "tg://", "ftp://", "HTTP://"}
var c20ReservedForGen = []string{"telegram.me", "telegram.dog", "t.me", "tx.me", "telesco.pe"}
var c20LookAlikes = []string{"t.me.evil.com", "xt.me", "T.ME", "t.me.", "", "evil.com", "Telegram.Me", "t-me", "telesco.pe.", "me", "joinchat",
	// equal to an owned host only under Unicode case folding / compatibility mapping / homoglyphs
	"tele\u017fco.pe", "TELE\u017fCO.PE", "tele%C5%BFco.pe", "\uff54.me", "t\u3002me", "t.m\u0435", "telegram.\u212ae", "t.m%65", "%74.me"}
var c20Ports = []string{"", ":443", ":80"}

// other valid ports, on both sides of the powers of two a conversion may trip over
var c20MorePorts = []string{":0", ":1", ":8080", ":8443", ":32767", ":32768", ":40000", ":50443", ":65535", ":00443", ":255", ":256"}
var c20QF = []string{"", "?start=abc", "#frag", "?a=1&b=%20#x%41"}

// segments: usernames / tokens incl. empty, percent-escapes, Unicode, upper case, 'joinchat'
var c20Segs = []string{"", "durov", "BotFather", "joinchat", "AAAAAEkk2WdoDrB4-Q_tok", "%41bc", "a%2Fb", "Äb", "ÉCOLEİ", "JoinChat", "a b", "%zz", "%e4%b8%ad", "%ff", "x%", "中文", "a:b", "@id1234", "*",
	// near misses of the literal path item: longer, shorter, other case, escaped
	"joinchats", "joinchat2", "joinchat_ru", "xjoinchat", "joincha", "JOINCHAT", "joinchat%20", "joinchat.", "%6aoinchat", "joinchat%2F",
	// segments spelled like the metasyntax of a path template (braces, colon, star; raw and escaped)
	"{username}", "{token}", "%7Busername%7D", "%7btoken%7d", "{}", "{user}", ":username", "<token>", "{username"}

var c20BasePaths = []string{"", "/", "/durov", "/BotFather", "/joinchat/AAAAAEkk2WdoDrB4-Q_tok", "/joinchat/", "/joinchat", "/a/b/c", "/ÄB%43", "//durov", "/durov/"}

func c20EmitLink(g *G, link string, all bool, tags ...string) {
	h := hexS(link)
	e := c20Oracle(link)
	cls := "oracle=totality-and-sanity-only"
	switch {
	case e.mustErr != "":
		cls = "oracle=must-be-error"
	case len(e.want) > 0 && e.either != "":
		cls = "oracle=error-or-exact-mapping"
	case len(e.want) > 0 && strings.HasPrefix(e.want[0], "ok:join"):
		cls = "oracle=exact-invite"
	case len(e.want) > 0:
		cls = "oracle=exact-username"
	}
	g.Emit("c20.resolve "+h, append(tags, "resolve", cls)...)
	if all {
		g.Emit(c20RpOp(link), "rp")
		g.Emit("c20.parse "+h, "parse")
	}
}

// c20RpOp builds the operation that carries Go's own url.Parse output.
func c20RpOp(link string) string {
	u, err := url.Parse(link)
	if err != nil {
		return "c20.rp " + hexS(link) + " perr"
	}
	return fmt.Sprintf("c20.rp %s %s %s %s", hexS(link), hexS(u.Scheme), hexS(u.Host), hexS(u.Path))
}

func c20Gen(g *G) {
	r := g.R
	g.Emit("c20.hosts", "facts")
	g.Emit("c20.lowertab", "facts")

	hosts := append(append([]string{}, c20ReservedForGen...), c20LookAlikes...)
	// also whatever the code says is reserved right now (a host added to the list must be exercised)
	for _, h := range deeplinks.ReservedHosts() {
		seen := false
		for _, k := range hosts {
			seen = seen || k == h
		}
		if !seen {
			hosts = append(hosts, h)
		}
	}

	// (a) the full structured product over the base paths
	for _, sc := range c20Schemes {
		for _, h := range hosts {
			for _, p := range c20Ports {
				for _, path := range c20BasePaths {
					for _, qf := range c20QF {
						c20EmitLink(g, sc+h+p+path+qf, true, "structured", "scheme="+sc, "port="+p)
					}
				}
			}
		}
	}
	// (a') every other valid port on every reserved host, both schemes and none, the two good path shapes and a bad one
	for _, sc := range []string{"", "http://", "https://"} {
		for _, h := range c20ReservedForGen {
			for _, p := range c20MorePorts {
				for _, path := range []string{"/DuRov", "/joinchat/AAAAAEkk2WdoDrB4-Q_tok", "/a/b/c", ""} {
					c20EmitLink(g, sc+h+p+path, false, "structured", "more-ports")
				}
			}
		}
	}
	// (b) paths of 0..3 segments over the whole segment alphabet: exhaustive up to 2 segments on the
	// two principal shapes (thorough: on every scheme/port of a reserved host), sampled otherwise
	type shape struct{ sc, h, p string }
	shapes := []shape{{"", "t.me", ""}, {"https://", "t.me", ""}}
	if g.Thorough() {
		shapes = nil
		for _, sc := range c20Schemes {
			for _, p := range c20Ports {
				shapes = append(shapes, shape{sc, "telegram.me", p}, shape{sc, "t.me", p})
			}
		}
	}
	for _, s := range shapes {
		for _, a := range c20Segs {
			c20EmitLink(g, s.sc+s.h+s.p+"/"+a, true, "paths-exhaustive")
			for _, b := range c20Segs {
				c20EmitLink(g, s.sc+s.h+s.p+"/"+a+"/"+b, true, "paths-exhaustive")
			}
		}
	}
	pick := func(xs []string) string { return xs[r.Intn(len(xs))] }
	randSeg := func() string {
		switch r.Intn(6) {
		case 0:
			return pick(c20Segs)
		case 1: // random user name with mixed case
			n := 1 + r.Intn(12)
			b := make([]byte, n)
			for i := range b {
				b[i] = "abcdefghijklmnopqrstuvwxyzABCDEFGHIJKLMNOPQRSTUVWXYZ0123456789_"[r.Intn(63)]
			}
			return string(b)
		case 2: // percent-escaped random bytes
			n := 1 + r.Intn(4)
			s := ""
			for _, c := range r.Bytes(n) {
				s += "%" + hex.EncodeToString([]byte{c})
			}
			return s
		case 3: // random runes, many with a lower-case counterpart
			n := 1 + r.Intn(4)
			s := ""
			for i := 0; i < n; i++ {
				s += string(rune(r.Pick(0x41+r.Intn(26), 0xc0+r.Intn(0x1f), 0x391+r.Intn(24), 0x410+r.Intn(32), 0x130, 0x212a, 0x1e9e, 0x10400+r.Intn(40), 0x4e00+r.Intn(100), 0xfffd)))
			}
			return s
		case 4: // raw bytes >= 0x80 (mostly invalid UTF-8)
			n := 1 + r.Intn(3)
			b := r.Bytes(n)
			for i := range b {
				b[i] |= 0x80
			}
			return "A" + string(b) + "Z"
		}
		// a near miss of an ordinary segment: one character added in front or behind, or the last one dropped
		base := pick([]string{"durov", "joinchat", "joinchat", "BotFather", ""})
		extra := string("abcxyzABC019_-.~%+ "[r.Intn(19)])
		switch r.Intn(6) {
		case 0:
			return base + extra
		case 1:
			return extra + base
		case 2:
			if base != "" {
				return base[:len(base)-1]
			}
		}
		return base
	}
	nSample := g.N(3000, 300000)
	for i := 0; i < nSample; i++ {
		k := r.Pick(0, 1, 1, 1, 2, 2, 2, 3)
		path := ""
		for j := 0; j < k; j++ {
			if j == 0 && k == 2 && r.Intn(2) == 0 {
				path += "/joinchat"
			} else {
				path += "/" + randSeg()
			}
		}
		h := pick(hosts)
		if r.Intn(3) != 0 {
			h = pick(c20ReservedForGen)
		}
		p := pick(c20Ports)
		if r.Intn(5) == 0 {
			p = pick(c20MorePorts)
		}
		if r.Intn(20) == 0 {
			p = pick([]string{":", ":0", ":65536", ":99999999999999999999", ":44a", ":-1"})
		}
		c20EmitLink(g, pick(c20Schemes)+h+p+path+pick(c20QF), i%3 == 0, "structured-sampled")
	}
	// (c) arbitrary / malformed strings
	pieces := []string{"t.me", "telegram.me", "tx.me", "http", "https", "tg", "ftp", ":", "/", "//", "///", "?", "#", "%", "%2F", "%2f", "%41", "%25",
		"%3A", "%2e", "@", "[", "]", "[::1]", "joinchat", ".", "*", " ", "\x00", "\n", "\x7f", "é", "É", "\xff", "\xc3", "443", "80",
		"user", "pass", "+", "-", "_", "~", "!", "$", "&", "'", "(", ")", ",", ";", "=", "<", ">", "\"", "\\", "^", "`", "{", "}", "|", "A", "z", "0"}
	nArb := g.N(4000, 1000000)
	for i := 0; i < nArb; i++ {
		var s string
		switch r.Intn(5) {
		case 0: // random bytes
			s = string(r.Bytes(r.Intn(12)))
		case 1, 2: // URL-ish soup
			k := r.Intn(9)
			for j := 0; j < k; j++ {
				s += pick(pieces)
			}
		case 3: // a valid link with one byte inserted / deleted / replaced
			s = pick([]string{"", "http://", "https://"}) + pick(c20ReservedForGen) + pick(c20Ports) + pick(c20BasePaths) + pick(c20QF)
			b := []byte(s)
			if len(b) > 0 {
				pos := r.Intn(len(b))
				c := pick(pieces)
				switch r.Intn(3) {
				case 0:
					b = append(b[:pos:pos], append([]byte(c), b[pos:]...)...)
				case 1:
					b = append(b[:pos:pos], b[pos+1:]...)
				default:
					b = append(b[:pos:pos], append([]byte(c), b[pos+1:]...)...)
				}
			}
			s = string(b)
		default: // scheme-less words: the bare-host family
			s = pick(append(hosts, "hello", "joinchat", "durov", "a.b", "localhost")) + pick([]string{"", "?x=1", "#f", "?", "#", ":80", ":", "?a/b", "#a/b"})
		}
		c20EmitLink(g, s, i%2 == 0, "arbitrary")
	}
	// (d) the stdlib pieces that are only modelled: Hostname() on arbitrary host strings, ToLower
	hostParts := []string{"t.me", "[", "]", ":", "443", "a", "::1", "[t.me]", "%25", "x", "-1", "80", ""}
	for i := 0; i < g.N(600, 20000); i++ {
		s := ""
		for j, k := 0, r.Intn(5); j < k; j++ {
			s += pick(hostParts)
		}
		g.Emit("c20.hostname "+hexS(s), "hostname")
	}
	for i := 0; i < g.N(800, 40000); i++ {
		s := ""
		for j, k := 0, r.Intn(4); j < k; j++ {
			s += randSeg()
		}
		if r.Intn(4) == 0 {
			s = string(r.Bytes(r.Intn(10)))
		}
		if u, err := url.PathUnescape(s); err == nil && r.Intn(2) == 0 {
			s = u
		}
		g.Emit("c20.tolower "+hexS(s), "tolower")
	}
	if g.Thorough() {
		// every rune that has a lower-case counterpart, and its neighbours, in 3 contexts
		for rn := rune(0); rn <= unicode.MaxRune; rn++ {
			if unicode.ToLower(rn) != rn || unicode.ToLower(rn+1) != rn+1 || (rn > 0 && unicode.ToLower(rn-1) != rn-1) {
				g.Emit("c20.tolower "+hexS(string(rn)), "tolower-all-runes")
				g.Emit("c20.resolve "+hexS("t.me/x"+string(rn)), "tolower-all-runes")
			}
		}
	}
	// (e) LAST (whatever these leave behind in a defective tree cannot reach the operations above, and the
	// regeneration of Gen/Links.lean is a run of its own, before this one): callers that write through the slice
	// ReservedHosts() handed them. The list is the caller's; what Resolve answers must not depend on it.
	reserved := append([]string{}, c20ReservedForGen...)
	for _, h := range deeplinks.ReservedHosts() { // a copy, element by element: nothing here keeps the returned slice
		seen := false
		for _, k := range reserved {
			seen = seen || k == h
		}
		if !seen {
			reserved = append(reserved, h)
		}
	}
	word := func() string {
		b := make([]byte, 3+r.Intn(6))
		for i := range b {
			b[i] = "abcdefghijklmnopqrstuvwxyz"[r.Intn(26)]
		}
		return string(b) + pick([]string{".org", ".com", ".me", ".example", ".pe"})
	}
	probes := func(written []string) string {
		var ls []string
		for _, h := range append(append([]string{}, reserved...), written...) {
			ls = append(ls, h+"/DuRov", "https://"+h+"/"+pick([]string{"BotFather", "durov", "ÉCOLE"}), "http://"+h+":443/joinchat/AbCdEf-"+pick([]string{"x", "Y", "0"}))
		}
		return c20HexList(ls)
	}
	emitAlias := func(how string, k int, names []string, written []string) {
		g.Emit(fmt.Sprintf("c20.alias %s %d %s %s", how, k, c20HexList(names), probes(written)), "alias", "alias-"+how)
	}
	n := len(reserved)
	emitAlias("read", 0, []string{word()}, nil)
	for round := g.N(1, 8); round > 0; round-- {
		// an own list from the first k hosts plus further names: every k that leaves spare capacity, 1..3 names
		for k := 0; k <= n; k++ {
			names := []string{word()}
			for j := r.Intn(3); j > 0; j-- {
				names = append(names, pick([]string{word(), "www." + pick(reserved), pick(c20LookAlikes[:4])}))
			}
			emitAlias("append", k, names, names)
		}
		// elements assigned in place: each position, and a run of them
		for k := 0; k < n; k++ {
			names := []string{pick([]string{word(), "www." + reserved[k], strings.ToUpper(reserved[k])})}
			emitAlias("assign", k, names, names)
		}
		{
			var names []string
			for j := 2 + r.Intn(n); j > 0; j-- {
				names = append(names, word())
			}
			emitAlias("assign", r.Intn(n), names, names)
		}
		// look-alike / normalised hosts derived in place
		pre := pick([]string{"www.", "m.", "web.", "x"})
		var derived []string
		for _, h := range reserved {
			derived = append(derived, pre+h)
		}
		emitAlias("prefix", r.Intn(2), []string{pre}, derived)
		emitAlias("read", 0, []string{word()}, nil)
	}
	// and the plain questions again (the same operation lines as at the start of the run: a changed answer is
	// history dependence)
	g.Emit("c20.hosts", "facts")
	for _, h := range reserved {
		c20EmitLink(g, h+"/durov", false, "after-alias")
		c20EmitLink(g, "https://"+h+"/joinchat/AAAAAEkk2WdoDrB4-Q_tok", false, "after-alias")
	}
}
