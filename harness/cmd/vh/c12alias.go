package main

// C12 — identity / aliasing between what a caller passes to or receives from the session storage and what the
// storage keeps (session 9, after the seeded change C12-m16). The items MS / MG / MC / V of c12.seq and c12.nat
// (c12History in c12.go) are what a caller does AFTER Store returned or AFTER Load handed it a session; this file
// generates the histories. The oracle is c12JudgeHistory: nothing a caller does with ITS objects changes what was
// stored — every later Load by the same, another or a fresh loader, every client started later and everything handed
// out earlier to somebody else is judged as if the caller had done nothing.

import (
	"fmt"
	"strings"
)

// modes of MS / MG (see c12History); every one alone, then combinations
var c12SessModes = []string{"k", "h", "1", "z", "s", "n", "r", "a", "p", "kh", "ksn", "ra", "ar", "az", "zp", "rk", "khsn", "1s"}
var c12ClientModes = []string{"k", "h", "z", "s", "ks", "khs", "zs"}

func c12AliasSess(g *G) c12Sess {
	s := c12SmallSess(g)
	switch g.R.Intn(3) {
	case 0: // a real session: 256-byte key, 8-byte key id, an address
		s.key, s.hash, s.host = g.R.Bytes(256), g.R.Bytes(8), []byte("149.154.167.50:443")
	case 1:
		if len(s.key) == 0 {
			s.key = g.R.Bytes(1 + g.R.Intn(40))
		}
		if len(s.hash) == 0 {
			s.hash = g.R.Bytes(1 + g.R.Intn(9))
		}
	}
	return s
}

// c12SameLength: another session whose file has the same length (same field lengths): only byte values differ
func c12SameLength(g *G, s c12Sess) c12Sess {
	t := c12Sess{key: g.R.Bytes(len(s.key)), hash: g.R.Bytes(len(s.hash)), salt: c12GenSalt(g), host: s.host}
	switch g.R.Intn(4) {
	case 0: // the ordinary update: only the salt is new
		t.key, t.hash = s.key, s.hash
	case 1:
		t.key = s.key
	}
	if t.salt == s.salt {
		t.salt = ^s.salt
	}
	return t
}

func c12GenAlias(g *G) {
	r := g.R
	pick := func(xs []string) string { return xs[r.Intn(len(xs))] }
	emit := func(op, sh string, items []string, tags ...string) {
		g.Emit(op+" "+sh+" "+strings.Join(items, " "), append([]string{"history-aliasing"}, tags...)...)
	}
	S := func(l int, s c12Sess, m int) string { return fmt.Sprintf("S:%d:%s:%d", l, s.token(), m) }

	// (a) the caller goes on using what it passed to Store — every mode once on a fixed small and a real session,
	// then random ones; read by the storing loader, another long-lived loader and a fresh one
	fixed := c12Sess{key: []byte{1, 2, 3, 4}, hash: []byte{5, 6}, salt: -2, host: []byte("h:1")}
	for _, md := range c12SessModes {
		emit("c12.seq", "abs", []string{S(0, fixed, 5), "MS:0:" + md, "L:0", "F", "L:1", "L:0", "H"}, "alias-after-store")
	}
	for i := g.N(60, 3000); i > 0; i-- {
		sh := c12Shapes[r.Intn(4)]
		s1 := c12AliasSess(g)
		w := r.Pick(0, 0, 1)
		items := []string{S(w, s1, 5)}
		if r.Intn(3) == 0 {
			items = append(items, fmt.Sprintf("L:%d", w), "MS:0:"+pick(c12SessModes), fmt.Sprintf("L:%d", w))
		} else {
			items = append(items, "MS:0:"+pick(c12SessModes))
		}
		items = append(items, fmt.Sprintf("L:%d", w), "F")
		if r.Bool() {
			items = append(items, fmt.Sprintf("L:%d", 1-w), fmt.Sprintf("C:%d", w))
		}
		if r.Intn(3) == 0 { // (c) a second Store in the same tick, same length; both callers reuse their buffers
			s2 := c12SameLength(g, s1)
			items = append(items, S(r.Pick(w, w, 1-w), s2, 5), "MS:1:"+pick(c12SessModes), "MS:0:"+pick(c12SessModes), fmt.Sprintf("L:%d", w), "F", fmt.Sprintf("L:%d", w))
		}
		items = append(items, "H")
		emit("c12.seq", sh, items, "alias-after-store")
	}

	// (b) the holder of a loaded session changes it: the next Load of the same loader, of another, of a fresh one, a
	// client started afterwards and every session handed out to somebody else stay what was stored
	for _, md := range c12SessModes {
		emit("c12.seq", "abs", []string{S(0, fixed, 5), "L:0", "MG:0:" + md, "L:0", "F", "H"}, "alias-after-load")
	}
	for i := g.N(80, 4000); i > 0; i-- {
		sh := c12Shapes[r.Intn(4)]
		s1 := c12AliasSess(g)
		w := r.Pick(0, 0, 1)
		items := []string{S(w, s1, 5)}
		nLoads := 0
		for n := 1 + r.Intn(3); n > 0; n-- { // sessions handed out: by the writer, the other loader, a fresh one
			items = append(items, []string{"L:0", "L:0", "L:1", "F"}[r.Intn(4)])
			nLoads++
		}
		for n := 1 + r.Intn(2); n > 0; n-- {
			items = append(items, fmt.Sprintf("MG:%d:%s", r.Intn(nLoads), pick(c12SessModes)))
		}
		items = append(items, "L:0", "L:1", "F")
		switch r.Intn(4) {
		case 0:
			items = append(items, "C:0", "H", "L:0")
		case 1: // (c) the session is renewed in the same tick with one of the same length; a holder of an OLD one changes it
			s2 := c12SameLength(g, s1)
			items = append(items, S(r.Pick(0, 1), s2, 5), fmt.Sprintf("MG:%d:%s", r.Intn(nLoads), pick(c12SessModes)), "L:0", "L:1", "F")
		case 2:
			items = append(items, fmt.Sprintf("MG:%d:%s", nLoads+r.Intn(3), pick(c12SessModes)), "L:0", "F")
		}
		items = append(items, "H")
		emit("c12.seq", sh, items, "alias-after-load")
	}

	// (c) two loaders on one path inside one tick of the file's clock: Store through one, Load through the other;
	// two Stores of sessions of the same length in one tick, read by the storing loader, the other one and a fresh one
	for i := g.N(40, 2000); i > 0; i-- {
		sh := c12Shapes[r.Intn(4)]
		s1 := c12AliasSess(g)
		s2 := c12SameLength(g, s1)
		a, b := r.Pick(0, 1), r.Pick(0, 1, 2)
		items := []string{S(a, s1, 5), fmt.Sprintf("L:%d", 1-a), fmt.Sprintf("L:%d", a), S(b, s2, 5), fmt.Sprintf("L:%d", b), "F"}
		if r.Bool() {
			items = append(items, "MS:1:"+pick(c12SessModes), "MG:0:"+pick(c12SessModes), fmt.Sprintf("L:%d", b), "F")
		}
		s3 := c12SameLength(g, s2)
		items = append(items, S(b, s3, 5), "MS:2:kh", fmt.Sprintf("L:%d", b), "F", S(a, s1, 6), "L:0", "L:1", "L:2", "F", "H")
		emit("c12.seq", sh, items, "alias-one-tick")
	}

	// (d) through the client: clients on one storage share nothing with it or with one another; a client that saves
	// its session and goes on (another salt, key material wiped) does not change what the storage holds
	for i := g.N(90, 4000); i > 0; i-- {
		sh := c12Shapes[r.Intn(4)]
		s1 := c12AliasSess(g)
		if r.Intn(3) > 0 {
			s1.key, s1.hash = r.Bytes(256), r.Bytes(8)
		}
		items := []string{S(r.Pick(0, 0, 1), s1, 5)}
		m := 5
		switch r.Intn(5) {
		case 0: // two clients, one wipes / changes its key: the other, the storage and a third client are untouched
			items = append(items, "C:0", "C:0", "MC:"+fmt.Sprint(r.Intn(2))+":"+pick(c12ClientModes), "H", "L:0", "F", "C:0", "H")
		case 1: // a session handed out by Load, a client started, then the holder of the session changes it (and back)
			items = append(items, "L:0", "C:0", "MG:0:"+pick(c12SessModes), "H", "C:0", "L:0", "MC:0:"+pick(c12ClientModes), "L:0", "F", "H")
		case 2: // the client gets a new salt, saves, then changes further: the storage holds what was saved
			m += r.Intn(2)
			items = append(items, "C:0", "MC:0:s", fmt.Sprintf("V:0:%d", m), "L:0", "F", "MC:0:"+pick(c12ClientModes), "L:0", "F", "C:0", "H")
		case 3: // saved in the same tick as the Store, then key material wiped in place
			items = append(items, "C:0", "L:0", "MC:0:s", fmt.Sprintf("V:0:%d", m), "MC:0:"+pick([]string{"k", "z", "h", "khs"}), "L:0", "F", "C:0", "MC:1:z", "L:0", "F", "H")
		case 4: // a client on another loader saves; clients of the first loader and their storage
			items = append(items, "C:0", "C:1", "MC:1:s", fmt.Sprintf("V:1:%d", m+1), "MC:1:z", "L:1", "L:0", "F", "C:0", "MC:0:k", "L:0", "V:0:"+fmt.Sprint(m+2), "L:0", "L:1", "F", "H")
		}
		emit("c12.seq", sh, items, "alias-client")
	}
	// a client on an empty store saves what it has (nothing negotiated yet), then is given a key
	emit("c12.seq", "abs", []string{"C:0", "V:0:5", "L:0", "F", "C:0", "MC:1:s", "L:0", "H"}, "alias-client")

	// the same on the real clock (the file's modification time is whatever the operating system gives it)
	for i := g.N(60, 2000); i > 0; i-- {
		sh := c12Shapes[r.Intn(4)]
		s1 := c12AliasSess(g)
		items := []string{S(0, s1, 0)}
		switch r.Intn(4) {
		case 0:
			items = append(items, "MS:0:"+pick(c12SessModes), "L:0", "F", "L:0")
		case 1:
			items = append(items, "L:0", "MG:0:"+pick(c12SessModes), "L:0", "F", "MG:1:"+pick(c12SessModes), "L:0")
		case 2:
			items = append(items, "C:0", "MC:0:s", "V:0:0", "MC:0:"+pick(c12ClientModes), "L:0", "F", "C:0")
		case 3:
			s2 := c12SameLength(g, s1)
			items = append(items, "L:0", S(0, s2, 0), "MS:1:"+pick(c12SessModes), "MG:0:"+pick(c12SessModes), "L:0", "F", "C:0", "C:0", "MC:1:"+pick(c12ClientModes), "L:0")
		}
		items = append(items, "H")
		emit("c12.nat", sh, items, "alias-real-clock")
	}
}
