package main

// The property oracle for C09, C10, C11, C16 on a trace of the real client (see x_rpcsrv.go): an
// independent Go reading of the four properties over the observable events — not the Lean machine.

import (
	"fmt"
	"strconv"
	"strings"
)

type rsVerdict struct {
	c09, c10, c11, c16 string // "" = clause holds on this trace
	damaged            string // a client message that is not what its sender encoded (concerns every property: the request of a call, the acknowledgement of a message)
	// plain: the client took something from a PLAIN-TEXT frame (event U) although the session works under its auth
	// key. Such a frame needs no key to write, so nothing in it is a message of the server: no caller may receive a
	// value from it, the salt and the session store stay as they are, no request is repeated because of it, the
	// application's handler does not see it, nothing in it is acknowledged — the frame is reported (one warning)
	// and the client reads on. Concerns every property that is stated in terms of "the server's" messages.
	plain string
	warnings           int
}

func rsSplitTrace(trace string) []string {
	if trace == "" {
		return nil
	}
	return strings.Split(trace, ",")
}

// rsJudgeTrace checks every clause on one trace. startUnix/endUnix bound the wall clock of the run
// (0 = do not check that msg_ids are derived from the current time).
func rsJudgeTrace(trace string, startUnix, endUnix int64) rsVerdict {
	var v rsVerdict
	evs := rsSplitTrace(trace)
	fail := func(dst *string, format string, a ...interface{}) {
		if *dst == "" {
			*dst = fmt.Sprintf(format, a...)
		}
	}
	type req struct {
		caller int
		open   bool // neither answered nor rejected yet
	}
	reqs := map[uint64]*req{}
	lastOf := map[int]uint64{}    // caller -> id of its latest request
	expect := map[int][]string{}  // caller -> values handed over, not yet returned
	mustResend := map[int]int64{} // caller -> salt the repeated request must carry
	var lastID uint64
	var lastSeq uint64
	var owedSalts []int64
	var startSalt int64 // the salt the (resumed) session started with: that of the first message the client wrote
	haveStart := false
	var storedSalts []int64
	needAck := map[uint64]bool{}
	acked := map[uint64]bool{}
	// a message that is delivered again (the same msg_id in a later message or container: the server has not seen
	// its acknowledgement) is answered again: deliveries and namings are counted
	needCnt := map[uint64]int{}
	ackCnt := map[uint64]int{}
	sendsOf := map[int]int{}
	rejectsOf := map[int]int{}
	returnsOf := map[int]int{}
	// what plain-text frames carried (and no message of the server did)
	plainIDs := map[uint64]bool{}     // msg_ids of plain frames and of the members of containers in them
	plainSalts := map[int64]uint64{}  // salt announced in a plain frame -> msg_id of that frame
	serverSalts := map[int64]bool{}   // salts the server itself announced
	plainVals := map[int][]string{}   // caller -> values plain frames named for a request of that caller
	plainReject := map[int]uint64{}   // caller -> plain frame that named its open request in bad_server_salt
	plainUpd, serverUpd, seenUpd := 0, 0, 0
	failedSends := 0 // request writes that failed (injected) and whose call has not reported it yet

	var handle func(s rsSent)
	handle = func(s rsSent) {
		if s.seq%2 == 1 {
			needAck[s.mid] = true
			needCnt[s.mid]++
		}
		d := s.desc
		switch {
		case strings.HasPrefix(d, "res("):
			inner := strings.TrimSuffix(d[4:], ")")
			p := strings.SplitN(inner, "/", 2)
			id, _ := strconv.ParseUint(p[0], 10, 64)
			if r, ok := reqs[id]; ok && r.open {
				r.open = false
				expect[r.caller] = append(expect[r.caller], p[1])
			} else {
				v.warnings++
			}
		case strings.HasPrefix(d, "salt("):
			inner := strings.TrimSuffix(d[5:], ")")
			p := strings.SplitN(inner, "/", 2)
			id, _ := strconv.ParseUint(p[0], 10, 64)
			ns, _ := strconv.ParseInt(p[1], 10, 64)
			owedSalts = append(owedSalts, ns)
			serverSalts[ns] = true
			if r, ok := reqs[id]; ok && r.open {
				r.open = false
				mustResend[r.caller] = ns
				rejectsOf[r.caller]++
			}
		case strings.HasPrefix(d, "news("):
			ns, _ := strconv.ParseInt(strings.TrimSuffix(d[5:], ")"), 10, 64)
			owedSalts = append(owedSalts, ns)
			serverSalts[ns] = true
		case strings.HasPrefix(d, "badmsg("):
			id, _ := strconv.ParseUint(strings.TrimSuffix(d[7:], ")"), 10, 64)
			if r, ok := reqs[id]; ok && r.open {
				r.open = false
				expect[r.caller] = append(expect[r.caller], "badmsg")
			} else {
				v.warnings++
			}
		case d == "upd" || d == "unk" || d == "trunc" || d == "gzbad" || d == "toodeep" || strings.HasPrefix(d, "svc("):
			// svc(…): a well-formed service request / informational message the client has no use for
			v.warnings++
			if d == "upd" {
				serverUpd++ // an update: the application's handler is shown it (event H)
			}
		}
	}
	// notePlain: what one message inside a plain-text frame would make a client do that took it for a message
	notePlain := func(frame uint64, s rsSent) {
		plainIDs[s.mid] = true
		d := s.desc
		switch {
		case strings.HasPrefix(d, "res("):
			p := strings.SplitN(strings.TrimSuffix(d[4:], ")"), "/", 2)
			id, _ := strconv.ParseUint(p[0], 10, 64)
			if r, ok := reqs[id]; ok {
				plainVals[r.caller] = append(plainVals[r.caller], p[1])
			}
		case strings.HasPrefix(d, "badmsg("):
			id, _ := strconv.ParseUint(strings.TrimSuffix(d[7:], ")"), 10, 64)
			if r, ok := reqs[id]; ok {
				plainVals[r.caller] = append(plainVals[r.caller], "badmsg")
			}
		case strings.HasPrefix(d, "salt("):
			p := strings.SplitN(strings.TrimSuffix(d[5:], ")"), "/", 2)
			id, _ := strconv.ParseUint(p[0], 10, 64)
			ns, _ := strconv.ParseInt(p[1], 10, 64)
			plainSalts[ns] = frame
			if r, ok := reqs[id]; ok && r.open {
				plainReject[r.caller] = frame
			}
		case strings.HasPrefix(d, "news("):
			ns, _ := strconv.ParseInt(strings.TrimSuffix(d[5:], ")"), 10, 64)
			plainSalts[ns] = frame
		case d == "upd":
			plainUpd++
		}
	}
	// a salt only a plain-text frame announced
	onlyPlain := func(salt int64) (uint64, bool) {
		f, ok := plainSalts[salt]
		return f, ok && !serverSalts[salt] && !(haveStart && salt == startSalt)
	}

	for _, e := range evs {
		p := strings.Split(e, ":")
		switch p[0] {
		case "P":
			fail(&v.c16, "an unencrypted frame was sent on a resumed session (new key exchange)")
		case "X":
			// the peer checks every client message byte for byte: a frame it cannot open, or a request /
			// acknowledgement that is not exactly what its sender encoded
			fail(&v.c10, "the server could not read a client frame: %s", e)
			fail(&v.damaged, "a message reached the server damaged: %s", e)
		case "S":
			mid, _ := strconv.ParseUint(p[2], 10, 64)
			seq, _ := strconv.ParseUint(p[3], 10, 64)
			salt, _ := strconv.ParseInt(p[4], 10, 64)
			if !haveStart && len(owedSalts) == 0 {
				startSalt, haveStart = salt, true
			}
			if mid%4 != 0 {
				fail(&v.c10, "msg_id %d is not a multiple of four", mid)
			}
			if mid <= lastID {
				fail(&v.c10, "msg_id %d written after %d: not strictly increasing in write order", mid, lastID)
			}
			if seq < lastSeq {
				fail(&v.c10, "seq_no %d written after %d: decreases", seq, lastSeq)
			}
			if startUnix != 0 {
				sec := int64(mid >> 32)
				if sec < startUnix-2 || sec > endUnix+2 {
					fail(&v.c10, "msg_id %d is not derived from the current time (seconds %d, now %d..%d)", mid, sec, startUnix, endUnix)
				}
			}
			lastID, lastSeq = mid, seq
			switch p[5] {
			case "q":
				// a request of a caller; the sixth field names its constructor when it is not ping. Whether it is
				// content-related (odd seq_no) is decided by the peer's own reading of the MTProto description
				ctor := uint64(rsCrcPing)
				if len(p) >= 7 {
					ctor, _ = strconv.ParseUint(p[6], 16, 32)
				}
				if rsContentRelated(uint32(ctor)) && seq%2 != 1 {
					fail(&v.c10, "content-related message %d (constructor %08x) carries the even seq_no %d", mid, ctor, seq)
				}
				if !rsContentRelated(uint32(ctor)) && seq%2 != 0 {
					fail(&v.c10, "message %d (constructor %08x) is not content-related and carries the odd seq_no %d", mid, ctor, seq)
				}
				c, _ := strconv.Atoi(p[1])
				sendsOf[c]++
				if old, ok := lastOf[c]; ok {
					if r := reqs[old]; r != nil && r.open {
						if f, ok := plainReject[c]; ok {
							fail(&v.plain, "caller %d wrote its request again (%d after %d) because the plain-text frame %d named it in a bad_server_salt: the server had not rejected it", c, mid, old, f)
						}
						fail(&v.c11, "caller %d wrote a request again while its request %d was accepted and unanswered (sent twice)", c, old)
					}
				}
				if f, only := onlyPlain(salt); only {
					fail(&v.plain, "request %d of caller %d carries the salt %d, which only the plain-text frame %d announced: the session's salt was changed by a frame that needs no key to write", mid, c, salt, f)
				}
				if ns, ok := mustResend[c]; ok {
					if salt != ns {
						fail(&v.c11, "the repeated request of caller %d carries salt %d, not the new salt %d", c, salt, ns)
					}
					delete(mustResend, c)
				}
				reqs[mid] = &req{caller: c, open: true}
				lastOf[c] = mid
			case "o":
				// in these scenarios the client writes requests (ping) and acknowledgements, nothing else
				fail(&v.c10, "the client wrote message %d with constructor %s: neither a request of a caller nor a msgs_ack", mid, p[len(p)-1])
				fail(&v.damaged, "the client wrote message %d with constructor %s: neither a request of a caller nor a msgs_ack", mid, p[len(p)-1])
			case "k":
				if seq%2 != 0 {
					fail(&v.c10, "acknowledgement %d carries the odd seq_no %d", mid, seq)
				}
				if len(p) >= 7 {
					for _, id := range strings.Split(p[6], "+") {
						u, _ := strconv.ParseUint(id, 10, 64)
						acked[u] = true
						ackCnt[u]++
						if plainIDs[u] && !needAck[u] {
							fail(&v.plain, "the client acknowledged message %d, which only a plain-text frame carried: it processed the frame's content", u)
						}
					}
				}
			}
		case "K":
			// the client's own keepalive ping: a content-related message of the outgoing stream like any request
			if len(p) >= 3 {
				mid, _ := strconv.ParseUint(p[1], 10, 64)
				seq, _ := strconv.ParseUint(p[2], 10, 64)
				if mid%4 != 0 || mid <= lastID {
					fail(&v.c10, "keepalive ping %d written after %d: msg_ids not strictly increasing multiples of four", mid, lastID)
				}
				if seq%2 != 1 || seq < lastSeq {
					fail(&v.c10, "keepalive ping %d carries seq_no %d after %d", mid, seq, lastSeq)
				}
				lastID, lastSeq = mid, seq
			}
		case "U":
			// a plain-text frame on the keyed session: reported (one warning), nothing else
			q := strings.SplitN(e, ":", 3)
			if len(q) == 3 {
				mid, _ := strconv.ParseUint(q[1], 10, 64)
				v.warnings++
				for _, s := range rsFlattenDesc(mid, 0, q[2], 0) {
					notePlain(mid, s)
				}
			}
		case "J":
			// a frame of the transport level that is no sealed message (error code, too short, another key id):
			// reported (one warning), nothing else
			v.warnings++
		case "H":
			if strings.Join(p[1:], ":") == rsUpdDump {
				seenUpd++
			}
		case "R":
			for _, s := range rsFlattenR(e) {
				handle(s)
			}
		case "D":
			c, _ := strconv.Atoi(p[1])
			val := strings.Join(p[2:], ":")
			if failedSends > 0 && strings.HasPrefix(val, "err(sending_message") {
				// the write of this caller's request failed (event F:q): the call reports that and nothing was sent
				failedSends--
				break
			}
			returnsOf[c]++
			q := expect[c]
			if len(q) == 0 || q[0] != val {
				for _, pv := range plainVals[c] {
					if pv == val {
						fail(&v.plain, "caller %d returned %s: that is what a PLAIN-TEXT frame carried for its request, not an answer of the server (the frame needs no key to write)", c, clip(val))
					}
				}
			}
			if len(q) == 0 {
				fail(&v.c09, "caller %d returned %s although no result addressed to its request was delivered", c, clip(val))
			} else {
				if q[0] != val {
					fail(&v.c09, "caller %d returned %s, the result addressed to its request is %s", c, clip(val), clip(q[0]))
				}
				expect[c] = q[1:]
			}
		case "F":
			// an injected write fault: the acknowledgement naming these ids could not be written; the client
			// is not asked to repeat it (the property's histories have no write errors), everything else holds
			if p[1] == "s" && len(p) >= 3 {
				// the session store refused this salt: the client could not have written it
				ns, _ := strconv.ParseInt(p[2], 10, 64)
				storedSalts = append(storedSalts, ns)
				if f, only := onlyPlain(ns); only {
					fail(&v.plain, "the salt %d was handed to the session store: only the plain-text frame %d announced it", ns, f)
				}
			}
			if p[1] == "k" && len(p) >= 3 {
				for _, id := range strings.Split(p[2], "+") {
					u, _ := strconv.ParseUint(id, 10, 64)
					acked[u] = true
					ackCnt[u]++
				}
			}
			if p[1] == "q" {
				failedSends++ // the write of a caller's request failed
			}
		case "W":
			ns, _ := strconv.ParseInt(p[1], 10, 64)
			storedSalts = append(storedSalts, ns)
			if f, only := onlyPlain(ns); only {
				fail(&v.plain, "the salt %d was written to the session store: only the plain-text frame %d announced it (a frame that needs no key to write)", ns, f)
			}
		}
	}
	for c, q := range expect {
		if len(q) > 0 {
			fail(&v.c09, "the result for caller %d was never returned to it", c)
		}
	}
	// updates reach the application's handler: once per update the server sent, and never from a plain-text frame
	switch {
	case seenUpd > serverUpd && plainUpd > 0:
		fail(&v.plain, "the application's handler was given the update object %d times; messages of the server carried it %d times, plain-text frames %d times: the handler saw the content of a plain-text frame", seenUpd, serverUpd, plainUpd)
	case seenUpd > serverUpd:
		fail(&v.c16, "the application's handler was given the update object %d times, the server sent it %d times", seenUpd, serverUpd)
	case seenUpd < serverUpd:
		fail(&v.c16, "the server sent %d updates, the application's handler was given %d", serverUpd, seenUpd)
	}
	for id, r := range reqs {
		if r.open {
			_ = id // unanswered by the server's plan: not a client fault
		}
	}
	for c := range mustResend {
		fail(&v.c11, "caller %d's rejected request was not sent again", c)
	}
	// what the store HOLDS after every announcement is what the client adopted: writing a salt the store already
	// holds (again, or not at all) makes no difference to that, so runs of equal values count once, starting from
	// the salt the session was resumed with
	holds := func(xs []int64) []int64 {
		var out []int64
		prev, have := startSalt, haveStart
		for _, x := range xs {
			if !have || x != prev {
				out = append(out, x)
			}
			prev, have = x, true
		}
		return out
	}
	if fmt.Sprint(holds(owedSalts)) != fmt.Sprint(holds(storedSalts)) {
		fail(&v.c11, "salts adopted %v, salts written to the session store %v", owedSalts, storedSalts)
	}
	for c, n := range sendsOf {
		if n != 1+rejectsOf[c]+(returnsOf[c]-1) && returnsOf[c] >= 1 {
			// every write is the first of a call or the repetition of a rejected one
			fail(&v.c11, "caller %d wrote %d requests for %d calls and %d rejections", c, n, returnsOf[c], rejectsOf[c])
		}
	}
	for id := range needAck {
		if !acked[id] {
			fail(&v.c10, "content-related server message %d was never acknowledged", id)
		}
	}
	for id, n := range needCnt {
		if acked[id] && ackCnt[id] < n {
			fail(&v.c10, "content-related server message %d was delivered %d times and named by %d acknowledgement(s): a delivery was not answered", id, n, ackCnt[id])
		}
	}
	return v
}

// ---- shared Exec / Judge for the four properties ----------------------------------------------------------

func rsExec(prop string) func(op []string) string {
	return func(op []string) string {
		switch op[0] {
		case prop + ".run":
			t0 := timeNowUnix()
			trace, note := rsScenario(op[1], op[2])
			t1 := timeNowUnix()
			if note == "" {
				note = "-"
			}
			return fmt.Sprintf("note=%s t=%d-%d trace=%s", note, t0, t1, trace)
		case prop + ".trace":
			tr := ""
			if len(op) > 1 {
				tr = op[1]
			}
			v := rsJudgeTrace(tr, 0, 0)
			for _, c := range []string{v.plain, v.c09, v.c10, v.c11, v.c16, v.damaged} {
				if c != "" {
					return "bad:" + strings.ReplaceAll(c, " ", "_")
				}
			}
			return fmt.Sprintf("ok w=%d", v.warnings)
		}
		return "bad-op"
	}
}

func rsParseRun(out string) (note string, t0, t1 int64, trace string) {
	for _, f := range strings.SplitN(out, " ", 3) {
		switch {
		case strings.HasPrefix(f, "note="):
			note = f[5:]
		case strings.HasPrefix(f, "t="):
			fmt.Sscanf(f[2:], "%d-%d", &t0, &t1)
		case strings.HasPrefix(f, "trace="):
			trace = f[6:]
		}
	}
	return
}

// rsJudge: the clause of the given property on the trace of a `.run` operation.
func rsJudge(prop string) func(op []string, out string) string {
	return func(op []string, out string) string {
		if op[0] != prop+".run" {
			return ""
		}
		if strings.HasPrefix(out, "panic") {
			return "the harness panicked: " + out
		}
		note, t0, t1, trace := rsParseRun(out)
		v := rsJudgeTrace(trace, t0, t1)
		if note != "-" {
			why := "the scenario could not be completed: " + note
			if v.damaged != "" {
				why += " (" + v.damaged + ")"
			} else if strings.Contains(v.c11, "sent twice") {
				why += " (" + v.c11 + ")"
			}
			return why
		}
		if v.damaged != "" {
			return v.damaged
		}
		if v.plain != "" {
			return v.plain
		}
		switch prop {
		case "c09":
			return v.c09
		case "c10":
			return v.c10
		case "c11":
			return v.c11
		case "c16":
			if v.c16 != "" {
				return v.c16
			}
			return v.c09 // the probe must return its own result
		}
		return ""
	}
}

// ---- scenario generators ---------------------------------------------------------------------------------

func rsKinds(r *Rand, n int, pool []string) []string {
	k := make([]string, n)
	for i := range k {
		k[i] = pool[r.Intn(len(pool))]
	}
	return k
}

func rsPerm(r *Rand, n int) []int {
	p := make([]int, n)
	for i := range p {
		p[i] = i
	}
	for i := n - 1; i > 0; i-- {
		j := r.Intn(i + 1)
		p[i], p[j] = p[j], p[i]
	}
	return p
}

func rsJoinInts(prefix string, xs []int, sep string) string {
	var s []string
	for _, x := range xs {
		s = append(s, prefix+strconv.Itoa(x))
	}
	return strings.Join(s, sep)
}

// rsAnswerPlan: answers for the given callers in the given order, partitioned at random into plain
// messages and containers, a random subset gzip-packed, noise items mixed into containers.
func rsAnswerPlan(r *Rand, order []int, noise []string) []string {
	var steps []string
	for i := 0; i < len(order); {
		n := 1
		if r.Intn(3) == 0 {
			n = 1 + r.Intn(4)
		}
		if i+n > len(order) {
			n = len(order) - i
		}
		var items []string
		for _, c := range order[i : i+n] {
			it := "a" + strconv.Itoa(c)
			if r.Intn(4) == 0 {
				it += "z"
			}
			items = append(items, it)
		}
		if n > 1 || r.Intn(5) == 0 {
			for k := 0; k < r.Intn(3) && len(noise) > 0; k++ {
				pos := r.Intn(len(items) + 1)
				items = append(items[:pos], append([]string{noise[r.Intn(len(noise))]}, items[pos:]...)...)
			}
			steps = append(steps, "c("+strings.Join(items, ",")+")")
		} else {
			steps = append(steps, items[0])
		}
		i += n
	}
	return steps
}

func timeNowUnix() int64 { return timeNow().Unix() }
