package main

// C15, decoding from several goroutines at the same time. tl.Decode / tl.DecodeUnknownObject are called by
// the reading goroutine of every connection, and a process has several connections: "for every byte
// sequence deserialisation terminates with a value or an error" has to hold for calls that overlap, too,
// also the first time a type is met (state the decoder keeps per type - a cache, a pool, a reused buffer).
//
//   c15.par <mode> <n> <seed> <member> <member> …
//     mode    fresh: the batch is decoded by a NEW process (this binary started again with the same operation
//             in mode here), so that nothing decoded earlier in the run has touched any per-process state;
//             here: in this process
//     n       goroutines, released together; each decodes EVERY member, in an order of its own (seed)
//     member  u/<bytes>/<hints>  tl.DecodeUnknownObject     n/<id>/<bytes>  tl.Decode into the named type
//
// Result: the canonical line of every member (as c15.unk / c15.named print it), joined by " ;; " - the
// Lean driver prints the lines of the sequential model. Judge: no member panics, all goroutines got the same
// line for a member, and the process survives (a Go `fatal error` - concurrent map access, a corrupted
// heap - cannot be recovered: the child dies and the operation reports how).

import (
	"bufio"
	"bytes"
	"fmt"
	"os"
	"os/exec"
	"path/filepath"
	"reflect"
	"strconv"
	"strings"
	"sync"
	"time"

	"github.com/xelaj/mtproto/internal/encoding/tl"

	"github.com/xelaj/mtproto/verifharness/internal/reg"
)

const c15ParSep = " ;; "

func c15ParMember(m string) (func() string, bool) {
	parts := strings.Split(m, "/")
	switch {
	case len(parts) == 3 && parts[0] == "u":
		bs, hints := parseBytes(parts[1]), c15Hints(parts[2])
		return func() string {
			return tlOutcome(func() (string, error) {
				o, err := tl.DecodeUnknownObject(bs, hints...)
				if err != nil {
					return "", err
				}
				return dumpAny(o), nil
			})
		}, true
	case len(parts) == 3 && parts[0] == "n":
		var id uint32
		fmt.Sscanf(parts[1], "%x", &id)
		c := reg.ByID()[id]
		if c == nil || c.Kind != "struct" {
			return nil, false
		}
		bs := parseBytes(parts[2])
		return func() string {
			return tlOutcome(func() (string, error) {
				res := reflect.New(c.Type.Elem())
				err := tl.Decode(bs, res.Interface())
				return dumpVal(res), err
			})
		}, true
	}
	return nil, false
}

func c15ParHere(op []string) string {
	n, err := strconv.Atoi(op[2])
	seed, err2 := strconv.ParseUint(op[3], 10, 64)
	if err != nil || err2 != nil || n < 1 || n > 64 {
		return "bad-op"
	}
	var fns []func() string
	for _, m := range op[4:] {
		f, ok := c15ParMember(m)
		if !ok {
			return "bad-op"
		}
		fns = append(fns, f)
	}
	outs := make([][]string, n)
	var ready, done sync.WaitGroup
	gate := make(chan struct{})
	for gi := 0; gi < n; gi++ {
		order := make([]int, len(fns))
		for i := range order {
			order[i] = i
		}
		r := NewRand(seed*1000003 + uint64(gi))
		if gi > 0 { // goroutine 0 keeps the order of the line
			for i := len(order) - 1; i > 0; i-- {
				j := r.Intn(i + 1)
				order[i], order[j] = order[j], order[i]
			}
		}
		outs[gi] = make([]string, len(fns))
		ready.Add(1)
		done.Add(1)
		go func(gi int, order []int) {
			defer done.Done()
			ready.Done()
			<-gate
			for _, i := range order {
				outs[gi][i] = fns[i]()
			}
		}(gi, order)
	}
	ready.Wait()
	close(gate)
	done.Wait()
	for gi := 1; gi < n; gi++ {
		for i := range fns {
			if outs[gi][i] != outs[0][i] {
				return fmt.Sprintf("goroutines-disagree member=%d (%s) one=%s another=%s", i, clip(op[4+i]), clip(outs[0][i]), clip(outs[gi][i]))
			}
		}
	}
	return strings.Join(outs[0], c15ParSep)
}

// c15ParFresh runs the operation (mode here) in a new process of this binary and returns its result line.
func c15ParFresh(op []string) string {
	exe, err := os.Executable()
	if err != nil {
		return "harness:no-executable"
	}
	dir, err := os.MkdirTemp(".", "c15par-")
	if err != nil {
		return "harness:no-temp-dir"
	}
	defer os.RemoveAll(dir)
	line := append([]string{op[0], "here"}, op[2:]...)
	opsf := filepath.Join(dir, "ops")
	if err := os.WriteFile(opsf, []byte(strings.Join(line, " ")+"\n"), 0o644); err != nil {
		return "harness:no-temp-file"
	}
	var stderr bytes.Buffer
	cmd := exec.Command(exe, "c15", "-ops", opsf, "-dir", filepath.Join(dir, "out"))
	cmd.Stderr = &stderr
	cmd.Stdout = &stderr
	runErr := cmd.Start()
	if runErr == nil {
		ch := make(chan error, 1)
		go func() { ch <- cmd.Wait() }()
		select {
		case runErr = <-ch:
		case <-time.After(15 * time.Second):
			_ = cmd.Process.Kill()
			<-ch
			return "process-died(no result within 15 s)"
		}
	}
	if f, err := os.Open(filepath.Join(dir, "out", "go.out")); err == nil {
		defer f.Close()
		sc := bufio.NewScanner(f)
		sc.Buffer(make([]byte, 1<<20), 1<<28)
		if sc.Scan() && runErr == nil {
			return sc.Text()
		}
	}
	// why it died: the first line of the runtime's report
	why := fmt.Sprint(runErr)
	for _, l := range strings.Split(stderr.String(), "\n") {
		if strings.HasPrefix(l, "fatal error:") || strings.HasPrefix(l, "panic:") || strings.HasPrefix(l, "runtime:") || strings.HasPrefix(l, "unexpected fault") {
			why = strings.TrimSpace(l)
			for _, fr := range strings.Split(stderr.String(), "\n") { // and the first frame inside the repository
				if strings.HasPrefix(fr, "github.com/xelaj/mtproto") && !strings.Contains(fr, "verifharness") {
					why += " at " + strings.SplitN(strings.TrimPrefix(fr, "github.com/xelaj/mtproto/"), "(", 2)[0]
					break
				}
			}
			break
		}
	}
	return "process-died(" + why + ")"
}

func c15ParExec(op []string) string {
	if len(op) < 5 {
		return "bad-op"
	}
	switch op[1] {
	case "here":
		return c15ParHere(op)
	case "fresh":
		return c15ParFresh(op)
	}
	return "bad-op"
}

func c15ParJudge(op []string, out string) string {
	what := fmt.Sprintf("%s goroutines decoding the same %d inputs at the same time (%s process)", op[2], len(op)-4, map[string]string{"fresh": "a new", "here": "this"}[op[1]])
	switch {
	case strings.HasPrefix(out, "process-died"):
		return what + ": the process died while decoding - neither a value nor an error: " + out
	case strings.HasPrefix(out, "goroutines-disagree"):
		return what + ": the same bytes decoded to different results in two goroutines: " + out
	case strings.HasPrefix(out, "harness:") || out == "bad-op":
		return what + ": the harness could not carry the operation out: " + out
	}
	for i, o := range strings.Split(out, c15ParSep) {
		if strings.HasPrefix(o, "panic") && 4+i < len(op) {
			return what + ": decoding panicked for member " + clip(op[4+i])
		}
	}
	return ""
}

// c15ParGen: batches over the encodings in `members` (one per registered struct constructor).
func c15ParGen(g *G, members []string, mode string, rounds int, tag string) {
	const per = 48
	for round := 0; round < rounds; round++ {
		ms := append([]string{}, members...)
		for i := len(ms) - 1; i > 0; i-- {
			j := g.R.Intn(i + 1)
			ms[i], ms[j] = ms[j], ms[i]
		}
		for at := 0; at < len(ms); at += per {
			end := at + per
			if end > len(ms) {
				end = len(ms)
			}
			n := []int{8, 2, 4, 16}[(round+at/per)%4]
			g.Emit(fmt.Sprintf("c15.par %s %d %d %s", mode, n, 1+g.R.Intn(1<<20), strings.Join(ms[at:end], " ")), tag)
		}
	}
}
