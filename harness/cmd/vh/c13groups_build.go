package main

// Schema-directed building blocks on top of c13e2e.go's schema reader and value builder, with the things
// its own builder does not offer:
//
//   - a writer that treats the parameters conditional on one flag bit as ONE group, as the schema does: the
//     bit is set when any member is non-zero, and then EVERY member follows (a zero-valued scalar, string,
//     Bool or vector is written as its zero; a missing object has no serialisation: error);
//   - a field builder with presence decided by the caller, parameter by parameter (present / absent /
//     zero-valued inside a present group / a value supplied by the caller);
//   - a search for the places a constructor occurs in (from the parameters, or the result, of a function).
//
// Used by c13groups.go (C13 end-to-end: mixed flag groups) and by c15schema.go (C15: inputs for every
// constructor with a flags word, built from the schema and not by the repository's encoder).
// Nothing here calls the repository's codec.

import (
	"bytes"
	"fmt"
	"reflect"
)

// ---- the group-aware writer -------------------------------------------------------------------------------------

func c13gSer(s *c13Schema, t *c13Ty, v reflect.Value, w *bytes.Buffer) error {
	switch t.kind {
	case "vector":
		if v.Kind() != reflect.Slice {
			return fmt.Errorf("Go value of type %v where the schema says vector", v.Type())
		}
		w.Write(c13U32(c13CrcVector))
		w.Write(c13U32(uint32(v.Len())))
		for i := 0; i < v.Len(); i++ {
			if err := c13gSer(s, t.elem, v.Index(i), w); err != nil {
				return err
			}
		}
		return nil
	case "boxed", "generic":
		for v.Kind() == reflect.Interface {
			if v.IsNil() {
				return fmt.Errorf("nil where %s is required", t.name)
			}
			v = v.Elem()
		}
		if v.Kind() != reflect.Ptr {
			return s.ser(t, v, w) // a bare id (enum type)
		}
		if v.IsNil() || v.Elem().Kind() != reflect.Struct {
			return fmt.Errorf("nil where %s is required", t.name)
		}
		o, ok := v.Interface().(interface{ CRC() uint32 })
		if !ok {
			return fmt.Errorf("%v is not a TL object", v.Type())
		}
		d := s.byID[o.CRC()]
		if d == nil {
			return fmt.Errorf("%v carries id %08x, which the schema does not define", v.Type(), o.CRC())
		}
		if t.kind == "boxed" && (d.fn || d.res != t.name) {
			return fmt.Errorf("%s is not a constructor of %s", d.name, t.name)
		}
		if t.kind == "generic" && !d.fn {
			return fmt.Errorf("%s is not a function", d.name)
		}
		w.Write(c13U32(d.id))
		return c13gSerFields(s, d, c13Fields(v.Elem()), w)
	}
	return s.ser(t, v, w)
}

// c13gValuePars: the parameters of d that carry a Go value (all but the flags words), in order.
func c13gValuePars(d *c13Def) []c13Par {
	var ps []c13Par
	for _, p := range d.pars {
		if p.ty.kind != "#" {
			ps = append(ps, p)
		}
	}
	return ps
}

func c13gKey(t *c13Ty) string { return fmt.Sprintf("%s.%d", t.fld, t.bit) }

// c13gSerFields writes the parameters of d. A flag bit is set when any parameter conditional on it is
// non-zero; every parameter conditional on a set bit is written.
func c13gSerFields(s *c13Schema, d *c13Def, vals []reflect.Value, w *bytes.Buffer) error {
	ps := c13gValuePars(d)
	if len(ps) != len(vals) {
		return fmt.Errorf("%s has %d parameters, the Go side has %d", d.name, len(ps), len(vals))
	}
	set := map[string]bool{}
	for i, p := range ps {
		if p.ty.bit >= 0 && !vals[i].IsZero() {
			set[c13gKey(&p.ty)] = true
		}
	}
	j := 0
	for _, p := range d.pars {
		if p.ty.kind == "#" {
			var word uint32
			for _, q := range ps {
				if q.ty.bit >= 0 && q.ty.fld == p.name && set[c13gKey(&q.ty)] {
					word |= 1 << uint(q.ty.bit)
				}
			}
			w.Write(c13U32(word))
			continue
		}
		v := vals[j]
		j++
		if p.ty.bit >= 0 && !set[c13gKey(&p.ty)] {
			continue
		}
		ty := p.ty
		if err := c13gSer(s, &ty, v, w); err != nil {
			return fmt.Errorf("%s.%s: %v", d.name, p.name, err)
		}
	}
	return nil
}

// ---- building the values of one definition with presence decided by the caller -------------------------------------

type c13gSpec struct {
	// present: is the conditional parameter (index among the value parameters) present with a non-zero value?
	present func(i int, p *c13Par) bool
	// over: a value for the parameter made by the caller (ok=false: none)
	over func(i int, p *c13Par, gt reflect.Type) (v reflect.Value, ok bool, err error)
}

func c13gFields(mk *c13Mk, d *c13Def, types []reflect.Type, depth int, spec c13gSpec) ([]reflect.Value, error) {
	ps := c13gValuePars(d)
	if len(ps) != len(types) {
		return nil, fmt.Errorf("%s has %d parameters, the Go side has %d", d.name, len(ps), len(types))
	}
	vals := make([]reflect.Value, len(ps))
	for i := range ps {
		p := &ps[i]
		if spec.over != nil {
			v, ok, err := spec.over(i, p, types[i])
			if err != nil {
				return nil, fmt.Errorf("%s.%s: %v", d.name, p.name, err)
			}
			if ok {
				vals[i] = v
				continue
			}
		}
		if p.ty.bit >= 0 && (spec.present == nil || !spec.present(i, p)) {
			vals[i] = reflect.Zero(types[i])
			continue
		}
		ty := p.ty
		v, err := mk.val(&ty, types[i], depth+1, ty.bit >= 0)
		if err != nil {
			return nil, fmt.Errorf("%s.%s: %v", d.name, p.name, err)
		}
		vals[i] = v
	}
	return vals, nil
}

func c13gFill(mk *c13Mk, d *c13Def, st reflect.Value, depth int, spec c13gSpec) error {
	fs := c13Fields(st)
	types := make([]reflect.Type, len(fs))
	for i := range fs {
		types[i] = fs[i].Type()
	}
	vals, err := c13gFields(mk, d, types, depth, spec)
	if err != nil {
		return err
	}
	for i := range fs {
		fs[i].Set(vals[i])
	}
	return nil
}

// c13gObject: a new registered struct of constructor d filled by spec, as a value assignable to gt.
func c13gObject(mk *c13Mk, d *c13Def, gt reflect.Type, depth int, spec c13gSpec) (reflect.Value, error) {
	ct, kind := c13GoType(d.id)
	if ct == nil || kind != "struct" || ct.Kind() != reflect.Ptr || ct.Elem().Kind() != reflect.Struct {
		return reflect.Value{}, fmt.Errorf("%s has no registered struct type", d.name)
	}
	if gt != nil && !ct.AssignableTo(gt) {
		return reflect.Value{}, fmt.Errorf("%v (constructor %s) does not fit Go type %v", ct, d.name, gt)
	}
	obj := reflect.New(ct.Elem())
	if err := c13gFill(mk, d, obj.Elem(), depth, spec); err != nil {
		return reflect.Value{}, err
	}
	if gt == nil {
		return obj, nil
	}
	out := reflect.New(gt).Elem()
	out.Set(obj)
	return out, nil
}

// ---- where a constructor occurs --------------------------------------------------------------------------------------

// c13gLink: "inside constructor/function d, value parameter par".
type c13gLink struct {
	d   *c13Def
	par int
}

func c13gBase(t *c13Ty) *c13Ty {
	for t.kind == "vector" {
		t = t.elem
	}
	return t
}

// c13gChain finds a shortest chain of links from the root definition to a position whose type is
// target.res: arg=true from the parameters of root (a function), arg=false from its result type (then the
// first link has d == nil: the result itself). Constructors without a registered struct type are not
// walked through. nil: target does not occur.
func c13gChain(s *c13Schema, root *c13Def, target *c13Def, arg bool) []c13gLink {
	type node struct {
		ty   string
		prev *node
		via  c13gLink
	}
	seen := map[string]bool{}
	var queue []*node
	push := func(t *c13Ty, prev *node, via c13gLink) {
		b := c13gBase(t)
		if b.kind != "boxed" || seen[b.name] {
			return
		}
		seen[b.name] = true
		queue = append(queue, &node{b.name, prev, via})
	}
	if arg {
		for i, p := range c13gValuePars(root) {
			ty := p.ty
			push(&ty, nil, c13gLink{root, i})
		}
	} else {
		ty := root.resTy
		push(&ty, nil, c13gLink{nil, -1})
	}
	for len(queue) > 0 {
		n := queue[0]
		queue = queue[1:]
		if n.ty == target.res {
			var rev []c13gLink
			for x := n; x != nil; x = x.prev {
				rev = append(rev, x.via)
			}
			out := make([]c13gLink, len(rev))
			for i := range rev {
				out[len(rev)-1-i] = rev[i]
			}
			return out
		}
		for _, c := range s.ctors[n.ty] {
			if ct, kind := c13GoType(c.id); ct == nil || kind != "struct" {
				continue
			}
			for i, p := range c13gValuePars(c) {
				ty := p.ty
				push(&ty, n, c13gLink{c, i})
			}
		}
	}
	return nil
}

// c13gDist: for every schema type, the least number of constructors (with a registered struct type) one has
// to go through from a value of that type to a value of type target (0 for target itself); types from
// which target cannot be reached are absent.
func c13gDist(s *c13Schema, target string) map[string]int {
	dist := map[string]int{target: 0}
	for changed := true; changed; {
		changed = false
		for n, cs := range s.ctors {
			for _, c := range cs {
				if ct, kind := c13GoType(c.id); ct == nil || kind != "struct" {
					continue
				}
				for _, p := range c.pars {
					ty := p.ty
					b := c13gBase(&ty)
					if b.kind != "boxed" {
						continue
					}
					if db, ok := dist[b.name]; ok {
						if dn, ok := dist[n]; !ok || db+1 < dn {
							dist[n] = db + 1
							changed = true
						}
					}
				}
			}
		}
	}
	return dist
}

// c13gWrap: a value of schema type t / Go type gt that holds, at the end of vectors of one element, the
// object made by leaf (called with the Go type of the position).
func c13gWrap(t *c13Ty, gt reflect.Type, leaf func(gt reflect.Type) (reflect.Value, error)) (reflect.Value, error) {
	if t.kind == "vector" {
		if gt.Kind() != reflect.Slice {
			return reflect.Value{}, fmt.Errorf("schema vector does not fit Go type %v", gt)
		}
		e, err := c13gWrap(t.elem, gt.Elem(), leaf)
		if err != nil {
			return reflect.Value{}, err
		}
		sl := reflect.MakeSlice(gt, 1, 1)
		sl.Index(0).Set(e)
		return sl, nil
	}
	return leaf(gt)
}

// c13gAlong: the spec that fills definition links[0].d so that the chain links[1:] … target hangs on
// parameter links[0].par; the parameters sharing a flag bit with that parameter are present as well (the
// group on the way is complete). targetSpec fills the target.
func c13gAlong(mk *c13Mk, links []c13gLink, target *c13Def, targetSpec c13gSpec, depth int) c13gSpec {
	l := links[0]
	ps := c13gValuePars(l.d)
	on := ps[l.par].ty
	return c13gSpec{
		present: func(i int, p *c13Par) bool {
			return on.bit >= 0 && p.ty.bit == on.bit && p.ty.fld == on.fld
		},
		over: func(i int, p *c13Par, gt reflect.Type) (reflect.Value, bool, error) {
			if i != l.par {
				return reflect.Value{}, false, nil
			}
			ty := p.ty
			v, err := c13gWrap(&ty, gt, func(gt reflect.Type) (reflect.Value, error) {
				if len(links) == 1 {
					return c13gObject(mk, target, gt, depth+1, targetSpec)
				}
				return c13gObject(mk, links[1].d, gt, depth+1, c13gAlong(mk, links[1:], target, targetSpec, depth+1))
			})
			return v, true, err
		},
	}
}
