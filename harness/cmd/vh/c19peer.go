package main

// C19 — the width of a drawn secret as a function of PEER-SUPPLIED values.
//
// The secrets are drawn inside calls that also receive values chosen by the peer: the SRP exponent a inside
// GetInputCheckPassword(password, account.password) — account.password is the server's object: secure_random
// ("must be mixed with client-side random"), srp_B, srp_id, the salts —, the DH exponent b inside
// MakeGAB(g, g_a, dh_prime). Whatever the peer sends, the secret must still be a full-width draw from the OS source.
//
//	c19.peer srp_a <secure_random> <k>     secure_random = none | (z|f|r)<len>: absent / len bytes all-zero, all-ones,
//	                                       pseudo-random (seed k); len 0 = present and empty
//	c19.peer dh_b  gab.<g>.<dh_prime>.<g_a> <k>   the token of c19.hist; this time the draws WITH these values are judged
//
// What is observed (crypto/rand.Reader wrapped for the duration of a draw and restored, as in c19.hist):
//
//	short        a draw read fewer bytes from the OS source than the secret is wide
//	repeat       two draws gave the same secret
//	narrow       dh_b: the largest b is more than 24 bits short of 2048; srp_a: A = g^a mod p is g^k for a k < 2^16
//	             (a table of the first 2^16 powers of g)
//	insensitive  srp_a only (a itself is not returned): with the reader replaced by a fixed byte stream of the
//	             harness, A is computed for the stream and for the stream with ONE of the bytes the draw consumed
//	             inverted (the first, the last, one in between): A must change every time — otherwise that byte of what
//	             was read from the source does not enter the secret, whose width is then less than what was read
//	full         none of these
//	refused      the call returned an error: no secret was used

import (
	"bytes"
	crand "crypto/rand"
	"fmt"
	"math/big"
	"strconv"
	"strings"
	"sync/atomic"

	mtmath "github.com/xelaj/mtproto/internal/math"
	"github.com/xelaj/mtproto/telegram"
)

// c19FixedReader: a reader over a fixed buffer (cyclic), counting what it hands out
type c19FixedReader struct {
	buf []byte
	n   int64
}

func (r *c19FixedReader) Read(p []byte) (int, error) {
	for i := range p {
		p[i] = r.buf[(int(r.n)+i)%len(r.buf)]
	}
	r.n += int64(len(p))
	return len(p), nil
}

// c19WithReader runs f with crypto/rand.Reader replaced by r
func c19WithFixed(buf []byte, f func()) int64 {
	orig := crand.Reader
	fr := &c19FixedReader{buf: buf}
	crand.Reader = fr
	defer func() { crand.Reader = orig }()
	f()
	return atomic.LoadInt64(&fr.n)
}

// c19SecureRandom: the peer's secure_random for a token
func c19SecureRandom(tok string, k uint64) (sr []byte, ok bool) {
	if tok == "none" {
		return nil, true
	}
	if len(tok) < 2 || !strings.ContainsRune("zfr", rune(tok[0])) {
		return nil, false
	}
	n, err := strconv.Atoi(tok[1:])
	if err != nil || n < 0 || n > 4096 || strconv.Itoa(n) != tok[1:] {
		return nil, false
	}
	sr = make([]byte, n)
	switch tok[0] {
	case 'f':
		for i := range sr {
			sr[i] = 0xff
		}
	case 'r':
		copy(sr, NewRand(k*0x9E3779B97F4A7C15+uint64(n)).Bytes(n))
	}
	return sr, true
}

// c19SrpWith: one real GetInputCheckPassword with the peer's secure_random; A = g^a mod p (nil, err: refused)
func c19SrpWith(sr []byte, srpID int64) ([]byte, error) {
	res, err := telegram.GetInputCheckPassword("correct horse", &telegram.AccountPassword{
		CurrentAlgo: &telegram.PasswordKdfAlgoSHA256SHA256PBKDF2HMACSHA512iter100000SHA256ModPow{
			Salt1: c19Salt1, Salt2: c19Salt2, G: 3, P: c19P,
		},
		SRPB:         c19SrpB,
		SRPID:        srpID,
		SecureRandom: sr,
	})
	if err != nil {
		return nil, err
	}
	o, ok := res.(*telegram.InputCheckPasswordSRPObj)
	if !ok {
		return nil, fmt.Errorf("unexpected result type %T", res)
	}
	return pad(o.A, 256), nil
}

var c19SmallPowers map[string]int // g^k mod p for k < 2^16 (g = 3, Telegram's prime)

func c19SmallPower(A []byte) (int, bool) {
	if c19SmallPowers == nil {
		c19SmallPowers = map[string]int{}
		p := new(big.Int).SetBytes(c19P)
		x := big.NewInt(1)
		g := big.NewInt(3)
		for k := 0; k < 1<<16; k++ {
			c19SmallPowers[string(pad(x.Bytes(), 256))] = k
			x.Mul(x, g).Mod(x, p)
		}
	}
	k, ok := c19SmallPowers[string(A)]
	return k, ok
}

func c19PeerSrp(op, tok string, k uint64) string {
	sr, ok := c19SecureRandom(tok, k)
	if !ok {
		return "bad-op"
	}
	what := "secure_random absent"
	if sr != nil {
		what = fmt.Sprintf("secure_random of %d byte(s)", len(sr))
	}
	// (1) two draws from the OS source, counted
	var as [][]byte
	for i := 0; i < 2; i++ {
		var A []byte
		var err error
		read := c19Counted(func() { A, err = c19SrpWith(sr, int64(k%1000)+int64(i)) })
		if err != nil {
			return "refused"
		}
		if read < 256 {
			c19Detail[op] = fmt.Sprintf("with %s in account.password, GetInputCheckPassword read %d byte(s) from the OS random source, the exponent a is 2048 bits wide", what, read)
			return "short"
		}
		if kk, small := c19SmallPower(A); small {
			c19Detail[op] = fmt.Sprintf("with %s in account.password, A = g^%d mod p: the secret exponent a is %d, it has %d bit(s) instead of 2048", what, kk, kk, big.NewInt(int64(kk)).BitLen())
			return "narrow"
		}
		as = append(as, A)
	}
	if bytes.Equal(as[0], as[1]) {
		c19Detail[op] = fmt.Sprintf("with %s in account.password, two calls returned the same A %s", what, c19Short(as[0]))
		return "repeat"
	}
	// (2) which of the bytes read from the source enter the secret
	stream := NewRand(k ^ 0xc19c19).Bytes(4096)
	stream[0] |= 0x80
	var base []byte
	var err error
	used := c19WithFixed(stream, func() { base, err = c19SrpWith(sr, 7) })
	if err != nil {
		return "refused"
	}
	if used < 256 || used > int64(len(stream)) {
		c19Detail[op] = fmt.Sprintf("with %s in account.password, GetInputCheckPassword read %d byte(s) from the random source", what, used)
		return "short"
	}
	for _, pos := range []int{0, int(used) - 1, 1 + int(k%uint64(used-2))} {
		alt := append([]byte{}, stream...)
		alt[pos] ^= 0xff
		var A []byte
		c19WithFixed(alt, func() { A, err = c19SrpWith(sr, 7) })
		if err != nil {
			return "refused"
		}
		if bytes.Equal(A, base) {
			c19Detail[op] = fmt.Sprintf("with %s in account.password, byte %d of the %d bytes GetInputCheckPassword read from the random source does not enter the exponent a: "+
				"A = g^a mod p is the same (%s) when that byte is inverted — the secret is narrower than what was drawn", what, pos, used, c19Short(base))
			return "insensitive"
		}
	}
	return "full"
}

func c19PeerGab(op, tok string, k uint64) string {
	pre, ok := c19ParsePrelude(tok)
	if !ok || len(pre) != 1 || pre[0].kind != "gab" {
		return "bad-op"
	}
	c := pre[0]
	seen := map[string]int{}
	maxBits := 0
	const n = 4
	for i := 0; i < n; i++ {
		var b *big.Int
		read := c19Counted(func() { b, _, _ = mtmath.MakeGAB(c.g, c.ga, c.p) })
		v := pad(b.Bytes(), 256)
		if read < 256 {
			c19Detail[op] = fmt.Sprintf("MakeGAB(g=%d, g_a, dh_prime of %d bits) read %d byte(s) from the OS random source, the exponent b is 2048 bits wide (b = %s)",
				c.g, c.p.BitLen(), read, c19Short(v))
			return "short"
		}
		if j, dup := seen[string(v)]; dup {
			c19Detail[op] = fmt.Sprintf("draws %d and %d of MakeGAB(g=%d, g_a, dh_prime of %d bits) returned the same b %s", j+1, i+1, c.g, c.p.BitLen(), c19Short(v))
			return "repeat"
		}
		seen[string(v)] = i
		if bl := b.BitLen(); bl > maxBits {
			maxBits = bl
		}
	}
	if maxBits < 2048-24 {
		c19Detail[op] = fmt.Sprintf("the largest of %d exponents b drawn by MakeGAB(g=%d, g_a, dh_prime of %d bits) has %d bits, the secret is 2048 bits wide", n, c.g, c.p.BitLen(), maxBits)
		return "narrow"
	}
	return "full"
}

func c19PeerExec(op []string) (string, bool) {
	if len(op) != 4 || op[0] != "c19.peer" {
		return "", false
	}
	k, err := strconv.ParseUint(op[3], 10, 62)
	if err != nil {
		return "bad-op", true
	}
	line := strings.Join(op, " ")
	switch op[1] {
	case "srp_a":
		return c19PeerSrp(line, op[2], k), true
	case "dh_b":
		return c19PeerGab(line, op[2], k), true
	}
	return "bad-op", true
}

func c19PeerJudge(op []string, out string) string {
	line := strings.Join(op, " ")
	switch out {
	case "short":
		return "key-agreement secret is not (fully) drawn from the OS random source for these values of the peer: " + c19Detail[line]
	case "narrow":
		return "a value supplied by the peer confines the key-agreement secret to a small range: " + c19Detail[line]
	case "repeat":
		return "key-agreement secret repeats for these values of the peer: " + c19Detail[line]
	case "insensitive":
		return "a value supplied by the peer decides how much of what was drawn enters the key-agreement secret: " + c19Detail[line]
	}
	return ""
}

func c19PeerGen(g *G) {
	c19Init()
	k := func() uint64 { return g.R.U64() >> 3 }
	// every length class of secure_random around the width of the exponent, every content class
	toks := []string{"none", "z0", "r1", "r2", "r255", "r256", "r257", "r1024", "z256", "f256", "z1", "f255"}
	if g.Thorough() {
		toks = append(toks, "r3", "r8", "r16", "r32", "r64", "r128", "r254", "r258", "r512", "r4096", "z255", "z257", "f1", "f2", "f257", "z1024", "f1024")
	}
	for _, t := range toks {
		g.Emit(fmt.Sprintf("c19.peer srp_a %s %d", t, k()), "peer:srp_a", "peer:secure_random="+strings.TrimRight(t, "0123456789"))
	}
	// the DH exponent drawn WITH unusual group parameters
	hexOf := func(x *big.Int) string {
		b := x.Bytes()
		if len(b) == 0 {
			b = []byte{0}
		}
		return fmt.Sprintf("%x", b)
	}
	bitsOf := func(bits int) *big.Int {
		x := new(big.Int).SetBytes(g.R.Bytes((bits + 7) / 8))
		x.SetBit(x, bits-1, 1)
		for i := x.BitLen() - 1; i >= bits; i-- {
			x.SetBit(x, i, 0)
		}
		return x.SetBit(x, 0, 1)
	}
	telegram := new(big.Int).SetBytes(c19P)
	moduli := []*big.Int{big.NewInt(1), big.NewInt(2), big.NewInt(3), big.NewInt(0xfffffffb), bitsOf(64), bitsOf(1024), bitsOf(2047), bitsOf(2048), bitsOf(2049), telegram}
	for i, p := range moduli {
		gv := []int{3, 2, 1, 0, -1, 7, 2147483647, -2147483648}[i%8]
		ga := "-"
		switch i % 3 {
		case 1:
			ga = "01"
		case 2:
			ga = hexOf(new(big.Int).Add(p, big.NewInt(5)))
		}
		g.Emit(fmt.Sprintf("c19.peer dh_b gab.%d.%s.%s %d", gv, hexOf(p), ga, k()), "peer:dh_b")
	}
}
