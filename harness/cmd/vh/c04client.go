package main

// C04 at the level of the client: "an incoming packet yields a message only if its key id matches the session's
// auth key". transport.ReadMsg routes by the first eight bytes alone — a zero key id goes to the unencrypted
// deserialiser whatever the session's state, because the transport cannot know that state (c04.route, c04.session
// mirror exactly that). Whether the result becomes a MESSAGE of the session is decided one level up, in
// MTProto.readMsg: a client that works under its auth key (encrypted mode: a stored session was loaded, or the key
// exchange has verified dh_gen_ok) must not take a plain-text frame for a message — nobody needs the key to write
// one. Only while it has no key, during the key exchange, plain text is what the server answers with (C06/C07
// exercise that side on every run).
//
//   c04.client enc <key> <pkt> <expect>  <key> <pkt> <expect> …
//       ONE real client (mtproto.NewMTProto on a stored session = encrypted mode, CreateConnection, its own receive
//       goroutine) over one loopback connection; before each packet is written by the peer the session's auth key is
//       set to that step's key (SetAuthKey); the packets are raw frames of the intermediate transport. A packet
//       "yields a message" when the client hands its content on: the bodies the generator seals are update objects
//       (future_salt, any field values), which the client gives to the application's handler — the handler reports
//       the object's serialisation. Anything the client refuses is reported on the warning channel. Per step:
//           msg body=<bytes>   the application's handler was given this object
//           refused            a warning, no message
//           silent             neither within two seconds
//       expectations: refuse | ok:<body> | any. Independent of the expectation the judge demands: a packet whose
//       first eight bytes are zero (or that is shorter) never yields a message; a message that was yielded is what
//       the specification's receiver recovers from those bytes under the key in force at that moment.

import (
	"encoding/binary"
	"fmt"
	"io"
	"net"
	"strings"
	"time"

	"github.com/xelaj/mtproto"
	"github.com/xelaj/mtproto/internal/encoding/tl"
	"github.com/xelaj/mtproto/internal/session"
)

func c04Client(mode string, steps []string) string {
	if mode != "enc" {
		return "bad-op"
	}
	ln, err := net.Listen("tcp", "127.0.0.1:0")
	if err != nil {
		return "dial-error:" + err.Error()
	}
	defer ln.Close()
	next := make(chan []byte)
	peerDone := make(chan struct{})
	go func() {
		defer close(peerDone)
		conn, err := ln.Accept()
		if err != nil {
			for range next {
			}
			return
		}
		go func() { _, _ = io.Copy(io.Discard, conn) }() // the announcement, acknowledgements
		for pkt := range next {
			frame := make([]byte, 4, 4+len(pkt))
			binary.LittleEndian.PutUint32(frame, uint32(len(pkt)))
			_, _ = conn.Write(append(frame, pkt...))
		}
		_ = conn.Close()
	}()
	key0 := append([]byte{}, envTok(steps[0])...)
	store := &rsStore{log: &rsLog{}, s: &session.Session{Key: key0, Hash: envSha1(key0)[12:20], Salt: 1, Hostname: ln.Addr().String()}}
	m, err := mtproto.NewMTProto(mtproto.Config{SessionStorage: store, ServerHost: ln.Addr().String()})
	if err != nil {
		close(next)
		return "dial-error:" + err.Error()
	}
	events := make(chan string, 256)
	stop := make(chan struct{})
	m.Warnings = make(chan error, 256)
	go func() {
		for {
			select {
			case <-m.Warnings:
				events <- "refused"
			case <-stop:
				return
			}
		}
	}()
	m.AddCustomServerRequestHandler(func(obj any) bool {
		o, ok := obj.(tl.Object)
		if !ok {
			events <- "msg body=?"
			return true
		}
		b, err := tl.Marshal(o)
		if err != nil {
			events <- "msg body=?"
			return true
		}
		events <- "msg body=" + showBytes(b)
		return true
	})
	if err := m.CreateConnection(); err != nil {
		close(next)
		close(stop)
		return "dial-error:" + err.Error()
	}
	defer func() {
		_ = m.Disconnect()
		close(next)
		_ = ln.Close()
		<-peerDone
		close(stop)
	}()
	var outs []string
	for i := 0; i+2 < len(steps); i += 3 {
		m.SetAuthKey(append([]byte{}, envTok(steps[i])...)) // the new key is a new value in new memory
		next <- envTok(steps[i+1])
		select {
		case e := <-events:
			outs = append(outs, e)
		case <-time.After(2 * time.Second):
			outs = append(outs, "silent")
		}
	}
	return strings.Join(outs, " ; ")
}

// c04JudgeClient: the property on what the real client did with each packet of a c04.client line.
func c04JudgeClient(op []string, out string) string {
	if out == "bad-op" {
		return ""
	}
	if strings.HasPrefix(out, "dial-error") {
		return "loopback client failed: " + clip(out)
	}
	steps := op[2:]
	outs := strings.Split(out, " ; ")
	n := len(steps) / 3
	if len(outs) != n {
		return fmt.Sprintf("a session of %d packets gave %d results", n, len(outs))
	}
	var hist []string
	for i := 0; i < n; i++ {
		k, p, e := steps[3*i], steps[3*i+1], steps[3*i+2]
		key, pkt := envTok(k), envTok(p)
		zeroID := len(pkt) < 8 || binary.LittleEndian.Uint64(pkt[:8]) == 0
		what := "a packet under a non-zero key id"
		if zeroID {
			what = "a PLAIN-TEXT frame (zero key id)"
		}
		short := outs[i]
		if len(short) > 70 {
			short = short[:70] + "…"
		}
		hist = append(hist, fmt.Sprintf("%d: session key %s, %s -> %s", i+1, k, what, short))
		where := fmt.Sprintf("packet %d of %d to ONE client working under its auth key (encrypted mode) [%s]: ", i+1, n, strings.Join(hist, " | "))
		o := outs[i]
		switch {
		case o == "silent":
			return where + "the client neither handed the packet's content on nor reported it within two seconds"
		case strings.HasPrefix(o, "msg "):
			if zeroID {
				return where + "a frame with zero key id yielded a message — its content was handed to the application's handler — while a key is in force and the client is in encrypted mode; nobody needs the key to write such a frame"
			}
			m, why := envOpen(8, key, pkt, false)
			if why != "" {
				return where + "a message was yielded by a packet that is not a valid sealing under the key in force: " + why
			}
			if m.Mid%4 != 1 && m.Mid%4 != 3 {
				return where + "a message was yielded by a packet whose msg_id has no server parity"
			}
			if o != "msg body="+showBytes(m.Body) {
				return where + "the message yielded differs from the packet's content: the packet holds body=" + showBytes(m.Body)
			}
		case o != "refused":
			return where + "unclassified result: " + clip(o)
		}
		switch {
		case e == "refuse" && o != "refused":
			return where + "a packet that must be refused yielded a message: " + clip(o)
		case strings.HasPrefix(e, "ok:") && o != "msg body="+showBytes(envTok(e[3:])):
			return where + "a valid packet under the session's key did not yield its message: want msg body=" + showBytes(envTok(e[3:]))
		}
	}
	return ""
}

// c04Update: an update object (future_salt#0949d9dc valid_since:int valid_until:int salt:long) with arbitrary field
// values — what the client hands to the application's handler
func c04Update(g *G) []byte {
	b := make([]byte, 20)
	binary.LittleEndian.PutUint32(b, 0x0949d9dc)
	copy(b[4:], g.R.Bytes(16))
	return b
}

func c04GenClients(g *G) {
	r := g.R
	type step struct{ key, pkt, exp string }
	emit := func(steps []step, tags ...string) {
		var toks []string
		for _, st := range steps {
			toks = append(toks, st.key, st.pkt, st.exp)
		}
		g.Emit("c04.client enc "+strings.Join(toks, " "), append(tags, "client")...)
	}
	parity := func() uint64 { return r.U64()&^3 | uint64(r.Pick(1, 3)) }
	for rep := 0; rep < g.N(2, 10); rep++ {
		a, b := fmt.Sprintf("x256:%d", r.U64()>>1), fmt.Sprintf("x256:%d", r.U64()>>1)
		// a valid message sealed under key kt, read while the session's key is cur
		valid := func(cur, kt string) step {
			body := c04Update(g)
			m := envMsg{Salt: r.U64(), Sid: r.U64(), Mid: parity(), Seq: uint32(r.U64()), Body: body}
			exp := "refuse"
			if cur == kt {
				exp = "ok:" + hexD(body)
			}
			return step{cur, hexD(envSeal(8, envTok(kt), m, r.Bytes((16-(32+len(body))%16)%16))), exp}
		}
		// a well-formed plain-text frame carrying an update
		plain := func(cur string) step { return step{cur, hexD(c04SpecUnenc(parity(), c04Update(g))), "refuse"} }
		damaged := func(cur string) step {
			good := c04SpecUnenc(parity(), c04Update(g))
			switch r.Intn(5) {
			case 0: // client parity
				return step{cur, hexD(c04SpecUnenc(r.U64()&^3|uint64(r.Pick(0, 2)), c04Update(g))), "refuse"}
			case 1: // length field off
				binary.LittleEndian.PutUint32(good[16:], uint32(len(good)-20+r.Pick(-4, 4, 1, 1<<31)))
				return step{cur, hexD(good), "refuse"}
			case 2: // truncated
				return step{cur, hexD(good[:1+r.Intn(len(good)-1)]), "refuse"}
			case 3: // a valid sealing whose key id was replaced by zero
				v := valid(cur, cur)
				return step{cur, hexD(append(make([]byte, 8), envTok(v.pkt)[8:]...)), "refuse"}
			}
			return step{cur, hexD(r.Bytes(4)), "refuse"} // a transport error code
		}
		emit([]step{valid(a, a), plain(a), valid(a, a), plain(a), plain(a), valid(a, a)}, "client:plain-between-valid")
		emit([]step{plain(a), valid(a, a)}, "client:plain-first")
		emit([]step{valid(a, a), plain(b), valid(b, b), valid(b, a), plain(b), valid(b, b)}, "client:key-replaced")
		emit([]step{valid(a, a), plain("-"), valid("-", a), valid(a, a), plain(a)}, "client:key-emptied")
		emit([]step{damaged(a), valid(a, a), damaged(a), damaged(a), plain(a), valid(a, a)}, "client:damaged-plain")
		for i := 0; i < g.N(3, 12); i++ {
			var steps []step
			cur := a
			for j, n := 0, 3+r.Intn(6); j < n; j++ {
				if r.Intn(4) == 0 {
					cur = []string{a, b}[r.Intn(2)]
				}
				switch r.Intn(6) {
				case 0, 1:
					steps = append(steps, valid(cur, cur))
				case 2:
					steps = append(steps, valid(cur, []string{a, b}[r.Intn(2)]))
				case 3:
					steps = append(steps, damaged(cur))
				default:
					steps = append(steps, plain(cur))
				}
			}
			steps = append(steps, valid(cur, cur))
			emit(steps, "client:random-walk")
		}
	}
}
