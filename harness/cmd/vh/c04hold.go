package main

// C04, session 9 (second part) — messages that were handed out stay what they were (seeded change C04-m16).
//
// "Never produces a message different from the one the key holder sealed" speaks about the message the caller
// HAS, not about a string printed the moment the call returns. Until now every C04 operation printed the message
// right after its own call and dropped it: nothing was ever looked at twice. A body that is a window into a
// buffer the library goes on using (a pooled plaintext buffer, a scratch buffer behind the transport, the caller's
// own packet) is the sealed message at that moment and something else one packet later — also when that later
// packet is a forged one that is REFUSED: a packet anybody can write then has an effect.
//
// (1) The registry. Every message handed out by messages.DeserializeEncrypted, messages.DeserializeUnencrypted
//     and transport.ReadMsg in ANY C04 operation is kept alive by the harness (the live object) together with a
//     private deep copy of every field taken at hand-out time (the same moment the result line is printed from).
//     After every later operation of the run — and inside multi-packet operations after every packet — the live
//     objects are compared with their copies. Small messages are compared completely every time; above
//     c04HeldBigLen bytes the first and last 4 KiB and sampled windows every time, completely after the next
//     c04HeldFullNext operations, at every c04.heldcheck and at forced collections. Beyond c04HeldAllMax held
//     messages (thorough tier) the newest, a rotating window and every 64th operation a full sweep.
//     The collector is off for the run (debug.SetGCPercent(-1) with a memory limit as the safety net, both
//     restored at the end) so that pooled buffers survive from packet to packet; every c04HeldGCEvery operations
//     and in `c04.heldcheck` two collections are forced and everything is compared again (effects that wait for
//     the collector: finalizers, pools being emptied).
// (2) The input side. The packet given to DeserializeEncrypted / DeserializeUnencrypted is the harness's own
//     buffer; it is overwritten as soon as the call has returned and the message is compared at once.
// (3) `c04.hold <p1|pn>,<gcoff|gcon|gcforce> (<via> <key> <pkt> <expect>)+` — a SEQUENCE in one line (so that a
//     replay is one line): via o = DeserializeEncrypted, u = DeserializeUnencrypted, r / s = ReadMsg on the first /
//     second transport of the line (two loopback connections with sessions of their own), O / R = a described
//     packet (c04big.go) through DeserializeEncrypted / the first transport. p1 pins the whole process to one P for
//     the line (sync.Pool is per P: the buffer a call gave back is the one the next call gets — deterministic);
//     gcforce forces two collections after every step. Every step is judged like the single-packet operation it
//     is (c04.open / c04.udeser / c04.route / c04.big) and the registry is compared after every step.
// (4) `c04.heldcheck <label>` — two forced collections and a complete comparison of everything held; the last
//     operation of every generated run ("and at the end of the run").
//
// A change is reported in the result line of the operation after which it was seen:
//     … HELD-CHANGED <description> ##OPS##<json list of operation lines>
// The Lean side never prints it (in the model a message is a value); Judge turns it into the violation, and
// checks/c04.py takes the operation list as the replay (the operation that handed the message out, the ones in
// between — all of them when few, else the last ones — and the operation after which it had changed).

import (
	"bytes"
	"context"
	"encoding/binary"
	"encoding/json"
	"fmt"
	"io"
	"reflect"
	"runtime"
	"runtime/debug"
	"strings"
	"time"

	"github.com/xelaj/mtproto/internal/mode"
	"github.com/xelaj/mtproto/internal/mtproto/messages"
	"github.com/xelaj/mtproto/internal/transport"
)

const (
	c04HeldMark     = " HELD-CHANGED "
	c04HeldOpsMark  = " ##OPS##"
	c04HeldBigLen   = 1 << 18
	c04HeldFullNext = 3
	c04HeldAllMax   = 4096
	c04HeldGCEvery  = 1500
	c04HeldMaxBytes = 768 << 20
)

// one field of a message as it was at hand-out time
type c04HeldField struct {
	name  string
	bytes bool
	b     []byte // private copy
	isNil bool
	v     string // scalars, printed
}

type c04HeldMsg struct {
	origin  string // the operation line that handed it out
	where   string // which call / step of that line
	opNo    int
	live    interface{} // *messages.Encrypted / *messages.Unencrypted (kept alive: the caller still has it)
	enc     *messages.Encrypted
	unenc   *messages.Unencrypted
	fields  []c04HeldField // generic (reflection) copy of every field
	size    int
	dead    bool // already reported (one report per message)
	shown   string
	fastEnc messages.Encrypted // typed copy for the fast comparison
	fastUn  messages.Unencrypted
}

var (
	c04Held        []*c04HeldMsg
	c04HeldBytes   int
	c04HeldOpNo    int
	c04HeldCur     string   // the operation line running now
	c04HeldRecent  []string // operation lines, in order (for replays)
	c04HeldFound   []string // complaints raised during the current operation
	c04HeldFoundOp [][]string
	c04HeldRot     int
	c04HeldStats   = map[string]int{}
	c04HeldTyped   = reflect.TypeOf(messages.Encrypted{}).NumField() == 7 && reflect.TypeOf(messages.Unencrypted{}).NumField() == 2
	c04HeldOldGC   = -2
	c04HeldOldLim  int64
	c04HeldScratch uint64 = 0x9e3779b97f4a7c15
)

func c04HeldSetup() {
	c04HeldOldGC = debug.SetGCPercent(-1)
	c04HeldOldLim = debug.SetMemoryLimit(1536 << 20)
}

func c04HeldRestore() {
	if c04HeldOldGC != -2 {
		debug.SetGCPercent(c04HeldOldGC)
		debug.SetMemoryLimit(c04HeldOldLim)
		c04HeldOldGC = -2
	}
}

// c04Snapshot copies every field of the struct behind p (a pointer) — exported or not, whatever fields the type
// has today.
func c04Snapshot(p interface{}) (fs []c04HeldField, size int) {
	v := reflect.ValueOf(p)
	if v.Kind() != reflect.Ptr || v.IsNil() || v.Elem().Kind() != reflect.Struct {
		return nil, 0
	}
	s := v.Elem()
	for i := 0; i < s.NumField(); i++ {
		f := s.Field(i)
		hf := c04HeldField{name: s.Type().Field(i).Name}
		switch {
		case f.Kind() == reflect.Slice && f.Type().Elem().Kind() == reflect.Uint8:
			hf.bytes, hf.isNil = true, f.IsNil()
			hf.b = append([]byte{}, f.Bytes()...)
			size += len(hf.b)
		case f.Kind() >= reflect.Int && f.Kind() <= reflect.Int64:
			hf.v = fmt.Sprint(f.Int())
		case f.Kind() >= reflect.Uint && f.Kind() <= reflect.Uintptr:
			hf.v = fmt.Sprint(f.Uint())
		case f.Kind() == reflect.Bool:
			hf.v = fmt.Sprint(f.Bool())
		case f.Kind() == reflect.String:
			hf.v = f.String()
		default:
			hf.v = fmt.Sprintf("%#v", f) // reflect.Value prints its content, also of unexported fields
		}
		fs = append(fs, hf)
	}
	return fs, size
}

// c04HeldHold registers a message at the moment it is handed out.
func c04HeldHold(live interface{}, where string) *c04HeldMsg {
	h := &c04HeldMsg{origin: c04HeldCur, where: where, opNo: c04HeldOpNo, live: live}
	switch m := live.(type) {
	case *messages.Encrypted:
		if m == nil {
			return &c04HeldMsg{dead: true}
		}
		h.enc = m
		h.fastEnc = *m
		h.fastEnc.Msg, h.fastEnc.AuthKeyHash, h.fastEnc.MsgKey = c04Clone(m.Msg), c04Clone(m.AuthKeyHash), c04Clone(m.MsgKey)
	case *messages.Unencrypted:
		if m == nil {
			return &c04HeldMsg{dead: true}
		}
		h.unenc = m
		h.fastUn = *m
		h.fastUn.Msg = c04Clone(m.Msg)
	default:
		return &c04HeldMsg{dead: true}
	}
	h.fields, h.size = c04Snapshot(live)
	c04Held = append(c04Held, h)
	c04HeldBytes += h.size
	c04HeldStats["held"]++
	if h.size >= c04HeldBigLen {
		c04HeldStats["held_big"]++
	}
	for c04HeldBytes > c04HeldMaxBytes {
		// memory: the oldest large message is compared a last time and let go
		drop := -1
		for i, o := range c04Held {
			if o.size >= c04HeldBigLen && o != h {
				drop = i
				break
			}
		}
		if drop < 0 {
			break
		}
		o := c04Held[drop]
		c04HeldCompare(o, true, "before letting go of it (memory)")
		c04HeldBytes -= o.size
		c04Held = append(c04Held[:drop], c04Held[drop+1:]...)
		c04HeldStats["let_go_for_memory"]++
	}
	return h
}

func c04Clone(b []byte) []byte {
	if b == nil {
		return nil
	}
	return append([]byte{}, b...)
}

func c04SameBytes(live, copy []byte, full bool) bool {
	if len(live) != len(copy) || (live == nil) != (copy == nil) {
		return false
	}
	n := len(live)
	if full || n < c04HeldBigLen {
		return bytes.Equal(live, copy)
	}
	if !bytes.Equal(live[:4096], copy[:4096]) || !bytes.Equal(live[n-4096:], copy[n-4096:]) {
		return false
	}
	for i := 0; i < 48; i++ {
		c04HeldScratch = c04HeldScratch*6364136223846793005 + 1442695040888963407
		off := int((c04HeldScratch >> 24) % uint64(n-64))
		if !bytes.Equal(live[off:off+64], copy[off:off+64]) {
			return false
		}
	}
	return true
}

// c04HeldCompare: is the live object still what was handed out? On a difference the complaint is recorded (once
// per message).
func c04HeldCompare(h *c04HeldMsg, full bool, when string) {
	if h.dead {
		return
	}
	c04HeldStats["comparisons"]++
	same := true
	if c04HeldTyped {
		switch {
		case h.enc != nil:
			m, c := h.enc, &h.fastEnc
			same = m.MsgID == c.MsgID && m.Salt == c.Salt && m.SessionID == c.SessionID && m.SeqNo == c.SeqNo &&
				c04SameBytes(m.MsgKey, c.MsgKey, true) && c04SameBytes(m.AuthKeyHash, c.AuthKeyHash, true) && c04SameBytes(m.Msg, c.Msg, full)
		case h.unenc != nil:
			same = h.unenc.MsgID == h.fastUn.MsgID && c04SameBytes(h.unenc.Msg, h.fastUn.Msg, full)
		}
		if same {
			return
		}
	}
	// the generic comparison, field by field: names the field (and is the only one when the types have changed)
	now, _ := c04Snapshot(h.live)
	var diffs []string
	for i, f := range h.fields {
		if i >= len(now) {
			break
		}
		g := now[i]
		if f.bytes {
			if !bytes.Equal(f.b, g.b) || f.isNil != g.isNil {
				d := fmt.Sprintf("field %s (%d bytes) is now %s, was %s", f.name, len(f.b), c04ShortHex(g.b), c04ShortHex(f.b))
				if len(f.b) == len(g.b) {
					first, cnt := -1, 0
					for j := range f.b {
						if f.b[j] != g.b[j] {
							if first < 0 {
								first = j
							}
							cnt++
						}
					}
					d += fmt.Sprintf(" (%d bytes differ, the first at offset %d)", cnt, first)
				}
				diffs = append(diffs, d)
			}
		} else if f.v != g.v {
			diffs = append(diffs, fmt.Sprintf("field %s is now %s, was %s", f.name, g.v, f.v))
		}
	}
	if len(diffs) == 0 {
		if !same {
			diffs = append(diffs, "the typed comparison differs while the field-by-field one does not (a window of a large body?)")
		} else {
			return
		}
	}
	h.dead = true
	c04HeldStats["changed"]++
	ops := c04HeldReplayOps(h)
	between := c04HeldOpNo - h.opNo
	what := "a message handed out by " + h.where + " is no longer the one that was handed out: " + strings.Join(diffs, "; ") +
		fmt.Sprintf(" — seen %s; it was handed out as [%s] by the operation [%s]", when, clip(h.shown), c04ClipN(h.origin, 160))
	if between > 0 {
		what += fmt.Sprintf(", %d operation(s) earlier", between)
	} else {
		what += " (this very operation, an earlier step)"
	}
	c04HeldFound = append(c04HeldFound, what)
	c04HeldFoundOp = append(c04HeldFoundOp, ops)
}

func c04ClipN(s string, n int) string {
	if len(s) > n {
		return s[:n] + fmt.Sprintf("…(%d chars)", len(s))
	}
	return s
}

func c04ShortHex(b []byte) string {
	if len(b) > 24 {
		return hexD(b[:24]) + "…"
	}
	if len(b) == 0 {
		return "-"
	}
	return hexD(b)
}

// the operation lines a replay needs: the one that handed the message out, what ran in between (all when few,
// else the last three), the current one
func c04HeldReplayOps(h *c04HeldMsg) []string {
	if h.origin == c04HeldCur && h.opNo == c04HeldOpNo {
		return []string{c04HeldCur}
	}
	ops := []string{h.origin}
	from := h.opNo + 1 // c04HeldRecent[i] is operation number i+1
	to := c04HeldOpNo - 1
	if to-from+1 > 8 {
		from = to - 2
	}
	for n := from; n <= to; n++ {
		if n-1 >= 0 && n-1 < len(c04HeldRecent) && !strings.HasPrefix(c04HeldRecent[n-1], "c04.heldcheck") {
			ops = append(ops, c04HeldRecent[n-1])
		}
	}
	return append(ops, c04HeldCur)
}

// c04HeldCheck compares what is held; sweep: everything, completely.
func c04HeldCheck(when string, sweep bool) {
	n := len(c04Held)
	if sweep || n <= c04HeldAllMax {
		for _, h := range c04Held {
			c04HeldCompare(h, sweep || c04HeldOpNo-h.opNo <= c04HeldFullNext, when)
		}
		return
	}
	for _, h := range c04Held[n-c04HeldAllMax/2:] {
		c04HeldCompare(h, c04HeldOpNo-h.opNo <= c04HeldFullNext, when)
	}
	old := n - c04HeldAllMax/2
	for i := 0; i < c04HeldAllMax/4; i++ {
		c04HeldRot = (c04HeldRot + 1) % old
		c04HeldCompare(c04Held[c04HeldRot], false, when)
	}
}

func c04HeldForceGC(when string) {
	runtime.GC()
	runtime.GC()
	c04HeldStats["forced_collections"] += 2
	c04HeldCheck(when+", after two forced collections", true)
}

// c04HeldBegin / c04HeldEnd bracket one operation (c04Exec).
func c04HeldBegin(op []string) {
	c04HeldCur = strings.Join(op, " ")
	c04HeldOpNo++
	if len(c04HeldCur) > 1<<16 {
		c04HeldRecent = append(c04HeldRecent, c04HeldCur[:1<<16])
	} else {
		c04HeldRecent = append(c04HeldRecent, c04HeldCur)
	}
	c04HeldFound, c04HeldFoundOp = nil, nil
}

func c04HeldEnd(out string) string {
	when := "after the operation [" + c04ClipN(c04HeldCur, 160) + "] had run"
	sweep := len(c04Held) > c04HeldAllMax && c04HeldOpNo%64 == 0
	c04HeldCheck(when, sweep)
	if c04HeldOpNo%c04HeldGCEvery == 0 {
		c04HeldForceGC(when)
	}
	if len(c04HeldFound) == 0 {
		return out
	}
	ops, _ := json.Marshal(c04HeldFoundOp[0])
	more := ""
	if len(c04HeldFound) > 1 {
		more = fmt.Sprintf(" (and %d more message(s) changed)", len(c04HeldFound)-1)
	}
	return out + c04HeldMark + c04HeldFound[0] + more + c04HeldOpsMark + string(ops)
}

// c04HeldJudge: Judge's part. The operation list travels in the complaint (checks/c04.py makes the replay of it).
func c04HeldJudge(out string) string {
	i := strings.Index(out, c04HeldMark)
	if i < 0 {
		return ""
	}
	return "a message that the receive path had handed out CHANGED afterwards (the property: never a message different from the one the key holder sealed — the caller holds the message, not a print of it): " + out[i+len(c04HeldMark):]
}

// c04HeldScribble overwrites the harness's own packet buffer after the call it was given to has returned.
func c04HeldScribble(buf []byte, h *c04HeldMsg, call string) {
	for i := range buf {
		buf[i] = ^buf[i] ^ 0x5a
	}
	c04HeldStats["input_buffers_overwritten"]++
	if h != nil {
		c04HeldCompare(h, true, "right after the caller's packet buffer was overwritten (the call "+call+" had returned; the buffer is the caller's)")
	}
}

// ---- c04.hold ---------------------------------------------------------------------------------------------

type c04HoldPeer struct {
	next chan []byte
	done chan struct{}
	inf  *c04Inf
	t    transport.Transport
	dead bool
}

func c04HoldDial() (*c04HoldPeer, string) {
	p := &c04HoldPeer{next: make(chan []byte), done: make(chan struct{}), inf: &c04Inf{}}
	go func() {
		defer close(p.done)
		conn, err := envListener.Accept()
		if err != nil {
			for range p.next {
			}
			return
		}
		ann := make([]byte, 4)
		_, _ = io.ReadFull(conn, ann)
		for pkt := range p.next {
			hdr := make([]byte, 4)
			binary.LittleEndian.PutUint32(hdr, uint32(len(pkt)))
			_, _ = conn.Write(hdr)
			_, _ = conn.Write(pkt)
		}
		_ = conn.Close()
	}()
	t, err := transport.NewTransport(p.inf, transport.TCPConnConfig{
		Ctx: context.Background(), Host: envListener.Addr().String(), Timeout: 10 * time.Second,
	}, mode.Intermediate)
	if err != nil {
		close(p.next)
		<-p.done
		return nil, "dial-error:" + err.Error()
	}
	p.t = t
	return p, ""
}

func (p *c04HoldPeer) close() {
	close(p.next)
	_ = p.t.Close()
	<-p.done
}

func (p *c04HoldPeer) read(key, pkt []byte, where string) string {
	if p.dead {
		return "err:transport(dead)"
	}
	p.inf.key = append([]byte{}, key...)
	p.next <- pkt
	var res string
	func() {
		defer func() {
			if r := recover(); r != nil {
				res, p.dead = "panic:"+panicSite(), true
			}
		}()
		c04HeldWhere = where
		msg, err := p.t.ReadMsg()
		var alive bool
		res, alive = c04Routed(msg, err)
		p.dead = !alive
	}()
	c04HeldWhere = ""
	return res
}

// where the next hand-out happens (set by multi-step operations; empty: the operation is one call)
var c04HeldWhere string

func c04HeldAt(call string) string {
	if c04HeldWhere != "" {
		return c04HeldWhere + " (" + call + ")"
	}
	return call
}

func c04Hold(op []string) string {
	if len(op) < 6 || (len(op)-2)%4 != 0 {
		return "bad-op"
	}
	md := strings.Split(op[1], ",")
	if len(md) != 2 || (md[0] != "p1" && md[0] != "pn") || (md[1] != "gcoff" && md[1] != "gcon" && md[1] != "gcforce") {
		return "bad-op"
	}
	steps := op[2:]
	for i := 0; i < len(steps); i += 4 {
		if !strings.Contains("o u r s O R", steps[i]) || len(steps[i]) != 1 {
			return "bad-op"
		}
		if steps[i] == "O" || steps[i] == "R" {
			if _, ok := c04ParseDesc(steps[i+2]); !ok {
				return "bad-op"
			}
		}
	}
	if md[0] == "p1" {
		defer runtime.GOMAXPROCS(runtime.GOMAXPROCS(1))
	}
	if md[1] == "gcon" {
		// the collector as an application has it, for this line
		debug.SetGCPercent(100)
		defer debug.SetGCPercent(-1)
	}
	var peers [2]*c04HoldPeer
	defer func() {
		for _, p := range peers {
			if p != nil {
				p.close()
			}
		}
	}()
	var outs []string
	for i := 0; i < len(steps); i += 4 {
		via, key := steps[i], envTok(steps[i+1])
		stepNo := i/4 + 1
		where := fmt.Sprintf("step %d of %d", stepNo, len(steps)/4)
		var pkt []byte
		if via == "O" || via == "R" {
			d, _ := c04ParseDesc(steps[i+2])
			pkt = d.packet(key)
		} else {
			pkt = envTok(steps[i+2])
		}
		var res string
		switch via {
		case "o", "O":
			c04HeldWhere = where
			func() {
				defer func() {
					if r := recover(); r != nil {
						res = "panic:" + panicSite()
					}
				}()
				res = c04Open(key, pkt)
			}()
			c04HeldWhere = ""
		case "u":
			c04HeldWhere = where
			func() {
				defer func() {
					if r := recover(); r != nil {
						res = "panic:" + panicSite()
					}
				}()
				res = c04Unenc(pkt)
			}()
			c04HeldWhere = ""
		default:
			pi := 0
			if via == "s" {
				pi = 1
			}
			if peers[pi] == nil {
				p, e := c04HoldDial()
				if p == nil {
					outs = append(outs, e)
					continue
				}
				peers[pi] = p
			}
			res = peers[pi].read(key, pkt, where)
		}
		outs = append(outs, res)
		short := res
		if len(short) > 48 {
			short = short[:48] + "…"
		}
		when := fmt.Sprintf("after step %d of this line (via %s, a packet of %d bytes, result %s)", stepNo, via, len(pkt), short)
		c04HeldCheck(when, false)
		if md[1] == "gcforce" {
			c04HeldForceGC(when)
		}
	}
	return strings.Join(outs, " ; ")
}

func c04HeldCheckOp(op []string) string {
	if len(op) != 2 {
		return "bad-op"
	}
	c04HeldCheck("at the check point '"+op[1]+"' (before any collection)", true)
	c04HeldForceGC("at the check point '" + op[1] + "'")
	c04HeldStats["check_points"]++
	return "held:intact" // a change is appended by c04HeldEnd
}

// c04JudgeHold: every step judged as the single-packet operation it is.
func c04JudgeHold(op []string, out string) string {
	if out == "bad-op" {
		return ""
	}
	steps := op[2:]
	outs := strings.Split(out, " ; ")
	n := len(steps) / 4
	if len(outs) != n {
		return fmt.Sprintf("a sequence of %d packets gave %d results", n, len(outs))
	}
	var hist []string
	for i := 0; i < n; i++ {
		via, k, p, e := steps[4*i], steps[4*i+1], steps[4*i+2], steps[4*i+3]
		var single []string
		switch via {
		case "o":
			single = []string{"c04.open", k, p, e}
		case "u":
			single = []string{"c04.udeser", p, e}
		case "r", "s":
			single = []string{"c04.route", k, p, e}
		case "O":
			single = []string{"c04.big", "open", k, p, e}
		case "R":
			single = []string{"c04.big", "route", k, p, e}
		}
		short := outs[i]
		if len(short) > 60 {
			short = short[:60] + "…"
		}
		hist = append(hist, fmt.Sprintf("%d: via %s -> %s", i+1, via, short))
		if why := c04Judge(single, outs[i]); why != "" {
			return fmt.Sprintf("packet %d of %d of a sequence whose messages are all held [%s]: %s", i+1, n, strings.Join(hist, " | "), why)
		}
	}
	return ""
}

// ---- generation -------------------------------------------------------------------------------------------

type c04HoldStep struct {
	via, key, pkt, exp string
}

func c04HoldLine(g *G, mode string, steps []c04HoldStep, tags ...string) {
	var toks []string
	for _, s := range steps {
		toks = append(toks, s.via, s.key, s.pkt, s.exp)
	}
	g.Emit("c04.hold "+mode+" "+strings.Join(toks, " "), append(tags, "hold", "hold-mode="+mode)...)
}

// c04HoldMenu makes one step of the named class for base b (a valid sealing under b's key is at hand).
// Classes that get as far as decrypting under the right key id: flip, cutblock, garbage*, parity, badlen, badmk,
// oneblock; classes refused before: foreign (wrong key id), unaligned, short, empty; not encrypted: plain, badplain, code.
var c04HoldRefusals = []string{"flip", "cutblock", "garbage1", "garbage-same", "garbage-longer", "garbage-shorter", "parity", "badlen", "badmk",
	"oneblock", "foreign", "unaligned", "short", "empty", "badplain", "code", "flip-header"}

func c04HoldFresh(g *G, b *c04Base, bl int) (pkt []byte, exp string) {
	r := g.R
	tok := c04BodyTok(g, bl)
	m := envMsg{Salt: r.U64(), Sid: r.U64(), Mid: r.U64()&^3 | uint64(r.Pick(1, 3)), Seq: uint32(r.U64()), Body: envTok(tok)}
	return envSeal(8, b.key, m, r.Bytes((16-(32+bl)%16)%16)), c04Expect(m, tok)
}

func c04HoldStepOf(g *G, class string, b, other *c04Base, via string) c04HoldStep {
	r := g.R
	keyID := envSha1(b.key)[12:20]
	n := len(b.pkt)
	bl := len(b.m.Body)
	st := c04HoldStep{via: via, key: b.keyTok, exp: "refuse"}
	var pkt []byte
	switch class {
	case "valid":
		var exp string
		pkt, exp = c04HoldFresh(g, b, r.Pick(0, 4, 20, 100, 333))
		st.exp = exp
	case "again": // the very packet once more: nothing in C04 forbids it (replays are C10's)
		pkt, st.exp = b.pkt, c04Expect(b.m, b.bodyTok)
	case "flip":
		pkt = c04Flip(b.pkt, 24*8+r.Intn((n-24)*8))
		st.exp = "alt" + strings.TrimPrefix(c04Expect(b.m, b.bodyTok), "ok")
	case "flip-header":
		pkt = c04Flip(b.pkt, 8*8+r.Intn(16*8)) // the msg_key: right key id, everything decrypts to something else
	case "cutblock":
		blocks := (n - 24) / 16
		pkt = b.pkt[:24+16*(1+r.Intn(blocks))]
		if len(pkt) == n {
			pkt = b.pkt[:n-16]
		}
	case "garbage1":
		pkt = append(append([]byte{}, keyID...), r.Bytes(16+16*2)...)
		st.exp = "any"
	case "garbage-same":
		pkt = append(append([]byte{}, keyID...), r.Bytes(n-8)...)
		st.exp = "any"
	case "garbage-longer":
		pkt = append(append([]byte{}, keyID...), r.Bytes(16+16*((n-24)/16+1+r.Intn(40)))...)
		st.exp = "any"
	case "garbage-shorter":
		pkt = append(append([]byte{}, keyID...), r.Bytes(16+16*(1+r.Intn((n-24)/16)))...)
		st.exp = "any"
	case "oneblock":
		pkt = append(append([]byte{}, keyID...), r.Bytes(16+16)...)
	case "parity":
		m := b.m
		m.Mid = m.Mid&^3 | uint64(r.Pick(0, 2))
		pkt = envSeal(8, b.key, m, r.Bytes((16-(32+bl)%16)%16))
	case "badlen":
		total := (32 + bl + 15) / 16 * 16
		decl := int64(r.Pick(-1, total-31, total, 1<<30))
		pkt = envSealRaw(8, b.key, c04Plain(b.m, decl, total, b.m.Body), total)
	case "badmk":
		plain := append(envPlain(b.m, uint32(bl)), r.Bytes((16-(32+bl)%16)%16)...)
		mk := append([]byte{}, envSha1(plain[:32+bl])[4:20]...)
		mk[r.Intn(16)] ^= 1 << uint(r.Intn(8))
		pkt = envSealWithMsgKey(8, b.key, plain, mk)
	case "foreign":
		pkt = other.pkt
	case "unaligned":
		pkt = append(append([]byte{}, b.pkt...), r.Bytes(1+r.Intn(15))...)
	case "short":
		pkt = append(append([]byte{}, keyID...), r.Bytes(r.Intn(32))...)
	case "empty":
		pkt = []byte{}
		if via != "o" {
			pkt = append(append([]byte{}, keyID...), r.Bytes(16)...) // (a frame has at least some bytes)
		}
	case "plain":
		pkt = c04SpecUnenc(r.U64()&^3|uint64(r.Pick(1, 3)), r.Bytes(r.Pick(0, 4, 20, 64, 400)))
		st.exp = "ok"
		if via != "u" {
			st.exp = "any"
		}
	case "badplain":
		pkt = c04SpecUnenc(r.U64()&^3|uint64(r.Pick(0, 2)), r.Bytes(r.Pick(0, 4, 20)))
		if r.Bool() {
			pkt = c04SpecUnenc(r.U64()&^3|1, r.Bytes(24))
			binary.LittleEndian.PutUint32(pkt[16:], uint32(r.Pick(0, 23, 25, 1<<31)))
		}
		if via == "o" {
			st.via = "u"
		}
	case "code":
		pkt = []byte{0x6c, 0xfe, 0xff, 0xff}
		st.exp = "any"
		if via == "o" {
			st.via, st.exp = "u", "refuse"
		}
	}
	if class == "plain" && via == "o" {
		st.via, st.exp = "u", "ok"
	}
	st.pkt = hexD(pkt)
	return st
}

func c04PickS(r *Rand, xs ...string) string { return xs[r.Intn(len(xs))] }

func c04GenHold(g *G) {
	r := g.R
	th := g.Thorough()
	modes := []string{"p1,gcoff", "pn,gcoff", "p1,gcforce", "pn,gcon"}
	vias := []string{"o", "r", "s"}
	for rep := 0; rep < g.N(1, 4); rep++ {
		for _, bl := range []int{4, 100, 1000} {
			A, B := c04NewBase(g, bl), c04NewBase(g, r.Pick(0, 20, 100))
			okA := c04Expect(A.m, A.bodyTok)
			// (a) a genuine packet, then ONE packet of every refusal class (and the accepted kinds), then a genuine one:
			// the first message is looked at after each. Directly and through a transport; pinned to one P, collector off.
			for _, class := range append(append([]string{}, c04HoldRefusals...), "valid", "again", "plain") {
				for _, via := range []string{"o", "r"} {
					if via == "r" && !th && bl != 100 && r.Intn(3) != 0 {
						continue
					}
					steps := []c04HoldStep{{via, A.keyTok, hexD(A.pkt), okA}, c04HoldStepOf(g, class, A, B, via), c04HoldStepOf(g, "valid", A, B, via)}
					c04HoldLine(g, "p1,gcoff", steps, "hold:one-of-each-class", "hold-class="+class)
				}
			}
			// (b) a plain-text message is held while encrypted and plain packets follow
			for _, class := range []string{"plain", "badplain", "valid", "garbage-longer", "flip"} {
				via := c04PickS(r, "o", "r")
				steps := []c04HoldStep{c04HoldStepOf(g, "plain", A, B, via), c04HoldStepOf(g, class, A, B, via), c04HoldStepOf(g, "plain", A, B, via)}
				c04HoldLine(g, "p1,gcoff", steps, "hold:plain-held", "hold-class="+class)
			}
			// (c) the message comes from one transport / key, the next packets go elsewhere: the other transport, the
			// deserialiser called directly, another key
			for i := 0; i < 6; i++ {
				v1, v2 := vias[i%3], vias[(i+1+i/3)%3]
				steps := []c04HoldStep{{v1, A.keyTok, hexD(A.pkt), okA},
					c04HoldStepOf(g, c04PickS(r, "garbage-longer", "flip", "valid", "badmk"), B, A, v2),
					c04HoldStepOf(g, "valid", B, A, v2), c04HoldStepOf(g, "valid", A, B, v1)}
				c04HoldLine(g, modes[i%2], steps, "hold:other-transport-or-key")
			}
			// (d) random walks: 4..12 packets, every class, every route, all four modes
			for i := 0; i < g.N(8, 40); i++ {
				var steps []c04HoldStep
				for j, n := 0, 4+r.Intn(9); j < n; j++ {
					b, o := A, B
					if r.Intn(4) == 0 {
						b, o = B, A
					}
					class := "valid"
					switch r.Intn(5) {
					case 0, 1:
						class = c04HoldRefusals[r.Intn(len(c04HoldRefusals))]
					case 2:
						class = c04PickS(r, "again", "plain", "valid")
					}
					steps = append(steps, c04HoldStepOf(g, class, b, o, vias[r.Intn(3)]))
				}
				c04HoldLine(g, modes[i%4], steps, "hold:random-walk")
			}
		}
	}
	// (e) large packets between small ones: the buffer behind a small message is replaced / outgrown
	keyTok := fmt.Sprintf("x256:%d", r.U64()>>1)
	K := &c04Base{keyTok: keyTok, key: envTok(keyTok)}
	sizes := []int{1 << 12, 1 << 16, 1 << 20}
	if th {
		sizes = append(sizes, 1<<18, 1<<22, 1<<24)
	}
	for _, total := range sizes {
		for _, via := range []string{"O", "R"} {
			small := strings.ToLower(via)
			decl := total - 32 - r.Intn(16)
			p1, e1 := c04HoldFresh(g, K, 20)
			p2, e2 := c04HoldFresh(g, K, 100)
			steps := []c04HoldStep{{small, keyTok, hexD(p1), e1},
				{via, keyTok, fmt.Sprintf("r:%d:%d:%d:%d", total, r.U64()>>1, decl, 32+decl), "ok"},
				{small, keyTok, hexD(p2), e2},
				{via, keyTok, fmt.Sprintf("g:%d:%d", 24+total, r.U64()>>1), "any"},
				{via, keyTok, fmt.Sprintf("r:%d:%d:%d:%d", total/2, r.U64()>>1, total/2-32, total/2), "ok"},
				{via, keyTok, fmt.Sprintf("g:%d:%d", 24+total+16, r.U64()>>1), "any"},
				{small, keyTok, hexD(p1), e1}}
			c04HoldLine(g, c04PickS(r, "p1,gcoff", "pn,gcoff"), steps, "hold:big-between-small", fmt.Sprintf("hold-big-total=%d", total))
		}
	}
}

// c04GenCheckPoint: everything held so far is compared completely, after forced collections.
func c04GenCheckPoint(g *G, label string) {
	g.Emit("c04.heldcheck "+label, "heldcheck")
}
