package main

// C15, inputs whose cost grows faster than their length unless the decoder refuses in time. The mutation stage
// of c15.go starts from valid encodings of moderate depth and never measured packed objects at all; the two
// defects repaired by 5211125 (packed objects nested without limit, every level copied by the level above) and
// d6af418 (a vector allocated all the slots it announces; vectors nested in each other each announcing every
// byte left) need inputs that are DEEP and whose counts are as large as the size guards let them be. Both are
// quadratic: no single call panics, loops or answers differently - only time and allocation per call show
// them, and only from a few hundred levels on.
//
//   c15.nest <place> <level> <n> <core> <hints>
//       n packed levels around <core> (bytes). level g: every level is a gzip_packed; rg: every level is an
//       rpc_result holding a gzip_packed. place root | rpc (the whole inside one more rpc_result) | cont (the
//       whole as the body of the one member of a msg_container). The gzip members are written HERE (stored
//       deflate blocks, so that a level costs 39 bytes and 3000 levels fit into 117 KB) and the Lean driver
//       writes the same bytes; compress/gzip reads them back (checked on every operation).
//   c15.rep <target> <mode> <k> <pre> <preoff> <unit> <off> <suffix>
//       the input is pre ++ unit x k ++ suffix; <off> is the position of a 32-bit count inside unit (- = none),
//       <preoff> likewise inside pre. Every count is replaced according to <mode>, computed from the number of
//       bytes that FOLLOW the count in the whole input: left (exactly what the guard allows), leftp1 (one more:
//       refused), left4, left12, max31 (2^31-1), one, two. target u:<hints> = DecodeUnknownObject with hints,
//       n:<id> = Decode into the named type. The units are found through the registry: every constructor that
//       has a field whose type (or vector element type) is an interface the constructor itself implements.
//
// Judge (for these and for every c15.unk / c15.named): no panic; the call returns within c15MaxDur; the bytes
// allocated during the call (runtime.MemStats.TotalAlloc) stay below c15AllocBound: proportional to the input
// plus what the packed objects in it really inflate to.

import (
	"encoding/binary"
	"fmt"
	"hash/crc32"
	"reflect"
	"sort"
	"strconv"
	"strings"
	"time"

	"github.com/xelaj/mtproto/verifharness/internal/reg"
)

// c15MaxDur: a single decode of at most a few hundred KB that takes longer is counted as "does not terminate
// in time" (the repaired decoder needs milliseconds for every input generated here).
const c15MaxDur = 5 * time.Second

// c15AllocBound: what one call may allocate. Per input byte the decoder builds Go values through reflection
// (an interface element of a vector: 4 bytes of input, a pointer, an object, a reflect.Value - a few hundred
// bytes), and per packed object it sets up an inflater (about 50 KB for as little as 30 bytes of input: the
// factor 2 KiB per byte pays for that); what a packed object inflates to is copied a few times (buffer growth,
// PopMessage, strings: measured 25 bytes per inflated byte, the bound takes 48). `inflated` is the sum over the packed objects the harness itself found in the input
// (its own scan and compress/gzip) of the length of what they inflate to - genuine expansion, the property's
// exemption; a number a packed object merely ANNOUNCES (a trailer, a count) is not in it.
func c15AllocBound(inputLen, inflated int) uint64 {
	return 2<<20 + uint64(inputLen)*2048 + uint64(inflated)*48
}

// ---- gzip members made of stored blocks ---------------------------------------------------------------------

func c15StoredGzip(plain []byte) []byte {
	out := []byte{0x1f, 0x8b, 8, 0, 0, 0, 0, 0, 0, 0xff}
	p := plain
	for {
		n := len(p)
		final := byte(1)
		if n > 65535 {
			n, final = 65535, 0
		}
		out = append(out, final, byte(n), byte(n>>8), byte(^n), byte(^n>>8))
		out = append(out, p[:n]...)
		p = p[n:]
		if final == 1 {
			break
		}
	}
	out = append(out, le32(crc32.ChecksumIEEE(plain))...)
	return append(out, le32(uint32(len(plain)))...)
}

// c15TLString: length header, bytes, padding (the harness's own writer)
func c15TLString(b []byte) []byte {
	var out []byte
	if len(b) < 254 {
		out = append(out, byte(len(b)))
	} else {
		out = append(out, 0xfe, byte(len(b)), byte(len(b)>>8), byte(len(b)>>16))
	}
	out = append(out, b...)
	for len(out)%4 != 0 {
		out = append(out, 0)
	}
	return out
}

func c15NestBytes(place, level string, n int, core []byte) ([]byte, bool) {
	x := core
	for i := 1; i <= n; i++ {
		g := c15cat(le32(0x3072cfa1), c15TLString(c15StoredGzip(x)))
		if level == "rg" {
			g = c15cat(le32(0xf35c6d01), le64(uint64(i)), g)
		} else if level != "g" {
			return nil, false
		}
		x = g
	}
	switch place {
	case "root":
		return x, true
	case "rpc":
		return c15cat(le32(0xf35c6d01), le64(7), x), true
	case "cont":
		return c15cat(le32(0x73f1f8dc), le32(1), le64(0x5e0b700a00000001), le32(1), le32(uint32(len(x))), x), true
	}
	return nil, false
}

// ---- repeated groups ----------------------------------------------------------------------------------------

func c15CountFor(mode string, left int) (uint32, bool) {
	switch mode {
	case "left":
		return uint32(left), true
	case "leftp1":
		return uint32(left + 1), true
	case "left4":
		return uint32(left / 4), true
	case "left12":
		return uint32(left / 12), true
	case "max31":
		return 0x7fffffff, true
	case "one":
		return 1, true
	case "two":
		return 2, true
	}
	return 0, false
}

func c15ParseOff(s string) (int, bool) {
	if s == "-" {
		return -1, true
	}
	n, err := strconv.Atoi(s)
	return n, err == nil && n >= 0
}

func c15RepBytes(mode string, pre []byte, preOff int, unit []byte, off, k int, suffix []byte) ([]byte, bool) {
	total := len(pre) + k*len(unit) + len(suffix)
	out := make([]byte, 0, total)
	patch := func(seg []byte, o int) bool {
		start := len(out)
		out = append(out, seg...)
		if o < 0 {
			return true
		}
		if len(seg) < o+4 {
			return false
		}
		c, ok := c15CountFor(mode, total-(start+o+4))
		binary.LittleEndian.PutUint32(out[start+o:], c)
		return ok
	}
	if !patch(pre, preOff) {
		return nil, false
	}
	for i := 0; i < k; i++ {
		if !patch(unit, off) {
			return nil, false
		}
	}
	out = append(out, suffix...)
	return out, true
}

// c15DeepInput builds the bytes of a c15.nest / c15.rep operation and says how it is decoded.
func c15DeepInput(op []string) (bs []byte, hints string, named uint32, ok bool) {
	switch {
	case op[0] == "c15.nest" && len(op) == 6:
		n, err := strconv.Atoi(op[3])
		if err != nil || n < 0 {
			return nil, "", 0, false
		}
		bs, ok = c15NestBytes(op[1], op[2], n, parseBytes(op[4]))
		return bs, op[5], 0, ok
	case op[0] == "c15.rep" && len(op) == 9:
		k, err := strconv.Atoi(op[3])
		preOff, ok1 := c15ParseOff(op[5])
		off, ok2 := c15ParseOff(op[7])
		if err != nil || k < 0 || !ok1 || !ok2 {
			return nil, "", 0, false
		}
		bs, ok = c15RepBytes(op[2], parseBytes(op[4]), preOff, parseBytes(op[6]), off, k, parseBytes(op[8]))
		if !ok {
			return nil, "", 0, false
		}
		switch {
		case strings.HasPrefix(op[1], "u:"):
			return bs, op[1][2:], 0, true
		case strings.HasPrefix(op[1], "n:"):
			var id uint32
			if _, err := fmt.Sscanf(op[1][2:], "%x", &id); err != nil {
				return nil, "", 0, false
			}
			return bs, "", id, true
		}
	}
	return nil, "", 0, false
}

// c15NestSelfCheck: compress/gzip must read the members written here back to what was put into them (the
// outermost levels, which are the ones a decoder opens).
func c15NestSelfCheck(op []string) bool {
	n, _ := strconv.Atoi(op[3])
	if n > 6 {
		n = 6
	}
	x := parseBytes(op[4])
	for i := 0; i < n; i++ {
		z := c15StoredGzip(x)
		back, ok := goGunzip(z)
		if !ok || string(back) != string(x) {
			return false
		}
		x = c15cat(le32(0x3072cfa1), c15TLString(z))
	}
	return true
}

// ---- generation ---------------------------------------------------------------------------------------------

// c15Recursive: one repeated group per constructor that can contain itself: the constructor id, the fields
// in front of the self-referential field written in their smallest form (conditional ones absent), and - when
// the field is a vector - the vector id and a count to be filled in.
type c15Unit struct {
	c     *reg.Ctor
	iface string
	unit  []byte
	off   int // position of the count, -1 when the field is the interface itself
}

func c15MinimalField(t reflect.Type) ([]byte, bool) {
	switch {
	case t == tInt128:
		return make([]byte, 16), true
	case t == tInt256:
		return make([]byte, 32), true
	case t == reflect.TypeOf([]byte(nil)):
		return make([]byte, 4), true
	}
	switch t.Kind() {
	case reflect.Int32, reflect.Uint32:
		return make([]byte, 4), true
	case reflect.Int64, reflect.Float64:
		return make([]byte, 8), true
	case reflect.String:
		return make([]byte, 4), true
	case reflect.Bool:
		return le32(0xbc799737), true
	case reflect.Slice:
		return c15cat(le32(0x1cb5c415), le32(0)), true
	}
	return nil, false
}

func c15RecursiveUnits() []c15Unit {
	var out []c15Unit
	all := reg.All()
	for ci := range all {
		c := &all[ci]
		if c.Kind != "struct" || !marshalable(c) {
			continue
		}
		for fi, f := range c.Fields {
			var it reflect.Type
			vec := false
			switch {
			case f.Type.Kind() == reflect.Interface:
				it = f.Type
			case f.Type.Kind() == reflect.Slice && f.Type.Elem().Kind() == reflect.Interface:
				it, vec = f.Type.Elem(), true
			default:
				continue
			}
			if !c.Type.Implements(it) || f.InBits {
				continue
			}
			// the group: id, fields before field fi, (vector id, count)
			unit := le32(c.ID)
			ok := true
			for j := 0; j <= fi && ok; j++ {
				g := c.Fields[j]
				if j == c.FlagIndex {
					var flags uint32
					if f.HasFlag {
						flags = 1 << uint(f.Bit)
					}
					unit = append(unit, le32(flags)...)
				}
				if j == fi {
					break
				}
				if g.HasFlag || g.Ignore {
					continue
				}
				m, can := c15MinimalField(g.Type)
				if !can {
					ok = false
					break
				}
				unit = append(unit, m...)
			}
			if !ok || (f.HasFlag && (c.FlagIndex < 0 || c.FlagIndex > fi)) {
				continue
			}
			u := c15Unit{c: c, iface: it.String(), unit: unit, off: -1}
			if vec {
				u.off = len(unit) + 4
				u.unit = c15cat(unit, le32(0x1cb5c415), le32(0))
			}
			out = append(out, u)
			break
		}
	}
	sort.Slice(out, func(i, j int) bool { return out[i].c.ID < out[j].c.ID })
	return out
}

func c15DeepGen(g *G) {
	r := g.R
	pong := c15cat(le32(0x347773c5), le64(5), le64(6))
	vecLongs := c15cat(le32(0x1cb5c415), le32(2), le64(1), le64(2))
	cores := []struct {
		b     []byte
		hints string
	}{{pong, "-"}, {vecLongs, "i64"}, {le32(0xbc799737), "-"}, {r.Bytes(16), "-"}, {nil, "-"}}
	// (i) packed objects nested 0..8 deep in every place, then deeper and deeper
	for _, place := range []string{"root", "rpc", "cont"} {
		for _, level := range []string{"g", "rg"} {
			for n := 0; n <= 8; n++ {
				for _, c := range cores {
					g.Emit(fmt.Sprintf("c15.nest %s %s %d %s %s", place, level, n, hexD(c.b), c.hints), "packed-nested-"+place)
				}
			}
		}
	}
	deep := []int{12, 40, 150, 400, 700, 1000}
	if g.Thorough() {
		deep = append(deep, 1500, 2200, 3000)
	}
	for i, n := range deep {
		n += r.Intn(n/8 + 1)
		place := []string{"root", "rpc", "cont"}[i%3]
		g.Emit(fmt.Sprintf("c15.nest root g %d %s -", n, hexD(pong)), "packed-nested-deep")
		g.Emit(fmt.Sprintf("c15.nest %s rg %d %s -", place, n+1, hexD(pong)), "packed-nested-deep")
		if i%2 == 0 {
			g.Emit(fmt.Sprintf("c15.nest rpc g %d %s i64", n+2, hexD(vecLongs)), "packed-nested-deep")
		}
	}
	// (ii) constructors that can contain themselves, repeated, every count as large as the guard allows
	units := c15RecursiveUnits()
	g.Extra["recursive_constructors"] = len(units)
	modesVec := []string{"left", "left4", "leftp1", "left12", "max31", "one", "two"}
	ks := []int{1, 2, 3, 7, 30}
	kDeep := []int{150, 500, 1100}
	if g.Thorough() {
		kDeep = append(kDeep, 2000, 4000)
	}
	perUnitDeep := g.N(1, 3)
	for ui, u := range units {
		modes := modesVec
		if u.off < 0 {
			modes = []string{"one"} // no count in the group: the mode is not used
		}
		hintTok := "f" + u.iface
		emit := func(mode string, k int, tag string) {
			unit, off := hexD(u.unit), strconv.Itoa(u.off)
			if u.off < 0 {
				off = "-"
			}
			// unhinted, at the root
			g.Emit(fmt.Sprintf("c15.rep u:- %s %d - - %s %s -", mode, k, unit, off), tag)
			// the same bytes (up to 2 KiB: the model pays for the cost of a deep input with time quadratic in its depth) with the model's cost next to the result, the real allocation measured
			// against it (c15cost.go): every count as large as the guard allows is where a decoder that allocates
			// what a count announces leaves the model's count behind
			if bs, _, _, ok := c15DeepInput(strings.Fields(fmt.Sprintf("c15.rep u:- %s %d - - %s %s -", mode, k, unit, off))); ok && len(bs) <= 2048 {
				g.Emit(fmt.Sprintf("c15.cost u %s - -", hexD(bs)), "cost:"+tag)
				g.Emit(fmt.Sprintf("c15.cost n %08x %s -", u.c.ID, hexD(bs)), "cost:"+tag+"-named")
			}
			// named type
			g.Emit(fmt.Sprintf("c15.rep n:%08x %s %d - - %s %s -", u.c.ID, mode, k, unit, off), tag+"-named")
			// hinted: a vector of the interface at the root, and inside rpc_result
			g.Emit(fmt.Sprintf("c15.rep u:%s %s %d %s 4 %s %s -", hintTok, mode, k, hexD(c15cat(le32(0x1cb5c415), le32(0))), unit, off), tag+"-hinted")
			if k%2 == 1 {
				g.Emit(fmt.Sprintf("c15.rep u:%s %s %d %s 16 %s %s -", hintTok, mode, k,
					hexD(c15cat(le32(0xf35c6d01), le64(r.U64()), le32(0x1cb5c415), le32(0))), unit, off), tag+"-hinted")
			}
		}
		for _, mode := range modes {
			for _, k := range ks {
				if len(modes) > 1 && !g.Thorough() && (ui+k)%3 != 0 && mode != "left" {
					continue
				}
				emit(mode, k, "recursive-counts")
			}
		}
		// deep: every unit with the mode that costs most, some with the others
		for t := 0; t < perUnitDeep; t++ {
			k := kDeep[(ui+t)%len(kDeep)]
			k += r.Intn(k/8 + 1)
			mode := modes[0]
			if t > 0 || ui%4 == 3 {
				mode = modes[r.Intn(len(modes))]
			}
			emit(mode, k, "recursive-counts-deep")
		}
	}
	// vectors of scalars / strings nested through hints cannot nest; a flat vector announcing every byte left
	for _, h := range []string{"i32", "i64", "str", "bytes", "bool", "f64", "ftl.Object"} {
		for _, mode := range modesVec {
			for _, n := range []int{0, 1, 5, 4000} {
				g.Emit(fmt.Sprintf("c15.rep u:%s %s 1 - - %s 4 %s", h, mode, hexD(c15cat(le32(0x1cb5c415), le32(0))), "z"+strconv.Itoa(4*n)), "flat-vector-counts")
			}
		}
	}
}

// ---- packed objects whose gzip member is not what a gzip writer makes ---------------------------------------

// c15GzipMutants: a valid member around `plain`, then every field of header and trailer changed: ISIZE and
// CRC-32 (numbers the peer writes; nothing ties them to the data), MTIME, XFL, OS, the FLG bits with their
// optional parts (FEXTRA with a length, FNAME, FCOMMENT, FHCRC) present / announced but missing / oversized,
// several members in one string, bytes after the member, a member cut anywhere.
func c15GzipMutants(g *G, plain []byte) (out [][]byte, tags []string) {
	r := g.R
	add := func(tag string, z []byte) { out = append(out, z); tags = append(tags, tag) }
	z := goGzip(plain)
	zs := c15StoredGzip(plain)
	for _, base := range [][]byte{z, zs} {
		n := len(base)
		sizes := []uint32{0, 1, uint32(len(plain)) + 1, uint32(len(plain) / 2), 1 << 12, 1 << 16, 1 << 20, 1 << 22, 1 << 23, 1 << 24, 1 << 26, 1 << 27, 1 << 28}
		for _, v := range sizes {
			m := append([]byte{}, base...)
			binary.LittleEndian.PutUint32(m[n-4:], v)
			add("gzip-trailer-isize", m)
		}
		for _, v := range []uint32{0, 0xffffffff, 1 << 28, uint32(r.U64())} {
			m := append([]byte{}, base...)
			binary.LittleEndian.PutUint32(m[n-8:], v)
			add("gzip-trailer-crc", m)
			m2 := append([]byte{}, m...)
			binary.LittleEndian.PutUint32(m2[n-4:], 1<<uint(20+r.Intn(9)))
			add("gzip-trailer-crc-and-isize", m2)
		}
		for _, v := range []uint32{1, 0x7fffffff, 0xffffffff, 1 << 28} { // MTIME
			m := append([]byte{}, base...)
			binary.LittleEndian.PutUint32(m[4:], v)
			add("gzip-header-mtime", m)
		}
		for _, v := range []byte{0, 2, 4, 0xff} { // XFL, OS
			m := append([]byte{}, base...)
			m[8] = v
			add("gzip-header-xfl", m)
			m2 := append([]byte{}, base...)
			m2[9] = v
			add("gzip-header-os", m2)
		}
		for _, v := range []byte{0, 7, 9, 0xff} { // CM
			m := append([]byte{}, base...)
			m[2] = v
			add("gzip-header-cm", m)
		}
		body := base[10:]
		hdr := func(flg byte) []byte { h := append([]byte{}, base[:10]...); h[3] = flg; return h }
		// optional parts, well formed
		extra := r.Bytes(r.Intn(20))
		add("gzip-header-fextra", c15cat(hdr(4), []byte{byte(len(extra)), 0}, extra, body))
		add("gzip-header-fname", c15cat(hdr(8), []byte("name.bin\x00"), body))
		add("gzip-header-fcomment", c15cat(hdr(16), []byte("a comment\x00"), body))
		add("gzip-header-all-optional", c15cat(hdr(4|8|16), []byte{3, 0, 1, 2, 3}, []byte("n\x00"), []byte("c\x00"), body))
		add("gzip-header-fhcrc-wrong", c15cat(hdr(2), []byte{0x12, 0x34}, body))
		add("gzip-header-ftext", c15cat(hdr(1), body))
		add("gzip-header-reserved-bits", c15cat(hdr(0xe0), body))
		// optional parts announced with lengths the string does not hold
		for _, xl := range []uint16{0xffff, 0x8000, uint16(len(body)), uint16(len(body) + 1), 1} {
			add("gzip-header-fextra-length", c15cat(hdr(4), []byte{byte(xl), byte(xl >> 8)}, body))
		}
		add("gzip-header-fname-unterminated", c15cat(hdr(8), body))
		add("gzip-header-fcomment-unterminated", c15cat(hdr(16), []byte("no end"), body))
		long := make([]byte, 3000)
		for i := range long {
			long[i] = 'a' + byte(i%26)
		}
		add("gzip-header-fname-long", c15cat(hdr(8), long, []byte{0}, body))
		// several members, bytes after the member
		add("gzip-two-members", c15cat(base, base))
		add("gzip-three-members", c15cat(base, zs, z))
		add("gzip-member-then-header-only", c15cat(base, base[:10]))
		add("gzip-trailing-garbage", c15cat(base, r.Bytes(1+r.Intn(40))))
		add("gzip-trailing-zeros", c15cat(base, make([]byte, 1+r.Intn(64))))
		mm := c15cat(base, base)
		binary.LittleEndian.PutUint32(mm[len(mm)-4:], 1<<27)
		add("gzip-two-members-isize", mm)
		binary.LittleEndian.PutUint32(mm[len(base)-4:], 1<<27)
		add("gzip-two-members-isize-first", append([]byte{}, mm...))
		// cut anywhere
		for t := 0; t < g.N(4, 16); t++ {
			add("gzip-cut", append([]byte{}, base[:r.Intn(n)]...))
		}
		add("gzip-no-trailer", append([]byte{}, base[:n-8]...))
		add("gzip-half-trailer", append([]byte{}, base[:n-4]...))
	}
	// stored block lengths that lie
	for _, ln := range []uint16{0xffff, uint16(len(plain) + 1), 0} {
		m := append([]byte{}, zs...)
		m[11], m[12], m[13], m[14] = byte(ln), byte(ln>>8), byte(^ln), byte(^ln>>8)
		add("gzip-stored-length", m)
	}
	return out, tags
}

func c15GzipMutGen(g *G, emitUnk func(b []byte, hints string, tag string)) {
	r := g.R
	pong := c15cat(le32(0x347773c5), le64(5), le64(6))
	plains := [][]byte{pong, c15cat(le32(0x1cb5c415), le32(3), le64(1), le64(2), le64(3)), nil}
	if g.Thorough() {
		big := c15cat(le32(0x2144ca19), le32(400), c15TLString(make([]byte, 20000))) // rpc_error with a long, compressible message
		plains = append(plains, big, r.Bytes(64))
	}
	for pi, plain := range plains {
		hints := "-"
		if pi == 1 {
			hints = "i64"
		}
		zsOut, tags := c15GzipMutants(g, plain)
		for i, z := range zsOut {
			packed := c15cat(le32(0x3072cfa1), c15TLString(z))
			emitUnk(packed, hints, tags[i])
			emitUnk(c15cat(le32(0xf35c6d01), le64(r.U64()), packed), hints, tags[i]+"-in-rpc-result")
			if i%5 == 0 {
				// one level further in: the mutated member inside a well-formed packed object
				emitUnk(c15cat(le32(0x3072cfa1), c15TLString(goGzip(packed))), hints, tags[i]+"-nested")
			}
		}
	}
}
