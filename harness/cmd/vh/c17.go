package main

// C17 — RPC errors as structured errors for every error text (pure part).
//
// Real code exercised: mtproto.TryExpandError, mtproto.RpcErrorToNative(&objects.RpcError{…}) and,
// through the build-tag-verif hook VerifTryToProcessErr, (*MTProto).tryToProcessErr on a client
// that is connected to a bare loopback listener (no MTProto peer: the listeners only accept and
// count connections, which is enough to observe "switch the address and reconnect").
//
// Operations (one per line; byte strings as hex, "-" = empty):
//
//	c17.expand  <text>                 TryExpandError(text)
//	c17.native  <code> <text>          RpcErrorToNative(&RpcError{code, text})
//	c17.process <dcs> <code> <text>    RpcErrorToNative, then tryToProcessErr on a client whose DC
//	                                   table is defaultDCList overridden by <dcs> = id:SYM,… | "-"
//	                                   (SYM ∈ A, B: loopback listeners)
//	c17.ident / c17.callers            sequences of replies with every earlier error HELD (c17ident.go)
//	c17.atoi    <text>                 strconv.Atoi(text)           (library model, not judged)
//	c17.sprintf <format> <operand>     fmt.Sprintf(format, operand) (library model, not judged;
//	                                   operand = int:<n> | str:<hex>; formats of the modelled subset)
//
// The facts the generator and the oracle need (rows, catalogue, default DC list) are read from the
// JSON written by harness/cmd/c17facts from the same working tree ($C17_FACTS, or c17facts.json
// next to the executable).

import (
	"encoding/hex"
	"encoding/json"
	"fmt"
	"net"
	"os"
	"path/filepath"
	"runtime"
	"strconv"
	"strings"
	"sync"
	"time"

	"github.com/pkg/errors"

	"github.com/xelaj/mtproto"
	"github.com/xelaj/mtproto/internal/mtproto/objects"
	"github.com/xelaj/mtproto/internal/session"
)

// ---- facts ---------------------------------------------------------------------------------------

type c17Row struct {
	Prefix string `json:"prefix"`
	Suffix string `json:"suffix"`
	Kind   string `json:"kind"`
}

type c17Facts struct {
	Rows      []c17Row `json:"rows"`
	Catalogue []struct {
		Key string `json:"key"`
		Val string `json:"val"`
	} `json:"catalogue"`
	DCs []struct {
		ID   int64  `json:"id"`
		Addr string `json:"addr"`
	} `json:"dcs"`
}

var (
	c17F       *c17Facts
	c17Cat     map[string]string
	c17Default map[int64]string
)

func c17LoadFacts() {
	if c17F != nil {
		return
	}
	p := os.Getenv("C17_FACTS")
	if p == "" {
		exe, _ := os.Executable()
		p = filepath.Join(filepath.Dir(exe), "c17facts.json")
	}
	b, err := os.ReadFile(p)
	if err != nil {
		panic("c17: facts file not readable (run harness/cmd/c17facts first): " + err.Error())
	}
	f := &c17Facts{}
	if err := json.Unmarshal(b, f); err != nil {
		panic("c17: facts file: " + err.Error())
	}
	c17F = f
	c17Cat = map[string]string{}
	for _, kv := range f.Catalogue {
		c17Cat[kv.Key] = kv.Val
	}
	c17Default = map[int64]string{}
	for _, d := range f.DCs {
		c17Default[d.ID] = d.Addr
	}
}

// ---- the specification the oracle judges by (written from the property text, not from the code) --

// The 15 families of parameterised errors of the property ("every entry of the 15-row
// prefix/suffix table"), as documented by Telegram: prefix, suffix around a decimal number.
var c17SpecRows = [][2]string{
	{"EMAIL_UNCONFIRMED_", ""},
	{"FILE_MIGRATE_", ""},
	{"FILE_PART_", "_MISSING"},
	{"FLOOD_TEST_PHONE_WAIT_", ""},
	{"FLOOD_WAIT_", ""},
	{"INTERDC_", "_CALL_ERROR"},
	{"INTERDC_", "_CALL_RICH_ERROR"},
	{"NETWORK_MIGRATE_", ""},
	{"PASSWORD_TOO_FRESH_", ""},
	{"PHONE_MIGRATE_", ""},
	{"SESSION_TOO_FRESH_", ""},
	{"SLOWMODE_WAIT_", ""},
	{"STATS_MIGRATE_", ""},
	{"TAKEOUT_INIT_DELAY_", ""},
	{"USER_MIGRATE_", ""},
}

// specNumber: "a numeric parameter" = what fits a Go int written in decimal with an optional sign.
// Independent of strconv.Atoi: hand-written.
func specNumber(s string) (int64, bool) {
	neg := false
	t := s
	if len(t) > 0 && (t[0] == '+' || t[0] == '-') {
		neg = t[0] == '-'
		t = t[1:]
	}
	if len(t) == 0 {
		return 0, false
	}
	var v uint64
	for i := 0; i < len(t); i++ {
		c := t[i]
		if c < '0' || c > '9' {
			return 0, false
		}
		d := uint64(c - '0')
		if v > (1<<63)/10 {
			return 0, false
		}
		v = v*10 + d
		if v > 1<<63 {
			return 0, false
		}
	}
	if neg {
		if v == 1<<63 {
			return -1 << 63, true
		}
		return -int64(v), true
	}
	if v >= 1<<63 {
		return 0, false
	}
	return int64(v), true
}

// specSplit: is text = prefix ++ number ++ suffix for one of the 15 families?
func specSplit(text string) (name string, n int64, ok bool) {
	for _, r := range c17SpecRows {
		if len(text) >= len(r[0])+len(r[1]) && strings.HasPrefix(text, r[0]) && strings.HasSuffix(text, r[1]) {
			mid := text[len(r[0]) : len(text)-len(r[1])]
			if v, isNum := specNumber(mid); isNum {
				return r[0] + "X" + r[1], v, true
			}
		}
	}
	return "", 0, false
}

// ---- canonical results ----------------------------------------------------------------------------

func c17Param(v interface{}) string {
	switch x := v.(type) {
	case nil:
		return "none"
	case int:
		return "int:" + strconv.Itoa(x)
	case string:
		return "str:" + hexD([]byte(x))
	}
	return fmt.Sprintf("other:%T", v)
}

func c17Expand(text []byte) string {
	name, p := mtproto.TryExpandError(string(text))
	return "name=" + hexD([]byte(name)) + " param=" + c17Param(p)
}

func c17Native(code int32, text []byte) (string, *mtproto.ErrResponseCode) {
	err := mtproto.RpcErrorToNative(&objects.RpcError{ErrorCode: code, ErrorMessage: string(text)})
	e, ok := err.(*mtproto.ErrResponseCode)
	if !ok {
		return fmt.Sprintf("not-ErrResponseCode:%T", err), nil
	}
	return fmt.Sprintf("code=%d msg=%s desc=%s param=%s", e.Code, hexD([]byte(e.Message)), hexD([]byte(e.Description)),
		c17Param(e.AdditionalInfo)), e
}

// ---- tryToProcessErr on a connected client --------------------------------------------------------

type c17Listener struct {
	ln    net.Listener
	mu    sync.Mutex
	n     int
	conns []net.Conn
}

func newC17Listener() *c17Listener {
	ln, err := net.Listen("tcp", "127.0.0.1:0")
	if err != nil {
		panic(err)
	}
	l := &c17Listener{ln: ln}
	go func() {
		for {
			c, err := ln.Accept()
			if err != nil {
				return
			}
			l.mu.Lock()
			l.n++
			l.conns = append(l.conns, c)
			l.mu.Unlock()
		}
	}()
	return l
}

func (l *c17Listener) addr() string { return l.ln.Addr().String() }
func (l *c17Listener) count() int   { l.mu.Lock(); defer l.mu.Unlock(); return l.n }
func (l *c17Listener) closeConns() {
	l.mu.Lock()
	for _, c := range l.conns {
		c.Close()
	}
	l.conns = nil
	l.mu.Unlock()
}

// waitCount waits (bounded) until the listener has accepted `want` connections.
func (l *c17Listener) waitCount(want int, d time.Duration) int {
	deadline := time.Now().Add(d)
	for l.count() < want && time.Now().Before(deadline) {
		time.Sleep(200 * time.Microsecond)
	}
	return l.count()
}

var c17Lis map[string]*c17Listener // "H" (home), "A", "B"

func c17Listeners() map[string]*c17Listener {
	if c17Lis == nil {
		c17Lis = map[string]*c17Listener{"H": newC17Listener(), "A": newC17Listener(), "B": newC17Listener()}
	}
	return c17Lis
}

// c17WaitReaderParked waits until the client's receive goroutine is parked inside
// CancelableReader.Read's select (waiting for data or cancellation). Only then is Disconnect /
// Reconnect safe: go-dry's CancelableReader closes its request channel on cancellation, and a Read
// that starts after that panics with "send on closed channel" in the receive goroutine (a race of
// the repository's Disconnect with its own receive loop; it belongs to the end-to-end part of the
// property and is reported in docs/C17.md, it is not what this operation observes).
func c17WaitReaderParked() bool {
	buf := make([]byte, 1<<20)
	deadline := time.Now().Add(3 * time.Second)
	for time.Now().Before(deadline) {
		n := runtime.Stack(buf, true)
		for _, g := range strings.Split(string(buf[:n]), "\n\n") {
			if strings.Contains(g, "(*CancelableReader).Read(") && strings.Contains(g, "startReadingResponses") {
				if nl := strings.IndexByte(g, '\n'); nl > 0 && strings.Contains(g[:nl], "[select") {
					return true
				}
			}
		}
		time.Sleep(200 * time.Microsecond)
	}
	return false
}

// memSession: a stored session, so that the client is "already encrypted" and CreateConnection
// only dials (no key exchange).
type memSession struct{ host string }

func (s memSession) Load() (*session.Session, error) {
	return &session.Session{Key: make([]byte, 256), Hash: make([]byte, 8), Salt: 1, Hostname: s.host}, nil
}
func (s memSession) Store(*session.Session) error { return nil }

func c17Process(dcs string, code int32, text []byte) string {
	c17LoadFacts()
	// conversion first: on a tree where it panics no client must be left behind
	_, e := c17Native(code, text)
	if e == nil {
		return "not-ErrResponseCode"
	}
	lis := c17Listeners()
	over := map[int]string{}
	if dcs != "-" {
		for _, t := range strings.Split(dcs, ",") {
			parts := strings.SplitN(t, ":", 2)
			if len(parts) != 2 {
				panic("bad dc token " + t)
			}
			l, ok := lis[parts[1]]
			if !ok || parts[1] == "H" {
				panic("bad dc address symbol " + t)
			}
			over[atoi(parts[0])] = l.addr()
		}
	}
	// never dial a real address of the default list
	if dc, isInt := e.AdditionalInfo.(int); isInt && e.Message == "PHONE_MIGRATE_X" {
		if _, o := over[dc]; !o {
			if _, d := c17Default[int64(dc)]; d {
				return "refused:real-address"
			}
		}
	}
	m, err := mtproto.NewMTProto(mtproto.Config{SessionStorage: memSession{lis["H"].addr()}, ServerHost: lis["H"].addr()})
	if err != nil {
		return "setup-failed:NewMTProto"
	}
	m.SetDCList(over)
	h0 := lis["H"].count()
	if err := m.CreateConnection(); err != nil {
		return "setup-failed:CreateConnection"
	}
	defer func() {
		if c17WaitReaderParked() {
			_ = m.Disconnect()
		}
		for _, l := range lis {
			l.closeConns()
		}
	}()
	if lis["H"].waitCount(h0+1, 2*time.Second) != h0+1 || !c17WaitReaderParked() {
		return "setup-failed:home-connection"
	}
	before := map[string]int{}
	for k, l := range lis {
		before[k] = l.count()
	}
	res := m.VerifTryToProcessErr(e)
	addrSym := func(a string) string {
		for k, l := range lis {
			if l.addr() == a {
				return k
			}
		}
		return a
	}
	newConns := func(expect string) string {
		if expect != "" {
			lis[expect].waitCount(before[expect]+1, 2*time.Second)
		} else {
			time.Sleep(2 * time.Millisecond)
		}
		var out []string
		for _, k := range []string{"A", "B", "H"} {
			if d := lis[k].count() - before[k]; d != 0 {
				out = append(out, fmt.Sprintf("%s+%d", k, d))
			}
		}
		return showList(out)
	}
	switch {
	case res == nil:
		// handled: the address must have been switched and exactly one new connection made to it
		sym := addrSym(m.VerifAddr())
		dc, _ := e.AdditionalInfo.(int)
		want := ""
		if _, ok := lis[sym]; ok {
			want = sym
		}
		if nc := newConns(want); nc != sym+"+1" {
			return fmt.Sprintf("decision=handled-but dc=%d addr=%s newconns=%s", dc, hexD([]byte(sym)), nc)
		}
		return fmt.Sprintf("decision=migrate dc=%d addr=%s", dc, hexD([]byte(sym)))
	case res == error(e):
		if nc := newConns(""); nc != "-" || m.VerifAddr() != lis["H"].addr() {
			return "decision=returned-but newconns=" + nc + " addr=" + hexD([]byte(addrSym(m.VerifAddr())))
		}
		return "decision=returned"
	case errors.Cause(res) == error(e):
		if nc := newConns(""); nc != "-" || m.VerifAddr() != lis["H"].addr() {
			return "decision=notfound-but newconns=" + nc + " addr=" + hexD([]byte(addrSym(m.VerifAddr())))
		}
		return fmt.Sprintf("decision=notfound dc=%s", strings.TrimPrefix(c17Param(e.AdditionalInfo), "int:"))
	}
	return "decision=other-error addr=" + hexD([]byte(addrSym(m.VerifAddr()))) + " newconns=" + newConns("")
}

// ---- generator -------------------------------------------------------------------------------------

var c17Params = []string{"", "0", "17", "-3", "+4", "007", "2147483648", "9223372036854775807", "9223372036854775808",
	"-9223372036854775808", "-9223372036854775809", "18446744073709551616", "abc", "1_0", "٣", " 5", "5 ", "X", "-", "+",
	"0x10", "1e3", "00000000000000000000000000012", "99999999999999999999999999999999abc", "%d", "%v"}

func hx(s string) string { return hexD([]byte(s)) }

func c17RandText(g *G) string {
	frag := []string{"%d", "%s", "%v", "%!", "%", "%%", "%!(EXTRA", "%x", "%+v", "%08.3f", "%[1]d", "%*d", "_", "X", "FLOOD_WAIT_",
		"PHONE_MIGRATE_", "INTERDC_", "_CALL_ERROR", "_CALL_RICH_ERROR", "_MISSING", "FILE_PART_", "17", "-1", " ", "\x00", "\xff", "é",
		"ABOUT_TOO_LONG", "2FA_CONFIRM_WAIT_", "MIGRATE_", "ERROR"}
	n := 1 + g.R.Intn(5)
	var b strings.Builder
	for i := 0; i < n; i++ {
		switch g.R.Intn(4) {
		case 0:
			b.Write(g.R.Bytes(g.R.Intn(6)))
		case 1:
			b.WriteString(strconv.Itoa(g.R.Intn(100000) - 500))
		default:
			b.WriteString(frag[g.R.Intn(len(frag))])
		}
	}
	return b.String()
}

var c17Codes = []int32{400, 420, 303, 401, 403, 404, 406, 500, 0, 1, -1, -503, 32767, 32768, -32768, -32769, 65536 + 420,
	2147483647, -2147483648}

func c17Gen(g *G) {
	c17LoadFacts()
	// error answers through the real request path: plain, packed, in containers, next to ordinary answers
	g.Emit("c17.rpc e,e,o g0+1+2;w3;a0;a1z;a2", "rpc-error-delivery")
	g.Emit("c17.rpc e,o,e g0+1+2;w3;c(a0z,a1z);c(p,a2z)", "rpc-error-delivery")
	g.Emit("c17.rpc vl,e g0+1;w2;E0;a1z", "rpc-error-delivery")
	code := func() int32 {
		if g.R.Intn(3) == 0 {
			return int32(uint32(g.R.U64()))
		}
		return c17Codes[g.R.Intn(len(c17Codes))]
	}
	// two clients in one process, then the decisions of tryToProcessErr through the whole request path
	// (MakeRequest against scripted peers)
	c17TwoGen(g, code)
	// identity of the errors handed out: sequences of replies with every earlier error held (c17ident.go)
	c17IdentGen(g)
	// the migration while the old data centre hangs up: two goroutines replace the connection (c17race.go)
	c17RaceGen(g)
	// several calls in flight when the data centre sends them all away (c17inflight.go; D33)
	c17InflightGen(g)
	c17HistGen(g, code)
	c17MigGen(g, code)
	c17CallGen(g, code)
	rows := append([]c17Row{}, c17F.Rows...)
	// the specification's families too, so that a row removed from the source is still exercised
	for _, r := range c17SpecRows {
		rows = append(rows, c17Row{Prefix: r[0], Suffix: r[1]})
	}
	// every row × every parameter × with / without the suffix; prefix-only; suffix-only
	for _, r := range rows {
		for _, p := range c17Params {
			g.Emit("c17.native "+strconv.Itoa(int(code()))+" "+hx(r.Prefix+p+r.Suffix), "row×param")
			g.Emit("c17.expand "+hx(r.Prefix+p+r.Suffix), "row×param")
			if r.Suffix != "" {
				g.Emit("c17.native "+strconv.Itoa(int(code()))+" "+hx(r.Prefix+p), "row×param-without-suffix")
				g.Emit("c17.expand "+hx(p+r.Suffix), "row×param-without-prefix")
			}
		}
		g.Emit("c17.native 400 "+hx(r.Prefix), "prefix-only")
		g.Emit("c17.native 400 "+hx(r.Prefix+r.Suffix), "prefix+suffix")
		if r.Suffix != "" {
			// prefix and suffix overlapping inside the text
			for k := 1; k <= len(r.Suffix) && k <= len(r.Prefix); k++ {
				if strings.HasSuffix(r.Prefix, r.Suffix[:k]) {
					g.Emit("c17.native 400 "+hx(r.Prefix+r.Suffix[k:]), "prefix-suffix-overlap")
				}
			}
		}
		// texts that only contain the prefix / have something after the number
		g.Emit("c17.native 400 "+hx("A"+r.Prefix+"5"+r.Suffix), "contains-prefix")
		g.Emit("c17.native 400 "+hx(r.Prefix+"5"+r.Suffix+"Z"), "contains-suffix")
		g.Emit("c17.native 400 "+hx(strings.ToLower(r.Prefix)+"5"+r.Suffix), "lower-case")
	}
	// pairs of rows: prefix of one with suffix of another
	for _, a := range c17F.Rows {
		for _, b := range c17F.Rows {
			if a != b && (a.Suffix != "" || b.Suffix != "") {
				g.Emit("c17.native 400 "+hx(a.Prefix+"12"+b.Suffix), "row-mix")
			}
		}
	}
	// every catalogued name, as it is and with a number in place of a trailing/inner X
	for _, kv := range c17F.Catalogue {
		g.Emit("c17.native "+strconv.Itoa(int(code()))+" "+hx(kv.Key), "catalogued")
		if strings.Contains(kv.Key, "_X") {
			g.Emit("c17.native 420 "+hx(strings.Replace(kv.Key, "_X", "_30", 1)), "catalogued-X-as-number")
		}
	}
	// all codes with one known and one parameterised text
	for _, c := range c17Codes {
		g.Emit("c17.native "+strconv.Itoa(int(c))+" "+hx("CHAT_ID_INVALID"), "codes")
		g.Emit("c17.native "+strconv.Itoa(int(c))+" "+hx("FLOOD_WAIT_"+strconv.Itoa(int(c))), "codes")
	}
	// random texts
	for i, n := 0, g.N(4000, 200000); i < n; i++ {
		t := c17RandText(g)
		if g.R.Intn(4) == 0 {
			g.Emit("c17.expand "+hx(t), "random")
		} else {
			g.Emit("c17.native "+strconv.Itoa(int(code()))+" "+hx(t), "random")
		}
	}
	// random numbers in every family (digit strings of all lengths around the int64 boundary)
	for i, n := 0, g.N(2000, 100000); i < n; i++ {
		r := rows[g.R.Intn(len(rows))]
		l := 1 + g.R.Intn(22)
		var b strings.Builder
		if g.R.Intn(4) == 0 {
			b.WriteByte("+-"[g.R.Intn(2)])
		}
		for j := 0; j < l; j++ {
			b.WriteByte(byte('0' + g.R.Intn(10)))
		}
		if g.R.Intn(12) == 0 {
			b.WriteByte("_ x%"[g.R.Intn(4)])
		}
		g.Emit("c17.native "+strconv.Itoa(int(code()))+" "+hx(r.Prefix+b.String()+r.Suffix), "random-number")
	}
	// thorough: every parameter string of length ≤ 4 over a small alphabet, in every row of the source
	if g.Thorough() {
		alpha := "09-+_ X%"
		var all []string
		var rec func(cur string, k int)
		rec = func(cur string, k int) {
			all = append(all, cur)
			if k == 0 {
				return
			}
			for i := 0; i < len(alpha); i++ {
				rec(cur+string(alpha[i]), k-1)
			}
		}
		rec("", 4)
		for _, r := range c17F.Rows {
			for _, p := range all {
				g.Emit("c17.expand "+hx(r.Prefix+p+r.Suffix), "exhaustive-param")
			}
		}
	}
	// the library models: strconv.Atoi and fmt.Sprintf with one operand (modelled subset of verbs)
	for _, p := range c17Params {
		g.Emit("c17.atoi "+hx(p), "lib-atoi")
	}
	for i, n := 0, g.N(500, 20000); i < n; i++ {
		l := g.R.Intn(23)
		var b strings.Builder
		if g.R.Intn(3) == 0 {
			b.WriteByte("+-"[g.R.Intn(2)])
		}
		for j := 0; j < l; j++ {
			b.WriteByte(byte('0' + g.R.Intn(10)))
		}
		if g.R.Intn(8) == 0 {
			b.WriteByte("_ xX%-+\x00\xd9"[g.R.Intn(9)])
		}
		g.Emit("c17.atoi "+hx(b.String()), "lib-atoi")
	}
	for i, n := 0, g.N(400, 10000); i < n; i++ {
		toks := []string{"%v", "%d", "%s", "%%", "abc", " ", "X", "é", "!", "(", "v", "d"}
		var b strings.Builder
		for j, k := 0, g.R.Intn(6); j < k; j++ {
			b.WriteString(toks[g.R.Intn(len(toks))])
		}
		if g.R.Intn(10) == 0 {
			b.WriteByte('%')
		}
		operand := "int:" + strconv.Itoa(g.R.Intn(2000)-1000)
		switch g.R.Intn(6) {
		case 0:
			operand = "str:" + hx(c17RandText(g))
		case 1:
			operand = "int:" + []string{"0", "-9223372036854775808", "9223372036854775807", "10", "-1"}[g.R.Intn(5)]
		}
		g.Emit("c17.sprintf "+hx(b.String())+" "+operand, "lib-sprintf")
	}
	// the decision of tryToProcessErr on a connected client
	ids := []int{0, 1, 2, 3, 4, 5, 6, 7, -1, 100, 2147483647}
	for i, n := 0, g.N(60, 1500); i < n; i++ {
		id := ids[g.R.Intn(len(ids))]
		var text, dcs string
		switch g.R.Intn(8) {
		case 0, 1, 2: // configured through SetDCList
			sym := string("AB"[g.R.Intn(2)])
			dcs = fmt.Sprintf("%d:%s", id, sym)
			if g.R.Bool() {
				dcs += fmt.Sprintf(",%d:%s", id+1000, "B")
			}
			text = "PHONE_MIGRATE_" + strconv.Itoa(id)
		case 3: // not configured (never an id of the default list without an override)
			if _, d := c17Default[int64(id)]; d {
				id += 1000
			}
			dcs = []string{"-", fmt.Sprintf("%d:A", id+1)}[g.R.Intn(2)]
			text = "PHONE_MIGRATE_" + strconv.Itoa(id)
		case 4: // not a number
			dcs = "1:A,2:B"
			text = "PHONE_MIGRATE_" + c17Params[g.R.Intn(len(c17Params))]
			if _, _, num := specSplit(text); num {
				text = "PHONE_MIGRATE_X"
			}
		case 5: // other migrations and parameterised errors are returned
			dcs = fmt.Sprintf("%d:A", id)
			text = []string{"USER_MIGRATE_", "NETWORK_MIGRATE_", "FILE_MIGRATE_", "STATS_MIGRATE_", "FLOOD_WAIT_"}[g.R.Intn(5)] + strconv.Itoa(id)
		case 6: // known plain errors
			dcs = fmt.Sprintf("%d:A", id)
			text = c17F.Catalogue[g.R.Intn(len(c17F.Catalogue))].Key
		default:
			dcs = fmt.Sprintf("%d:B", id)
			text = c17RandText(g)
		}
		g.Emit("c17.process "+dcs+" "+strconv.Itoa(int(code()))+" "+hx(text), "process")
	}
	g.Extra["rows_in_source"] = len(c17F.Rows)
	g.Extra["catalogue_entries"] = len(c17F.Catalogue)
	g.Extra["default_dcs"] = len(c17F.DCs)
}

// ---- executor ---------------------------------------------------------------------------------------

// c17Rpc: error answers delivered through the real request path (scripted peer of x_rpcsrv.go): plain, inside a
// container, gzip_packed — the caller must get the structured error either way. The result line is "rpc ok" or
// what the trace oracle objects to.
func c17Rpc(op []string) string {
	if len(op) != 3 {
		return "bad-op"
	}
	trace, note := rsScenario(op[1], op[2])
	if note != "" {
		return "rpc bad: the scenario could not be completed: " + note
	}
	v := rsJudgeTrace(trace, 0, 0)
	for _, c := range []string{v.c09, v.c10, v.c11, v.c16} {
		if c != "" {
			return "rpc bad: " + c
		}
	}
	return "rpc ok"
}

func c17Exec(op []string) string {
	if len(op) > 0 && op[0] == "c17.rpc" {
		return c17Rpc(op)
	}
	if out, ok := c17MigExec(op); ok {
		return out
	}
	if out, ok := c17IdentExec(op); ok {
		return out
	}
	if out, ok := c17RaceExec(op); ok {
		return out
	}
	if out, ok := c17InflightExec(op); ok {
		return out
	}
	unhex := func(s string) []byte {
		if s == "-" {
			return nil
		}
		b, err := hex.DecodeString(s)
		if err != nil {
			panic("bad hex token: " + s)
		}
		return b
	}
	code32 := func(s string) int32 {
		n, err := strconv.ParseInt(s, 10, 32)
		if err != nil {
			panic("bad int32 token: " + s)
		}
		return int32(n)
	}
	switch {
	case len(op) == 2 && op[0] == "c17.expand":
		return c17Expand(unhex(op[1]))
	case len(op) == 3 && op[0] == "c17.native":
		out, _ := c17Native(code32(op[1]), unhex(op[2]))
		return out
	case len(op) == 4 && op[0] == "c17.process":
		return c17Process(op[1], code32(op[2]), unhex(op[3]))
	case len(op) == 2 && op[0] == "c17.atoi":
		n, err := strconv.Atoi(string(unhex(op[1])))
		if err != nil {
			return "err"
		}
		return "int:" + strconv.Itoa(n)
	case len(op) == 3 && op[0] == "c17.sprintf":
		var operand interface{}
		switch {
		case strings.HasPrefix(op[2], "int:"):
			operand = atoi(op[2][4:])
		case strings.HasPrefix(op[2], "str:"):
			operand = string(unhex(op[2][4:]))
		default:
			return "bad-op"
		}
		return "out=" + hexD([]byte(fmt.Sprintf(string(unhex(op[1])), operand)))
	}
	return "bad-op"
}

// ---- property oracle ---------------------------------------------------------------------------------

func kvs(out string) map[string]string {
	m := map[string]string{}
	for _, t := range strings.Fields(out) {
		if i := strings.IndexByte(t, '='); i > 0 {
			m[t[:i]] = t[i+1:]
		}
	}
	return m
}

func unhexS(s string) string {
	if s == "-" {
		return ""
	}
	b, _ := hex.DecodeString(s)
	return string(b)
}

// c17Judge: the property, clause by clause, on the real code's result.
func c17Judge(op []string, out string) string {
	if len(op) > 0 && op[0] == "c17.rpc" {
		if out != "rpc ok" {
			return "an rpc_error answer did not reach its caller as the structured error: " + clip(out)
		}
		return ""
	}
	c17LoadFacts()
	if len(op) < 2 {
		return ""
	}
	if op[0] == "c17.ident" || op[0] == "c17.callers" {
		return c17IdentJudge(op, out)
	}
	if op[0] == "c17.race" {
		return c17RaceJudge(op, out)
	}
	if op[0] == "c17.inflight" {
		return c17InflightJudge(op, out)
	}
	if (op[0] == "c17.req" && len(op) == 4) || (op[0] == "c17.hist" && len(op) == 5) || ((op[0] == "c17.req2" || op[0] == "c17.two" || op[0] == "c17.call") && len(op) == 6) ||
		(op[0] == "c17.home" && len(op) == 3) {
		return c17MigJudge(op, out)
	}
	if op[0] == "c17.atoi" || op[0] == "c17.sprintf" {
		return "" // library models: compared with the Lean model only
	}
	if strings.HasPrefix(out, "panic:") {
		return "panicked (" + out + "): every error text must be delivered as a structured error"
	}
	text := unhexS(op[len(op)-1])
	f := kvs(out)
	switch op[0] {
	case "c17.expand", "c17.native":
		name, param := unhexS(f["name"]), f["param"]
		if op[0] == "c17.native" {
			name = unhexS(f["msg"])
			if f["code"] != op[1] {
				return "code " + f["code"] + " is not the server's code " + op[1]
			}
		}
		if _, ok := f["param"]; !ok {
			return "not a structured error: " + out
		}
		if wantName, n, num := specSplit(text); num {
			// numeric parameter of one of the 15 families: message with X, parameter = the number
			if name != wantName || param != "int:"+strconv.FormatInt(n, 10) {
				return fmt.Sprintf("numeric parameter: expected message %q with parameter %d", wantName, n)
			}
		} else if param == "none" {
			if name != text {
				return fmt.Sprintf("no parameter, so the message must be the server's text %q, got %q", text, name)
			}
		} else if strings.HasPrefix(param, "int:") {
			// a family beyond the 15: still "text with the number replaced by X" and that number
			if !c17ConsistentX(text, name, strings.TrimPrefix(param, "int:")) {
				return fmt.Sprintf("message %q with parameter %s is not the server's text %q with a number replaced by X", name, param, text)
			}
		} else {
			return "parameter is neither absent nor a number: " + param
		}
		if op[0] == "c17.native" {
			desc := unhexS(f["desc"])
			if param == "none" {
				// known text ⇒ its documented description; unknown ⇒ the text itself, verbatim
				want, known := c17Cat[name]
				if !known {
					want = name
				}
				if desc != want {
					return fmt.Sprintf("description %q, documented %q", desc, want)
				}
			} else {
				want, known := c17Cat[name]
				if known && strings.Count(want, "%") == 1 && strings.Count(want, "%v") == 1 {
					if w := strings.Replace(want, "%v", strings.TrimPrefix(param, "int:"), 1); desc != w {
						return fmt.Sprintf("description %q, documented %q", desc, w)
					}
				}
				if strings.Contains(desc, "%!") {
					return fmt.Sprintf("description %q carries a formatting artefact", desc)
				}
			}
		}
	case "c17.process":
		if len(op) != 4 {
			return ""
		}
		if strings.HasPrefix(out, "setup-failed") || strings.HasPrefix(out, "refused") {
			return ""
		}
		configured := map[int64]string{}
		for k, v := range c17Default {
			configured[k] = v
		}
		if op[1] != "-" {
			for _, t := range strings.Split(op[1], ",") {
				p := strings.SplitN(t, ":", 2)
				id, _ := strconv.ParseInt(p[0], 10, 64)
				configured[id] = p[1]
			}
		}
		want := "decision=returned"
		if name, n, num := specSplit(text); num && name == "PHONE_MIGRATE_X" {
			if a, ok := configured[n]; ok {
				want = fmt.Sprintf("decision=migrate dc=%d addr=%s", n, hx(a))
			} else {
				want = fmt.Sprintf("decision=notfound dc=%d", n)
			}
		}
		if out != want {
			return "expected " + want
		}
	}
	return ""
}

// c17ConsistentX: name = p ++ "X" ++ q, text = p ++ d ++ q, d a decimal number equal to n.
func c17ConsistentX(text, name, n string) bool {
	for i := 0; i < len(name); i++ {
		if name[i] != 'X' {
			continue
		}
		p, q := name[:i], name[i+1:]
		if len(text) >= len(p)+len(q) && strings.HasPrefix(text, p) && strings.HasSuffix(text, q) {
			if v, ok := specNumber(text[len(p) : len(text)-len(q)]); ok && strconv.FormatInt(v, 10) == n {
				return true
			}
		}
	}
	return false
}

func c17Teardown() {
	for _, l := range c17Lis {
		l.ln.Close()
		l.closeConns()
	}
}

func init() {
	register(&Prop{Name: "c17", Stateless: true, Gen: c17Gen, Exec: c17Exec, Judge: c17Judge, Teardown: c17Teardown})
}
