package main

// C06 — key exchange with any conformant server ends in a shared auth key and salt.
//
// One operation = one complete exchange of the REAL client (mtproto.NewMTProto + CreateConnection,
// over a loopback TCP connection) with the independent conformant server of x_hsserver.go:
//
//   c06.hs <tag> <nonce> <new_nonce> <b> <padseed> <pad16> <n> <e> <d> <server_nonce> <p> <q> <g> <a> <dh_prime> <time> <spad16> <minimal> <fps>
//
// <fps>: the fingerprints the server lists in resPQ besides that of its own key: "-" (only its own), or a
// comma-separated list in which "*" stands for its own (a list without "*": its own comes last) — a
// conformant server may hold several keys and list them in any order.
//
// client draws: nonce (16 bytes), new_nonce (32), DH exponent b (256, big-endian) — delivered to the
// client through a substituted crypto/rand.Reader; padseed seeds the global math/rand the client's
// padding comes from, pad16 = the 16 bytes that seed yields (what the Lean model is given).
// server secrets: RSA key (n, e, d; e any odd public exponent - the pool holds keys with 1-, 2-, 3- and 4-byte
// exponents besides 65537), server_nonce, the primes p < q, g, a, dh_prime, server_time, the
// source of its answer padding, whether it sends dh_prime / g_a minimally, further fingerprints (before
// and after its own).
//
// Several exchanges in ONE operation (what a process that talks to more than one server, or recreates its
// client, does — and a replay of the operation replays all of it):
//
//   c06.seq <tag> <keyobj> <k> { <store> <the 18 tokens of a c06.hs after its tag> } x k
//
// <time>: the server's clock. A number: the server_time it announces, a date that has nothing to do with this
// machine's clock (such a server's idea of "now" cannot be placed: it is not asked whether it would accept the
// msg_id of the first encrypted request). `now+K` / `now-K`: a server whose clock is K seconds ahead of / behind
// the clock of this machine (= the client's) — it announces now±K at the moment it answers req_DH_params, its clock
// runs on in real time from there, and like every MTProto server it ignores a message whose msg_id is more than
// 300 s behind or more than 30 s ahead of its clock.
//
// <keyobj>: how the caller holds the public key over the exchanges (hsKeyObj: fresh | slot | setn);
// <store>: the client's configuration: how its session storage says "nothing stored" (hsStore.Mode: notfound | nil |
// fail), optionally followed by `+<warnings>`: what the application does with the client's Warnings channel during
// the exchange (hsWarnMode: nil | buffered | unread | drained; default nil), optionally followed by `+<first>`: the
// request(s) the application issues after the exchange, `/`-separated, one to four (hsRequest: ping | pingdelay | salts |
// config | bytes<N>; default: one ping) - the conformant server opens every encrypted message it receives with its own
// envelope code (auth_key_id, msg_key, declared length, 0..15 bytes of padding) and must find its salt and the
// request's serialisation, written by hand, inside. Every
// exchange has its own conformant server with its own RSA key. Result: the results of the exchanges, " | " between
// them. A storage that cannot be read (fail) must make NewMTProto give up: res=err:new, nothing sent or stored.
//
// An exchange that is NOT the first thing that happens on the client object:
//
//   c06.hist <tag> <history> <store> <the 18 tokens of a c06.hs after its tag>
//
// <history>: what the application does with the ONE client value (one NewMTProto), a comma-separated list of steps
// in which `x` is the key exchange described by the 18 tokens (hsPlan in x_hsserver.go):
//   before x:  dial (a CreateConnection while the server is not up yet: nothing listens at its address, the dial is
//              refused - what a program started before its server, or before the network, runs into and retries),
//              disc (Disconnect), fail1 | fail2 | fail3 (a CreateConnection against a server that misbehaves once, in
//              its reply of that step: the client gives the exchange up);
//   after x:   reconnect (Reconnect), disc, create (CreateConnection), before the first request is issued.
// "Any conformant server" does not depend on what the client object went through earlier: x must end exactly like
// the exchange of a c06.hs (same oracle), the steps before it must have ended as they have to (dial: the connect
// error; failK: an error; disc: nil) and must have stored nothing, the steps after it must succeed and leave key,
// salt and the stored session alone; the first request is issued after the last step. <store>: notfound | nil,
// optionally +<warnings>. Result: `pre=<step:outcome,…> <the result of x as for c06.hs> post=<step:outcome,…>`.
//
// The exchange in another environment (c06env.go): `c06.env <tag> <delivery> <session> <store…> <18 tokens>` - the
// server's frames delivered in pieces, the client's session file in different kinds of places.
//
// The factoring of pq on its own (c06split.go): `c06.split <tag> <pq>`, `c06.splitraw <tag> <pq>`,
// `c06.mulmod <tag> <a> <b> <c> <n>` - the real math.SplitPQ against its Lean model.
//
// Result line (both sides): outcome, TL bodies of the client's three requests, number of encrypted
// frames seen before CreateConnection returned, client auth key / salt / encrypted / service mode,
// every session Store; then the server's view: finished or refused, its auth key, salt and the
// new_nonce_hash1 it sent.

import (
	"bytes"
	"crypto/rsa"
	"fmt"
	"math/big"
	"math/bits"
	"strconv"
	"strings"
)

var (
	c06Last      []*hsRun // the runs of the last operation, one per exchange
	c06LastClock []string // … and what each server says about the msg_id of the first encrypted request ("" = accepted)
)

// c06SplitCfg: `<store>`, `<store>+<warnings>` or `<store>+<warnings>+<first>`
func c06SplitCfg(cfg string) (store, warn string) {
	parts := strings.Split(cfg, "+")
	if len(parts) >= 2 {
		return parts[0], parts[1]
	}
	return cfg, "nil"
}

// c06CfgFirst: the requests the application issues after the exchange (default: one ping)
func c06CfgFirst(cfg string) []string {
	if parts := strings.Split(cfg, "+"); len(parts) == 3 {
		return strings.Split(parts[2], "/")
	}
	return []string{"ping"}
}

func c06CfgOk(cfg string) bool {
	parts := strings.Split(cfg, "+")
	if len(parts) > 3 || (len(parts) == 3 && !hsRequestsOk(parts[2])) {
		return false
	}
	st, wm := c06SplitCfg(cfg)
	ok := false
	for _, m := range hsStoreModes {
		ok = ok || m == st
	}
	for _, m := range hsWarnModes {
		if m == wm {
			return ok
		}
	}
	return false
}

func c06BigHex(x *big.Int) string { return hexD(x.Bytes()) }

func (c *hsCase) op(tag string) string {
	var xf []string
	for _, f := range c.S.ExtraFps {
		xf = append(xf, strconv.FormatUint(f, 10))
	}
	if len(c.S.LaterFps) > 0 {
		xf = append(xf, "*")
		for _, f := range c.S.LaterFps {
			xf = append(xf, strconv.FormatUint(f, 10))
		}
	}
	min := "0"
	if c.S.Minimal {
		min = "1"
	}
	return strings.Join([]string{"c06.hs", tag,
		hexD(c.D.Nonce), hexD(c.D.NewNonce), hexD(c.D.B), strconv.FormatInt(c.D.PadSeed, 10), hexD(hsPad16(c.D.PadSeed)),
		c06BigHex(c.S.Key.N), strconv.Itoa(c.S.Key.E), c06BigHex(c.S.Key.D),
		hexD(c.S.ServerNonce), strconv.FormatUint(c.S.P, 10), strconv.FormatUint(c.S.Q, 10),
		strconv.Itoa(int(c.S.G)), hexD(hsFixed(c.S.A, 256)), c06BigHex(c.S.DhPrime), c06TimeToken(&c.S),
		hexD(c.S.Pad), min, showList(xf)}, " ")
}

func c06Parse(op []string) (*hsCase, bool) {
	if len(op) != 20 {
		return nil, false
	}
	defer func() { _ = recover() }()
	c := &hsCase{}
	ok := false
	func() {
		defer func() {
			if recover() != nil {
				ok = false
			}
		}()
		c.D.Nonce, c.D.NewNonce, c.D.B = parseBytes(op[2]), parseBytes(op[3]), parseBytes(op[4])
		ps, err := strconv.ParseInt(op[5], 10, 64)
		if err != nil {
			return
		}
		c.D.PadSeed = ps
		c.Pad16 = parseBytes(op[6])
		e := atoi(op[8])
		c.S.Key = &rsa.PrivateKey{PublicKey: rsa.PublicKey{N: new(big.Int).SetBytes(parseBytes(op[7])), E: e}, D: new(big.Int).SetBytes(parseBytes(op[9]))}
		c.S.ServerNonce = parseBytes(op[10])
		p, err1 := strconv.ParseUint(op[11], 10, 64)
		q, err2 := strconv.ParseUint(op[12], 10, 64)
		if err1 != nil || err2 != nil {
			return
		}
		c.S.P, c.S.Q = p, q
		c.S.G = int32(atoi(op[13]))
		c.S.A = new(big.Int).SetBytes(parseBytes(op[14]))
		c.S.DhPrime = new(big.Int).SetBytes(parseBytes(op[15]))
		if !c06ParseTime(op[16], &c.S) {
			return
		}
		c.S.Pad = parseBytes(op[17])
		c.S.Minimal = op[18] == "1"
		if op[19] != "-" {
			own := false
			for _, t := range strings.Split(op[19], ",") {
				if t == "*" && !own {
					own = true
					continue
				}
				f, err := strconv.ParseUint(t, 10, 64)
				if err != nil {
					return
				}
				if own {
					c.S.LaterFps = append(c.S.LaterFps, f)
				} else {
					c.S.ExtraFps = append(c.S.ExtraFps, f)
				}
			}
		}
		ok = len(c.D.Nonce) == 16 && len(c.D.NewNonce) == 32 && len(c.D.B) == 256 && len(c.S.ServerNonce) == 16 &&
			len(c.S.Pad) == 16 && len(c.Pad16) == 16 && c.S.Key.N.BitLen() == 2048 && c.S.P < c.S.Q && c.S.P > 1 &&
			c.S.DhPrime.Sign() > 0 && bytes.Equal(c.Pad16, hsPad16(c.D.PadSeed))
	}()
	return c, ok
}

// the <time> token
func c06TimeToken(s *hsSecrets) string {
	if s.TimeRel {
		return fmt.Sprintf("now%+d", s.ServerTime)
	}
	return strconv.Itoa(int(s.ServerTime))
}

func c06ParseTime(t string, s *hsSecrets) bool {
	if strings.HasPrefix(t, "now+") || strings.HasPrefix(t, "now-") {
		k, err := strconv.Atoi(t[3:])
		if err != nil || k < -100000 || k > 100000 {
			return false
		}
		s.TimeRel, s.ServerTime = true, int32(k)
		return true
	}
	k, err := strconv.ParseInt(t, 10, 64)
	if err != nil || k < 0 || k >= 1<<31 {
		return false
	}
	s.TimeRel, s.ServerTime = false, int32(k)
	return true
}

// The window in which an MTProto server accepts a msg_id, relative to its own clock (seconds): "a message is
// ignored if its msg_id is more than 300 seconds behind or more than 30 seconds ahead of the server's time".
const (
	c06WindowBehind = 300
	c06WindowAhead  = 30
)

// c06ClockOffsets: the server clocks (server minus client, seconds) a client that stamps its messages with ITS OWN
// clock is compatible with: its msg_id is the local second, so seen from a server K seconds ahead it lies at
// -K (give or take the second both sides round away): -300 <= -K+-1 and -K+-1 <= 30, K in [-29, 299]. Derived
// from the window, with one more second of room; the ends, values around zero, and both halves in between.
func c06ClockOffsets() []int {
	lo, hi := -(c06WindowAhead - 2), c06WindowBehind-2
	return []int{lo, lo + 3, lo + 8, lo / 2, -5, -1, 0, 1, 5, -lo / 2, -lo - 8, -lo, hi / 3, hi / 2, hi - 50, hi}
}

func c06RelClock(r *Rand, c *hsCase) {
	offs := c06ClockOffsets()
	c.S.TimeRel, c.S.ServerTime = true, int32(offs[r.Intn(len(offs))])
}

// c06ClockVerdict: would the server accept the msg_id of the client's first encrypted request? ("" = yes, or the
// server's clock cannot be placed)
func c06ClockVerdict(c *hsCase, run *hsRun) string {
	if !c.S.TimeRel || len(run.Srv.Enc) == 0 || len(run.Srv.EncAt) == 0 || run.Srv.AuthKey == nil || run.Srv.TimeAt.IsZero() {
		return ""
	}
	_, msgID, _, why := hsOpenClientFrameID(run.Srv.AuthKey, run.Srv.Enc[0])
	if why != "" {
		return ""
	}
	clock := float64(run.Srv.TimeSent) + run.Srv.EncAt[0].Sub(run.Srv.TimeAt).Seconds()
	diff := float64(msgID>>32) + float64(uint32(msgID))/4294967296.0 - clock
	if diff > c06WindowAhead || diff < -c06WindowBehind {
		return fmt.Sprintf("the server (clock %+d s against the client's; it announced server_time %d) ignores the first encrypted request: its msg_id %d is %+.1f s from the server's clock, accepted are -%d..+%d",
			c.S.ServerTime, run.Srv.TimeSent, msgID, diff, c06WindowBehind, c06WindowAhead)
	}
	return ""
}

// ---- Diffie-Hellman groups a conformant server may use ---------------------------------------------------
//
// The description asks of dh_prime: a 2048-bit safe prime (p and (p-1)/2 prime, 2^2047 < p < 2^2048) with g
// generating the subgroup of prime order (p-1)/2: g a quadratic residue mod p, which for the allowed g = 2..7 is a
// condition on p modulo 8, 3, 5, 24, 7. Telegram's datacenters use one such prime; any other is as conformant.
// Finding a 2048-bit safe prime takes minutes, so besides Telegram's the two published ones of that size are used,
// built from their defining formulas (RFC 3526 group 14: 2^2048 - 2^1984 - 1 + 2^64 ([2^1918 pi] + 124476);
// RFC 7919 ffdhe2048: 2^2048 - 2^1984 + 2^64 ([2^1918 e] + 560316) - 1) and CHECKED to be safe primes here.

// c06ScaledPi / c06ScaledE: floor(2^bits * pi), floor(2^bits * e)
func c06ScaledPi(bits uint) *big.Int {
	guard := uint(64)
	one := new(big.Int).Lsh(big.NewInt(1), bits+guard)
	arctanInv := func(x int64) *big.Int { // arctan(1/x) * 2^(bits+guard)
		sum := new(big.Int)
		term := new(big.Int).Div(one, big.NewInt(x))
		x2 := big.NewInt(x * x)
		for k := int64(0); term.Sign() != 0; k++ {
			t := new(big.Int).Div(term, big.NewInt(2*k+1))
			if k%2 == 0 {
				sum.Add(sum, t)
			} else {
				sum.Sub(sum, t)
			}
			term.Div(term, x2)
		}
		return sum
	}
	pi := new(big.Int).Mul(big.NewInt(16), arctanInv(5))
	pi.Sub(pi, new(big.Int).Mul(big.NewInt(4), arctanInv(239)))
	return pi.Rsh(pi, guard)
}

func c06ScaledE(bits uint) *big.Int {
	guard := uint(64)
	term := new(big.Int).Lsh(big.NewInt(1), bits+guard)
	sum := new(big.Int)
	for k := int64(1); term.Sign() != 0; k++ {
		sum.Add(sum, term)
		term.Div(term, big.NewInt(k))
	}
	return sum.Rsh(sum, guard)
}

func c06IsSafePrime2048(p *big.Int) bool {
	if p.BitLen() != 2048 || !p.ProbablyPrime(16) {
		return false
	}
	q := new(big.Int).Rsh(p, 1)
	return q.ProbablyPrime(16)
}

// c06GOk: the description's condition on g for a given safe prime
func c06GOk(p *big.Int, g int) bool {
	mod := func(m int64) int64 { return new(big.Int).Mod(p, big.NewInt(m)).Int64() }
	switch g {
	case 2:
		return mod(8) == 7
	case 3:
		return mod(3) == 2
	case 4:
		return true
	case 5:
		m := mod(5)
		return m == 1 || m == 4
	case 6:
		m := mod(24)
		return m == 19 || m == 23
	case 7:
		m := mod(7)
		return m == 3 || m == 5 || m == 6
	}
	return false
}

type c06Group struct {
	Name string
	P    *big.Int
	Gs   []int // the g it may be used with
}

var c06GroupList []c06Group

// c06Groups: the groups, Telegram's first. A value that fails the safe-prime test is left out (and noted).
func c06Groups(g *G) []c06Group {
	if c06GroupList != nil {
		return c06GroupList
	}
	pow := func(n uint) *big.Int { return new(big.Int).Lsh(big.NewInt(1), n) }
	modp := new(big.Int).Sub(pow(2048), pow(1984))
	modp.Sub(modp, big.NewInt(1))
	modp.Add(modp, new(big.Int).Lsh(new(big.Int).Add(c06ScaledPi(1918), big.NewInt(124476)), 64))
	ffdhe := new(big.Int).Sub(pow(2048), pow(1984))
	ffdhe.Add(ffdhe, new(big.Int).Lsh(new(big.Int).Add(c06ScaledE(1918), big.NewInt(560316)), 64))
	ffdhe.Sub(ffdhe, big.NewInt(1))
	for _, c := range []c06Group{{Name: "telegram", P: hsTelegramPrime()}, {Name: "rfc3526-14", P: modp}, {Name: "rfc7919-ffdhe2048", P: ffdhe}} {
		if !c06IsSafePrime2048(c.P) {
			if g != nil {
				g.Extra["not-a-2048-bit-safe-prime:"+c.Name] = true
			}
			continue
		}
		for gv := 2; gv <= 7; gv++ {
			if c06GOk(c.P, gv) {
				c.Gs = append(c.Gs, gv)
			}
		}
		c06GroupList = append(c06GroupList, c)
	}
	return c06GroupList
}

// c06InGroup: the exchange in that group, with a g that fits it
func c06InGroup(r *Rand, c *hsCase, grp c06Group) {
	c.S.DhPrime = new(big.Int).Set(grp.P)
	c.S.G = int32(grp.Gs[r.Intn(len(grp.Gs))])
}

// c06ForceCorner: rejection sampling of the free secrets until the named value has exactly z
// leading zero bytes in its fixed-width form.
func c06ForceCorner(r *Rand, c *hsCase, field string, z int) bool {
	P := c.S.DhPrime
	g := big.NewInt(int64(c.S.G))
	lz := func(x *big.Int) int { return hsLeadingZeros(hsFixed(x, 256)) }
	switch field {
	case "nonce":
		c.D.Nonce = hsForce(r, 16, z)
	case "server_nonce":
		c.S.ServerNonce = hsForce(r, 16, z)
	case "new_nonce":
		c.D.NewNonce = hsForce(r, 32, z)
	case "rsa":
		for i := 0; i < 1<<22; i++ {
			c.D.NewNonce = r.Bytes(32)
			ct := hsRefRSACipher(&c.S.Key.PublicKey, c.S.pqBytes(), c.S.P, c.S.Q, c.D.Nonce, c.S.ServerNonce, c.D.NewNonce)
			if lz(ct) == z {
				return true
			}
		}
		return false
	case "g_a":
		x := new(big.Int).Exp(g, c.S.A, P)
		for i := 0; i < 1<<22; i++ {
			if lz(x) == z {
				return true
			}
			c.S.A.Add(c.S.A, big.NewInt(1))
			x.Mul(x, g).Mod(x, P)
		}
		return false
	case "g_b":
		b := new(big.Int).SetBytes(c.D.B)
		b.SetBit(b, 2047, 0) // room to count upwards below 2^2048
		x := new(big.Int).Exp(g, b, P)
		for i := 0; i < 1<<22; i++ {
			if lz(x) == z {
				c.D.B = hsFixed(b, 256)
				return true
			}
			b.Add(b, big.NewInt(1))
			x.Mul(x, g).Mod(x, P)
		}
		return false
	case "g_ab", "new_nonce_hash1":
		gB := new(big.Int).Exp(g, new(big.Int).SetBytes(c.D.B), P)
		x := new(big.Int).Exp(gB, c.S.A, P)
		for i := 0; i < 1<<22; i++ {
			if field == "g_ab" && lz(x) == z {
				return true
			}
			if field == "new_nonce_hash1" && hsLeadingZeros(hsNonceHash(c.D.NewNonce, 1, hsFixed(x, 256))) == z {
				return true
			}
			c.S.A.Add(c.S.A, big.NewInt(1))
			x.Mul(x, gB).Mod(x, P)
		}
		return false
	}
	return true
}

var c06Fields = []string{"nonce", "server_nonce", "new_nonce", "new_nonce_hash1", "rsa", "g_a", "g_b", "g_ab"}

// c06BytesFor: a request with a bytes argument whose serialisation has exactly `body` bytes (body a multiple of 4, >= 8):
// 4 (id) + TL string - header of 1 byte below 254 bytes, of 4 bytes from there on - zero-padded to a multiple of 4
func c06BytesFor(r *Rand, body int) string {
	for {
		n := body - 8 - r.Intn(4) // 4-byte header
		if body-4 <= 256 {
			n = body - 5 - r.Intn(4) // 1-byte header
		}
		if n < 0 {
			continue
		}
		if _, b, ok := hsRequest(fmt.Sprintf("bytes%d", n)); ok && len(b) == body {
			return fmt.Sprintf("bytes%d", n)
		}
	}
}

// c06FirstLists: what the application issues after the exchange, for the operations generated in every run
func c06FirstLists(r *Rand) []string {
	by := func(body int) string { return c06BytesFor(r, body) }
	return []string{
		// one request, each residue of the body length modulo 16: 4, 8, (12 is the ping of every other operation), 0
		"config", "salts", "pingdelay", by(20), by(24), by(28), by(32), by(48),
		// several requests one after another, aligned ones first / last / in the middle; bodies beyond 254 bytes
		"pingdelay/ping/" + by(64) + "/config",
		by(16*(2+r.Intn(14))) + "/" + by(16*(17+r.Intn(8))) + "/salts",
		"ping/" + by(4*(65+r.Intn(60))) + "/" + by(16*(1+r.Intn(16))) + "/pingdelay",
	}
}

// c06RandomFirst: one to three requests, half of them with a body that fills whole blocks
func c06RandomFirst(r *Rand) string {
	var xs []string
	for n := 1 + r.Intn(3); n > 0; n-- {
		switch k := r.Intn(8); {
		case k < 3:
			xs = append(xs, c06BytesFor(r, 16*(1+r.Intn(20))))
		case k == 3:
			xs = append(xs, "pingdelay")
		case k == 4:
			xs = append(xs, c06BytesFor(r, 8+4*r.Intn(100)))
		default:
			xs = append(xs, []string{"config", "salts", "ping"}[k-5])
		}
	}
	return strings.Join(xs, "/")
}

// c06FirstResidues: the body lengths modulo 16 of a request list, for the coverage tags
func c06FirstResidues(list string) string {
	var xs []string
	for _, sp := range strings.Split(list, "/") {
		_, b, _ := hsRequest(sp)
		xs = append(xs, strconv.Itoa(len(b)%16))
	}
	return strings.Join(xs, "/")
}

// c06SeqOp: several exchanges as one operation.
func c06SeqOp(tag, keyobj string, stores []string, cs []*hsCase) string {
	parts := []string{"c06.seq", tag, keyobj, strconv.Itoa(len(cs))}
	for i, c := range cs {
		parts = append(parts, stores[i], strings.Join(strings.Fields(c.op("x"))[2:], " "))
	}
	return strings.Join(parts, " ")
}

// c06Histories: what happened on the client object before (and after) the exchange `x`, generated in every run
var c06Histories = []string{
	"dial,x", "dial,dial,x", "dial,disc,x",
	"fail1,x", "fail2,x", "fail3,x",
	"fail1,disc,x", "fail2,disc,x", "fail3,disc,x",
	"x,reconnect", "x,disc,create", "x,reconnect,reconnect",
	"dial,fail3,disc,x,reconnect", "dial,fail1,fail2,x",
}

// c06RandomHistory: a history drawn from the rules of hsHistoryOk (never the bare `x`)
func c06RandomHistory(r *Rand) string {
	var pre, post []string
	up := false
	for n := r.Intn(4); n > 0; n-- {
		var cand []string
		if !up {
			cand = append(cand, "dial", "dial")
		}
		if len(pre) > 0 && pre[len(pre)-1] != "disc" {
			cand = append(cand, "disc", "disc")
		}
		cand = append(cand, "fail1", "fail2", "fail3")
		st := cand[r.Intn(len(cand))]
		up = up || strings.HasPrefix(st, "fail")
		pre = append(pre, st)
	}
	switch r.Intn(4) {
	case 0:
		post = []string{"reconnect"}
	case 1:
		post = []string{"disc", "create"}
	}
	if len(pre)+len(post) == 0 {
		pre = []string{"dial"}
	}
	return strings.Join(append(append(pre, "x"), post...), ",")
}

func c06Gen(g *G) {
	r := g.R
	// a pool of server keys, used in turn: consecutive exchanges of this process never use the same key twice
	// running (a conformant server is ANY conformant server, also after the client has talked to another one)
	// ... and of keys with other public exponents than 65537 (one per byte length of the exponent; hsKeyPoolExp)
	pool := hsKeyPoolExp(r, g.N(3, 4), g.Thorough())
	turn := 0
	next := func() *rsa.PrivateKey {
		turn++
		return pool[turn%len(pool)]
	}
	key := next()
	// (a00) other Diffie-Hellman groups x what the application does with the Warnings channel: every group with every
	// channel mode (one exchange each, as one-exchange sequences: the channel is part of the client's configuration)
	groups := c06Groups(g)
	for _, grp := range groups {
		for _, wm := range hsWarnModes {
			c := hsRandomCase(r, next())
			c06InGroup(r, c, grp)
			c06RelClock(r, c)
			sm := "notfound"
			if wm != "nil" && r.Intn(3) == 0 {
				sm = "nil"
			}
			g.Emit(c06SeqOp("seq:group-"+grp.Name+"-warnings-"+wm, "fresh", []string{sm + "+" + wm}, []*hsCase{c}), "honest", "sequence", "group="+grp.Name, "warnings="+wm)
		}
	}
	// (a01) servers whose clock differs from the client's by every offset a client stamping its messages with its own
	// clock is compatible with
	for i, off := range c06ClockOffsets() {
		c := hsRandomCase(r, next())
		c06InGroup(r, c, groups[i%len(groups)])
		c.S.TimeRel, c.S.ServerTime = true, int32(off)
		g.Emit(c.op(fmt.Sprintf("honest:clock%+d", off)), "honest", "clock")
	}
	// (a02) exchanges that are not the first thing that happens on the client object: the server was not up at the
	// first attempt(s), it misbehaved once at each step of the exchange (with and without a Disconnect before the
	// retry), and what the application may do between the exchange and its first request
	for i, h := range c06Histories {
		c := hsRandomCase(r, next())
		c06InGroup(r, c, groups[i%len(groups)])
		if i%2 == 0 {
			c06RelClock(r, c)
		}
		sm := []string{"notfound", "nil"}[i%2]
		g.Emit(c06HistOp("hist:"+h, h, sm, c), "honest", "history", "history="+h)
	}
	// (a03) servers whose RSA key has another public exponent than 65537: one exchange per such key of the pool, its
	// fingerprint alone; and one with the fingerprints of the keys that differ from it in the exponent only (the same
	// modulus with 65537, with the next odd exponent) and in the modulus only listed around it. The conformant server
	// computes its fingerprint from the TL definition (hsFingerprint) and refuses a req_DH_params naming another one.
	for i, k := range pool {
		if k.E == 65537 {
			continue
		}
		nb := len(big.NewInt(int64(k.E)).Bytes())
		c := hsRandomCase(r, k)
		c.S.ExtraFps, c.S.LaterFps = nil, nil
		c06InGroup(r, c, groups[i%len(groups)])
		g.Emit(c.op(fmt.Sprintf("honest:exponent-%dbyte", nb)), "honest", "exponent", fmt.Sprintf("exponent-bytes=%d", nb))
		c = hsRandomCase(r, k)
		other := pool[(i+1)%len(pool)]
		c.S.ExtraFps = []uint64{hsFingerprint(&rsa.PublicKey{N: k.N, E: 65537})}
		c.S.LaterFps = []uint64{hsFingerprint(&rsa.PublicKey{N: k.N, E: k.E + 2}), hsFingerprint(&rsa.PublicKey{N: other.N, E: k.E})}
		g.Emit(c.op(fmt.Sprintf("honest:exponent-%dbyte-near-miss-neighbours", nb)), "honest", "exponent", "fingerprints", fmt.Sprintf("exponent-bytes=%d", nb))
	}
	// (a04) the first encrypted request(s): the conformant server enforces the envelope's rules on every message it
	// reads (0..15 bytes of padding after the declared length), so the request's body length matters: every residue
	// modulo 16 (bodies are multiples of 4), below and beyond one block, both forms of the TL string header; one
	// request, and several one after another
	for i, first := range c06FirstLists(r) {
		c := hsRandomCase(r, next())
		c06InGroup(r, c, groups[i%len(groups)])
		if i%2 == 0 {
			c06RelClock(r, c)
		}
		cfg := []string{"notfound", "nil"}[i%2] + "+" + hsWarnModes[i%len(hsWarnModes)] + "+" + first
		g.Emit(c06SeqOp("seq:first-"+first, "fresh", []string{cfg}, []*hsCase{c}), "honest", "sequence", "first-request", "first="+c06FirstResidues(first))
	}
	{
		c := hsRandomCase(r, next())
		g.Emit(c06HistOp("hist:x,reconnect-first", "x,reconnect", "notfound+nil+"+c06BytesFor(r, 32)+"/pingdelay", c), "honest", "history", "first-request")
		c = hsRandomCase(r, next())
		g.Emit(c06HistOp("hist:fail2,x-first", "fail2,x", "nil+buffered+pingdelay/"+c06BytesFor(r, 64), c), "honest", "history", "first-request")
	}
	// an exchange given up at its LAST step (the client had computed and installed its key), then - on the same object -
	// an exchange whose g^ab has leading zero bytes: what the first one left in the client (a kept key buffer: seed
	// C06-m18) must not reach the second. Every corner with every kind of earlier failure
	for _, z := range []int{1, 2} {
		for _, h := range []string{"fail3,x", "fail3,disc,x", "fail2,x", "fail3,fail3,x", "fail1,fail3,x"} {
			for _, field := range []string{"g_ab", "new_nonce_hash1"} {
				if z == 2 && (field != "g_ab" || h != "fail3,x") && !g.Thorough() {
					continue
				}
				c := hsRandomCase(r, next())
				if !c06ForceCorner(r, c, field, z) {
					continue
				}
				g.Emit(c06HistOp(fmt.Sprintf("hist:%s-%s-lz%d", h, field, z), h, "notfound+buffered+ping", c), "honest", "history", "history-then-corner", "corner="+field)
			}
		}
	}
	// (a0) first of all, sequences in one operation: other keys one after another, the caller's key object kept
	// or not, and the three ways a session storage says "nothing stored"
	for i, ko := range hsKeyObjModes {
		cs := []*hsCase{hsRandomCase(r, pool[i%len(pool)]), hsRandomCase(r, pool[(i+1)%len(pool)]), hsRandomCase(r, pool[(i+2)%len(pool)])}
		if ko != "fresh" {
			cs[2] = hsRandomCase(r, pool[i%len(pool)]) // … and back to the first key
		}
		g.Emit(c06SeqOp("seq:keys-"+ko, ko, []string{"notfound", "notfound", "notfound"}, cs), "honest", "sequence", "sequence:keyobj="+ko)
	}
	for _, sm := range hsStoreModes {
		g.Emit(c06SeqOp("seq:store-"+sm, "fresh", []string{sm}, []*hsCase{hsRandomCase(r, next())}), "honest", "sequence", "store="+sm)
	}
	{
		var cs []*hsCase
		stores := []string{"nil", "fail", "notfound", "nil"}
		for range stores {
			cs = append(cs, hsRandomCase(r, next()))
		}
		g.Emit(c06SeqOp("seq:stores-mixed", hsKeyObjModes[r.Intn(len(hsKeyObjModes))], stores, cs), "honest", "sequence", "store=mixed")
	}
	// (a) honest exchanges: every g, fixed-width and minimal integers, extra fingerprints
	for gv := 2; gv <= 7; gv++ {
		key = next()
		c := hsRandomCase(r, key)
		c.S.G = int32(gv)
		c.S.Minimal = gv%2 == 1
		g.Emit(c.op(fmt.Sprintf("honest:g%d", gv)), "honest")
	}
	// (a2) a server with several keys: the client's one alone, last, first, in the middle of the list, between
	// several; a neighbour that differs from it in one bit / is its byte-reversal (the client must name ITS
	// key's fingerprint in req_DH_params, wherever it stands)
	own := uint64(0)
	for _, pos := range []struct {
		name          string
		before, after []uint64
	}{
		{"only", nil, nil},
		{"last", []uint64{r.U64()}, nil},
		{"first", nil, []uint64{r.U64()}},
		{"middle", []uint64{r.U64()}, []uint64{r.U64()}},
		{"first-of-many", nil, []uint64{r.U64(), r.U64(), r.U64()}},
		{"among-many", []uint64{r.U64(), r.U64()}, []uint64{r.U64(), r.U64(), r.U64()}},
		{"near-miss-neighbours", nil, nil},
		{"other-keys-of-the-pool", nil, nil},
		{"zero-and-max-neighbours", []uint64{0}, []uint64{1<<64 - 1}},
	} {
		key = next()
		own = hsFingerprint(&key.PublicKey)
		c := hsRandomCase(r, key)
		c.S.ExtraFps, c.S.LaterFps = pos.before, pos.after
		switch pos.name {
		case "near-miss-neighbours":
			c.S.ExtraFps, c.S.LaterFps = []uint64{own ^ 1}, []uint64{own ^ 1<<63, bits.ReverseBytes64(own)}
		case "other-keys-of-the-pool":
			// the server holds all the keys of the pool and lists them all; the client has this one
			c.S.ExtraFps, c.S.LaterFps = nil, nil
			mine := false
			for _, k := range pool {
				switch {
				case k == key:
					mine = true
				case mine:
					c.S.LaterFps = append(c.S.LaterFps, hsFingerprint(&k.PublicKey))
				default:
					c.S.ExtraFps = append(c.S.ExtraFps, hsFingerprint(&k.PublicKey))
				}
			}
		}
		g.Emit(c.op("honest:fingerprint-"+pos.name), "honest", "fingerprints", fmt.Sprintf("fingerprints:before=%d,after=%d", len(pos.before), len(pos.after)))
	}
	// (b) every field through its leading-zero corners
	for _, f := range c06Fields {
		for z := 0; z <= 2; z++ {
			key = next()
			c := hsRandomCase(r, key)
			if !c06ForceCorner(r, c, f, z) {
				g.Extra["corner-not-forced:"+f+":"+strconv.Itoa(z)] = true
				continue
			}
			g.Emit(c.op(fmt.Sprintf("corner:%s:%d", f, z)), "corner", "corner:"+f)
		}
	}
	// (c) all-zero / all-one edge values of the free secrets
	{
		c := hsRandomCase(r, next())
		c.D.Nonce = make([]byte, 16)
		g.Emit(c.op("edge:nonce-zero"), "edge")
		c = hsRandomCase(r, next())
		c.S.ServerNonce = make([]byte, 16)
		g.Emit(c.op("edge:server_nonce-zero"), "edge")
		c = hsRandomCase(r, next())
		c.D.NewNonce = make([]byte, 32)
		c.D.NewNonce[31] = 1
		g.Emit(c.op("edge:new_nonce-one"), "edge")
		c = hsRandomCase(r, next())
		c.S.P, c.S.Q = 65537, 4294967291
		g.Emit(c.op("edge:pq-unbalanced"), "edge")
		c = hsRandomCase(r, next())
		c.S.P, c.S.Q = 4294967279, 4294967291
		g.Emit(c.op("edge:pq-largest"), "edge")
	}
	// (d) more honest exchanges, the keys of the pool in turn; one in eight as a short sequence with a storage mode
	n := g.N(4, 2000)
	for i := 0; i < n; i++ {
		c := hsRandomCase(r, next())
		if r.Intn(2) == 0 {
			c06InGroup(r, c, groups[r.Intn(len(groups))])
		}
		if r.Intn(4) > 0 {
			c06RelClock(r, c)
		}
		// the server's own fingerprint anywhere in the list it offers
		if n := len(c.S.ExtraFps); n > 0 {
			cut := r.Intn(n + 1)
			c.S.ExtraFps, c.S.LaterFps = c.S.ExtraFps[:cut], append([]uint64{}, c.S.ExtraFps[cut:]...)
		}
		if i%8 == 3 {
			h := c06RandomHistory(r)
			cfg := []string{"notfound", "nil"}[r.Intn(2)] + "+" + hsWarnModes[r.Intn(len(hsWarnModes))] + "+" + c06RandomFirst(r)
			g.Emit(c06HistOp("hist:random", h, cfg, c), "honest", "history", "history=random")
			continue
		}
		if i%8 == 7 {
			sm := hsStoreModes[r.Intn(len(hsStoreModes))]
			ko := hsKeyObjModes[r.Intn(len(hsKeyObjModes))]
			wm := hsWarnModes[r.Intn(len(hsWarnModes))]
			g.Emit(c06SeqOp("seq:random", ko, []string{sm + "+" + wm + "+" + c06RandomFirst(r), "notfound"}, []*hsCase{c, hsRandomCase(r, next())}), "honest", "sequence", "store="+sm, "sequence:keyobj="+ko, "warnings="+wm)
			continue
		}
		g.Emit(c.op("honest:random"), "honest", fmt.Sprintf("fingerprints:before=%d,after=%d", len(c.S.ExtraFps), len(c.S.LaterFps)))
	}
	// (g) the client's own draws as an input of the exchange (c06draw.go)
	c06DrawGen(g, next, groups)
	// (f) the exchange in other environments: the server's frames delivered in pieces, the session file in other places
	c06EnvGen(g, next, groups)
	// (e) the factoring of pq on its own: the real math.SplitPQ against its Lean model (c06split.go)
	c06PQGen(g)
}

// c06One: one exchange of the real client (its session storage in the given mode, configured with the key
// object pub) with a conformant server holding c.S.
func c06One(c *hsCase, cfg string, pub *rsa.PublicKey) (*hsRun, string) {
	return c06OneHist(c, cfg, pub, nil, nil)
}

// c06SplitHistory: `a,b,x,c` -> [a b], [c]
func c06SplitHistory(h string) (pre, post []string, ok bool) {
	seen := false
	for _, st := range strings.Split(h, ",") {
		switch {
		case st == "x" && !seen:
			seen = true
		case st == "x" || st == "":
			return nil, nil, false
		case seen:
			post = append(post, st)
		default:
			pre = append(pre, st)
		}
	}
	return pre, post, seen && hsHistoryOk(pre, post)
}

func c06ShowSteps(xs []string) string {
	if len(xs) == 0 {
		return "-"
	}
	return strings.Join(xs, ",")
}

// c06OneHist: the same as c06One, as one step of what the application does with the client object (pre: before it,
// post: after it; see hsPlan)
func c06OneHist(c *hsCase, cfg string, pub *rsa.PublicKey, pre, post []string) (*hsRun, string) {
	return c06OnePlan(c, cfg, &hsPlan{D: &c.D, Pub: pub, Secrets: &c.S, Probe: true, Pre: pre, Post: post}, nil)
}

// c06OnePlan: the plan run with the client configured by cfg (`<store>[+<warnings>[+<first>]]`); `after`, when given,
// looks at the finished run before its result line is made (c06.env: what the session file holds).
func c06OnePlan(c *hsCase, cfg string, p *hsPlan, after func(*hsRun)) (*hsRun, string) {
	storeMode, warnMode := c06SplitCfg(cfg)
	hsWarnMode = warnMode
	p.StoreMode, p.First = storeMode, c06CfgFirst(cfg)
	run := hsExchangePlan(p)
	hsWarnMode = ""
	if after != nil {
		after(run)
	}
	c06LastClock = append(c06LastClock, c06ClockVerdict(c, run))
	// the server reads EVERY encrypted message that reaches it, by the rules of the description (auth_key_id, msg_key,
	// declared length, 0..15 bytes of padding)
	for _, pkt := range run.Srv.Enc {
		if run.Srv.AuthKey == nil {
			break
		}
		salt, body, why := hsOpenClientFrame(run.Srv.AuthKey, pkt)
		if why != "" {
			run.Opened = append(run.Opened, "unreadable: "+why)
		} else {
			run.Opened = append(run.Opened, fmt.Sprintf("readable salt=%d body=%s", salt, hexD(body)))
		}
	}
	if len(run.Opened) > 0 {
		run.FirstEnc = run.Opened[0]
	}
	st := "refused"
	if run.Srv.Done {
		st = "done"
	}
	return run, hsResultLine(run) + fmt.Sprintf(" srv=%s skey=%s ssalt=%d shash=%s", st, showBytes(run.Srv.AuthKey), run.Srv.Salt, hexD(run.Srv.HashSent))
}

type c06Step struct {
	store string
	c     *hsCase
}

// c06ParseSeq: the exchanges of a c06.seq operation.
func c06ParseSeq(op []string) (keyobj string, steps []c06Step, ok bool) {
	if len(op) < 4 || op[0] != "c06.seq" {
		return "", nil, false
	}
	k, err := strconv.Atoi(op[3])
	if err != nil || k < 1 || len(op) != 4+19*k {
		return "", nil, false
	}
	keyobj = op[2]
	if keyobj != "fresh" && keyobj != "slot" && keyobj != "setn" {
		return "", nil, false
	}
	for i := 0; i < k; i++ {
		part := op[4+19*i : 4+19*(i+1)]
		if !c06CfgOk(part[0]) {
			return "", nil, false
		}
		c, ok := c06Parse(append([]string{"c06.hs", "x"}, part[1:]...))
		if !ok {
			return "", nil, false
		}
		steps = append(steps, c06Step{part[0], c})
	}
	return keyobj, steps, true
}

// c06ParseHist: a c06.hist operation
func c06ParseHist(op []string) (c *hsCase, pre, post []string, ok bool) {
	if len(op) != 22 || op[0] != "c06.hist" {
		return nil, nil, nil, false
	}
	pre, post, ok = c06SplitHistory(op[2])
	if st, _ := c06SplitCfg(op[3]); !ok || !c06CfgOk(op[3]) || st == "fail" {
		return nil, nil, nil, false
	}
	c, ok = c06Parse(append([]string{"c06.hs", "x"}, op[4:]...))
	return c, pre, post, ok
}

// c06HistOp: the exchange c as step `x` of the history
func c06HistOp(tag, history, cfg string, c *hsCase) string {
	return strings.Join(append([]string{"c06.hist", tag, history, cfg}, strings.Fields(c.op("x"))[2:]...), " ")
}

func c06Exec(op []string) string {
	c06Last, c06LastClock = nil, nil
	if len(op) == 0 {
		return "bad-op"
	}
	switch op[0] {
	case "c06.split", "c06.splitraw", "c06.mulmod":
		return c06PQExec(op)
	case "c06.hs":
		c, ok := c06Parse(op)
		if !ok {
			return "bad-op"
		}
		run, line := c06One(c, "notfound", &c.S.Key.PublicKey)
		c06Last = []*hsRun{run}
		return line
	case "c06.draw":
		return c06DrawExec(op)
	case "c06.env":
		c, ok := c06ParseEnv(op)
		if !ok {
			return "bad-op"
		}
		run, line := c06OneEnv(c, op[2], op[3], op[4], &c.S.Key.PublicKey)
		c06Last = []*hsRun{run}
		return line
	case "c06.hist":
		c, pre, post, ok := c06ParseHist(op)
		if !ok {
			return "bad-op"
		}
		run, line := c06OneHist(c, op[3], &c.S.Key.PublicKey, pre, post)
		c06Last = []*hsRun{run}
		return "pre=" + c06ShowSteps(run.Pre) + " " + line + " post=" + c06ShowSteps(run.Post)
	case "c06.seq":
		keyobj, steps, ok := c06ParseSeq(op)
		if !ok {
			return "bad-op"
		}
		ko := &hsKeyObj{Mode: keyobj}
		var lines []string
		for _, st := range steps {
			run, line := c06One(st.c, st.store, ko.next(&st.c.S.Key.PublicKey))
			c06Last = append(c06Last, run)
			lines = append(lines, line)
		}
		return strings.Join(lines, " | ")
	}
	return "bad-op"
}

// c06Judge: the property on the real client's result, from the server's own values only.
func c06Judge(op []string, out string) string {
	if out == "bad-op" {
		return ""
	}
	if len(op) > 0 && (op[0] == "c06.split" || op[0] == "c06.splitraw" || op[0] == "c06.mulmod") {
		return c06PQJudge(op, out)
	}
	runs := c06Last
	if len(runs) == 0 {
		return "no run recorded"
	}
	clock := func(i int) string {
		if i < len(c06LastClock) {
			return c06LastClock[i]
		}
		return ""
	}
	// a server key with another public exponent than 65537 is named in the complaint
	keyNote := func(c *hsCase, bad []string) string {
		if len(bad) == 0 || c == nil || c.S.Key.E == 65537 {
			return strings.Join(bad, "; ")
		}
		return fmt.Sprintf("server RSA key %s… with public exponent %d (fingerprint %016x by the TL definition): %s",
			hexD(c.S.Key.N.Bytes()[:4]), c.S.Key.E, hsFingerprint(&c.S.Key.PublicKey), strings.Join(bad, "; "))
	}
	if op[0] == "c06.hs" {
		c, _ := c06Parse(op)
		return keyNote(c, c06JudgeRun(runs[0], "notfound", clock(0)))
	}
	if op[0] == "c06.draw" {
		c, refusal, more, ok := c06ParseDraw(op)
		if !ok {
			return "no run recorded"
		}
		return keyNote(c, c06JudgeDraw(runs[0], c, refusal, more, clock(0)))
	}
	if op[0] == "c06.env" {
		c, ok := c06ParseEnv(op)
		if !ok {
			return "no run recorded"
		}
		return keyNote(c, c06JudgeEnv(runs[0], op[2], op[3], op[4], clock(0)))
	}
	if op[0] == "c06.hist" {
		c, pre, post, ok := c06ParseHist(op)
		if !ok {
			return "no run recorded"
		}
		return keyNote(c, c06JudgeHist(runs[0], op[2], op[3], pre, post, clock(0)))
	}
	keyobj, steps, ok := c06ParseSeq(op)
	if !ok || len(steps) != len(runs) {
		return "no run recorded"
	}
	var bad []string
	for i, st := range steps {
		for _, b := range c06JudgeRun(runs[i], st.store, clock(i)) {
			sm, wm := c06SplitCfg(st.store)
			bad = append(bad, fmt.Sprintf("exchange %d of %d in this process (server key %s…, public exponent %d, dh_prime %s…, g %d, key object %s, session storage says %q, Warnings channel %s): %s",
				i+1, len(steps), hexD(st.c.S.Key.N.Bytes()[:4]), st.c.S.Key.E, hexD(st.c.S.DhPrime.Bytes()[:4]), st.c.S.G, keyobj, sm, wm, b))
		}
	}
	return strings.Join(bad, "; ")
}

// c06JudgeHist: the exchange `x` of a history is judged like any other exchange with a conformant server; what
// the client object went through before must not show. The steps around it: the earlier attempts ended as such an
// attempt has to (the server was not there / misbehaved: an error of the application's call, which retries), the
// calls after it succeeded.
func c06JudgeHist(run *hsRun, history, cfg string, pre, post []string, clock string) []string {
	var bad []string
	add := func(f string, a ...interface{}) { bad = append(bad, fmt.Sprintf(f, a...)) }
	for i, st := range pre {
		got := "not run"
		if i < len(run.Pre) {
			got = strings.TrimPrefix(run.Pre[i], st+":")
		}
		switch {
		case st == "dial" && got != "err:connect":
			add("step %d (%s: CreateConnection while the server is not up) ended with %s, not with the connect error", i+1, st, got)
		case strings.HasPrefix(st, "fail") && !strings.HasPrefix(got, "err:"):
			add("step %d (%s: CreateConnection against a server misbehaving at step %s of the exchange) ended with %s, not with an error", i+1, st, st[4:], got)
		case st == "disc" && got != "ok":
			add("step %d (Disconnect) ended with %s", i+1, got)
		}
	}
	if bs := c06JudgeRun(run, cfg, clock); len(bs) > 0 {
		add("the key exchange `x` of the history %q on this client object, against a conformant server that is up: %s", history, strings.Join(bs, "; "))
	}
	if run.Outcome == "ok" {
		for i, st := range post {
			got := "not run"
			if i < len(run.Post) {
				got = strings.TrimPrefix(run.Post[i], st+":")
			}
			if got != "ok" {
				add("step %q after the completed exchange ended with %s", st, got)
			}
		}
	}
	return bad
}

func c06JudgeRun(run *hsRun, cfg string, clock string) []string {
	bad := c06JudgeRunCore(run, cfg, clock)
	add := func(f string, a ...interface{}) { bad = append(bad, fmt.Sprintf(f, a...)) }
	if storeMode, _ := c06SplitCfg(cfg); storeMode == "fail" {
		return bad
	}
	// (not asked of a c06.draw exchange, whose stream goes on after the first exponent: a client that draws its
	// exponent again is as good as one that does not)
	if run.Outcome == "ok" && run.RandUsed != 16+32+256 {
		add("the client drew %d bytes from crypto/rand, not nonce (16) + new_nonce (32) + DH exponent (256)", run.RandUsed)
	}
	if run.Overrun > 0 {
		add("the client drew %d random bytes more than nonce, new_nonce and one DH exponent", run.Overrun)
	}
	return bad
}

// c06JudgeRunCore: the property on one exchange with a conformant server, whatever the client drew and however often
func c06JudgeRunCore(run *hsRun, cfg string, clock string) []string {
	storeMode, _ := c06SplitCfg(cfg)
	var bad []string
	add := func(f string, a ...interface{}) { bad = append(bad, fmt.Sprintf(f, a...)) }
	if storeMode == "fail" {
		// the storage could not be read: whether a session exists is unknown, NewMTProto must give up — no client,
		// no connection, nothing stored (above all no key exchange whose result would overwrite an existing session)
		if run.Outcome != "err:new" {
			add("the session storage's Load failed, but NewMTProto did not: the run ended with %s", run.Outcome)
		}
		if len(run.Stores) != 0 || len(run.Srv.Plain) != 0 || len(run.Srv.Enc) != 0 {
			add("the session storage's Load failed, yet %d session(s) were stored and %d frame(s) sent", len(run.Stores), len(run.Srv.Plain)+len(run.Srv.Enc))
		}
		return bad
	}
	if run.Outcome != "ok" {
		add("the exchange with a conformant server did not complete: %s (%s)", run.Outcome, run.ErrText)
	}
	if run.Srv.Reject != "" {
		add("the server had to refuse a request: %s", run.Srv.Reject)
	}
	if !run.Srv.Done {
		add("the server never reached dh_gen_ok (it saw %d unencrypted request(s); the client holds a key of %d bytes, encrypted=%v)", len(run.Srv.Plain), len(run.AuthKey), run.Enc)
	} else {
		if len(run.AuthKey) != 256 {
			add("client auth key has %d bytes, not 256", len(run.AuthKey))
		}
		if !bytes.Equal(run.AuthKey, run.Srv.AuthKey) {
			add("client auth key %s differs from the server's %s", showBytes(run.AuthKey), showBytes(run.Srv.AuthKey))
		}
		if run.Salt != run.Srv.Salt {
			add("client salt %d differs from the server's %d", run.Salt, run.Srv.Salt)
		}
		if run.Outcome == "ok" {
			if !run.Enc {
				add("encrypted flag not set after a completed exchange")
			}
			if run.Svc {
				add("service mode still on after a completed exchange")
			}
			if len(run.Stores) != 1 {
				add("%d session stores after a completed exchange", len(run.Stores))
			} else {
				s := run.Stores[0]
				if !bytes.Equal(s.Key, run.Srv.AuthKey) || s.Salt != run.Srv.Salt || !bytes.Equal(s.Hash, hsSha1(run.Srv.AuthKey)[12:20]) || s.Hostname != run.Addr {
					add("stored session (key %s, id %s, salt %d, host %s) is not the server's key / key id / salt / address", showBytes(s.Key), hexD(s.Hash), s.Salt, s.Hostname)
				}
			}
			// the requests the application issued after the exchange, in order: each must reach the server and open -
			// by the server's own envelope code, which enforces the description's 0..15 bytes of padding - to the
			// server's salt and the request's serialisation written by hand (hsRequest)
			ordinal := []string{"first", "second", "third", "fourth"}
			for i, spec := range c06CfgFirst(cfg) {
				_, want, _ := hsRequest(spec)
				got := ""
				if i < len(run.Opened) {
					got = run.Opened[i]
				}
				what := fmt.Sprintf("the %s encrypted request (%s: a body of %d bytes, %d mod 16)", ordinal[i%4], spec, len(want), len(want)%16)
				if i == 0 && spec == "ping" {
					what = "the first encrypted request"
				}
				switch {
				case got == "" && i == 0:
					add("no encrypted request reached the server after the exchange")
				case got == "":
					add("%s never reached the server", what)
				case !strings.HasPrefix(got, "readable"):
					add("%s is not readable by the server: %s", what, got)
				case got != fmt.Sprintf("readable salt=%d body=%s", run.Srv.Salt, hexD(want)):
					add("%s opens to %s, expected salt %d and the body %s", what, got, run.Srv.Salt, hexD(want))
				case i == 0 && clock != "":
					add("%s", clock)
				}
			}
		}
	}
	return bad
}

func init() {
	register(&Prop{
		Name:  "c06",
		Gen:   c06Gen,
		Exec:  c06Exec,
		Judge: c06Judge,
	})
}
