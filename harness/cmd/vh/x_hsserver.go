package main

// Shared by the C06 and C07 harnesses (linked into every vh binary; every name starts with "hs").
//
// (1) An independent MTProto KEY-EXCHANGE SERVER on a loopback TCP listener, written from the
//     protocol description (core.telegram.org/mtproto/auth_key): its own TL reading/writing by
//     hand, its own IGE loop over crypto/aes, crypto/sha1, math/big. It shares no code with the
//     repository (not even the tl package). Two modes:
//       * conformant/interactive: parses the client's requests, checks them as the description
//         demands, derives everything from its own secrets (C06);
//       * replay: answers the i-th plain frame with the i-th prepared body, whatever it is (C07:
//         the prepared bodies are a conformant server's replies with ONE fault injected).
//     Both log every frame they see and, after the exchange, try to open the client's first
//     encrypted frame with the server side of the MTProto 1.0 envelope.
// (2) The reply builders: a conformant server's three replies as functions of its secrets and of
//     the values the client will use, with optional single faults.
// (3) The independent judge of a reply sequence: is it consistent, and which auth key / salt must
//     a client that accepts it end up with.
// (4) The runner of the REAL client (mtproto.NewMTProto + CreateConnection) against (1), with the
//     client's random draws made known by substituting crypto/rand.Reader and seeding math/rand.

import (
	"bytes"
	"context"
	"crypto/aes"
	crand "crypto/rand"
	"crypto/rsa"
	"crypto/sha1"
	"encoding/binary"
	"fmt"
	"io"
	"math/big"
	mrand "math/rand"
	"net"
	"os"
	"reflect"
	"runtime"
	"strconv"
	"strings"
	"sync"
	"syscall"
	"time"
	"unsafe"

	"github.com/xelaj/errs"
	"github.com/xelaj/mtproto"
	"github.com/xelaj/mtproto/internal/mtproto/objects"
	"github.com/xelaj/mtproto/internal/session"
)

// ---- constructor ids (mtproto.tl) -------------------------------------------------------------------

const (
	hsIDReqPQ          = 0x60469778
	hsIDResPQ          = 0x05162463
	hsIDPQInner        = 0x83c95aec
	hsIDReqDH          = 0xd712e4be
	hsIDDHOk           = 0xd0e8075c
	hsIDDHFail         = 0x79cb045d
	hsIDInner          = 0xb5890dba
	hsIDSetClientDH    = 0xf5045f1f
	hsIDClientInner    = 0x6643b654
	hsIDDHGenOk        = 0x3bcbf734
	hsIDDHGenRetry     = 0x46dc1fb9
	hsIDDHGenFail      = 0xa69dae02
	hsIDRpcError       = 0x2144ca19
	hsIDVector         = 0x1cb5c415
	hsIDPing           = 0x7abe77ec
	hsWatchdog         = 8 * time.Second
	hsTelegramPrimeHex = "c71caeb9c6b1c9048e6c522f70f13f73980d40238e3e21c14934d037563d930f48198a0aa7c14058229493d22530f4dbfa336f6e0ac925139543aed44cce7c3720fd51f69458705ac68cd4fe6b6b13abdc9746512969328454f18faf8c595f642477fe96bb2a941d5bcd1d4ac8cc49880708fa9b378e3c4f3a9060bee67cf9a4a4a695811051907e162753b56b0f6b410dba74d8a84b2a14b3144e0ef1284754fd17ed950d5965b4b9dd46582db1178d169c6bc465b0d6ff9ca3928fef5b9ae4e418fc15e83ebea0f87fa9ff5eed70050ded2849f47bf959d956850ce929851f0d8115f635b105ee2e4e15d04b2454bf6f4fadf034b10403119cd8e3b92fcc5b"
)

// ---- (1a) TL by hand ----------------------------------------------------------------------------------

type hsW struct{ b []byte }

func (w *hsW) u32(v uint32) {
	var t [4]byte
	binary.LittleEndian.PutUint32(t[:], v)
	w.b = append(w.b, t[:]...)
}
func (w *hsW) u64(v uint64) {
	var t [8]byte
	binary.LittleEndian.PutUint64(t[:], v)
	w.b = append(w.b, t[:]...)
}
func (w *hsW) raw(b []byte) { w.b = append(w.b, b...) }

// str: TL string/bytes: 1-byte length below 254, else 0xfe + 3-byte length; zero padded to 4.
func (w *hsW) str(b []byte) {
	n := len(b)
	hdr := 1
	if n < 254 {
		w.b = append(w.b, byte(n))
	} else {
		w.b = append(w.b, 0xfe, byte(n), byte(n>>8), byte(n>>16))
		hdr = 4
	}
	w.b = append(w.b, b...)
	for (hdr+n)%4 != 0 {
		w.b = append(w.b, 0)
		n++
	}
}

type hsR struct {
	b   []byte
	off int
	bad bool
}

func (r *hsR) take(n int) []byte {
	if r.bad || n < 0 || r.off+n > len(r.b) {
		r.bad = true
		return make([]byte, n&0xffff)
	}
	v := r.b[r.off : r.off+n]
	r.off += n
	return v
}
func (r *hsR) u32() uint32 { return binary.LittleEndian.Uint32(r.take(4)) }
func (r *hsR) u64() uint64 { return binary.LittleEndian.Uint64(r.take(8)) }
func (r *hsR) str() []byte {
	h := r.take(1)
	n, hdr := int(h[0]), 1
	if h[0] == 0xfe {
		l := r.take(3)
		n, hdr = int(l[0])|int(l[1])<<8|int(l[2])<<16, 4
	} else if h[0] == 0xff {
		r.bad = true
	}
	v := r.take(n)
	if (hdr+n)%4 != 0 {
		r.take(4 - (hdr+n)%4)
	}
	return v
}

// ---- (1b) crypto from the definitions --------------------------------------------------------------

func hsSha1(parts ...[]byte) []byte {
	h := sha1.New()
	for _, p := range parts {
		h.Write(p)
	}
	return h.Sum(nil)
}

// hsIGE: AES-256-IGE. c_i = E(p_i ^ c_{i-1}) ^ p_{i-1}; iv = c_0 || p_0. len(in) % 16 == 0.
func hsIGE(key, iv, in []byte, encrypt bool) []byte {
	blk, err := aes.NewCipher(key)
	if err != nil || len(in)%16 != 0 || len(iv) != 32 {
		panic("hsIGE: bad input")
	}
	out := make([]byte, len(in))
	cPrev := append([]byte{}, iv[:16]...)
	pPrev := append([]byte{}, iv[16:]...)
	t := make([]byte, 16)
	for i := 0; i < len(in); i += 16 {
		cur := in[i : i+16]
		if encrypt {
			for j := range t {
				t[j] = cur[j] ^ cPrev[j]
			}
			blk.Encrypt(t, t)
			for j := range t {
				out[i+j] = t[j] ^ pPrev[j]
			}
			copy(cPrev, out[i:i+16])
			copy(pPrev, cur)
		} else {
			for j := range t {
				t[j] = cur[j] ^ pPrev[j]
			}
			blk.Decrypt(t, t)
			for j := range t {
				out[i+j] = t[j] ^ cPrev[j]
			}
			copy(pPrev, out[i:i+16])
			copy(cPrev, cur)
		}
	}
	return out
}

// hsTmpKeys: tmp_aes_key := SHA1(new_nonce + server_nonce) + substr(SHA1(server_nonce + new_nonce), 0, 12);
// tmp_aes_iv := substr(SHA1(server_nonce + new_nonce), 12, 8) + SHA1(new_nonce + new_nonce) + substr(new_nonce, 0, 4)
func hsTmpKeys(newNonce, serverNonce []byte) (key, iv []byte) {
	a := hsSha1(newNonce, serverNonce)
	b := hsSha1(serverNonce, newNonce)
	c := hsSha1(newNonce, newNonce)
	key = append(append([]byte{}, a...), b[:12]...)
	iv = append(append(append([]byte{}, b[12:20]...), c...), newNonce[:4]...)
	return
}

// hsFingerprint: the 64 lower-order bits of SHA1 of the TL-serialised (n:string e:string) key.
func hsFingerprint(pub *rsa.PublicKey) uint64 {
	var w hsW
	w.str(pub.N.Bytes())
	w.str(big.NewInt(int64(pub.E)).Bytes())
	return binary.LittleEndian.Uint64(hsSha1(w.b)[12:20])
}

// hsFixed: big-endian, left-padded with zeros to n bytes (longer values are returned in full).
func hsFixed(x *big.Int, n int) []byte {
	b := x.Bytes()
	if len(b) >= n {
		return b
	}
	return append(make([]byte, n-len(b)), b...)
}

func hsIntBytes(x *big.Int, minimal bool) []byte {
	if minimal {
		return x.Bytes()
	}
	return hsFixed(x, 256)
}

// hsAuthKeyAux: auth_key_aux_hash input part: SHA1(auth_key)[0:8]; key id = SHA1(auth_key)[12:20].
func hsNonceHash(newNonce []byte, n byte, authKey []byte) []byte {
	return hsSha1(newNonce, []byte{n}, hsSha1(authKey)[0:8])[4:20]
}

func hsSalt(newNonce, serverNonce []byte) int64 {
	var s [8]byte
	for i := 0; i < 8; i++ {
		s[i] = newNonce[i] ^ serverNonce[i]
	}
	return int64(binary.LittleEndian.Uint64(s[:]))
}

// ---- (1c) the server's secrets and the client's draws -------------------------------------------------

type hsSecrets struct {
	Key         *rsa.PrivateKey
	ServerNonce []byte // 16
	P, Q        uint64 // primes, P < Q
	G           int32
	A           *big.Int
	DhPrime     *big.Int
	ServerTime  int32
	TimeRel     bool     // ServerTime is not a date but what this server's clock differs by from the harness' clock (seconds): server_time = now + ServerTime at the moment it is announced (conformant mode only)
	Pad         []byte   // 16 bytes; the answer's padding is a prefix of it
	Minimal     bool     // send dh_prime / g_a without leading zero bytes instead of as 256 bytes
	ExtraFps    []uint64 // further fingerprints offered in front of the right one
	LaterFps    []uint64 // further fingerprints offered after the right one
	// Fault: 0 = conformant. 1, 2, 3: the reply of that step (resPQ, server_DH_params_ok, dh_gen_ok) leaves with ONE
	// bit wrong - in nonce, in server_nonce, in new_nonce_hash1 -, everything else as the conformant server does it:
	// a server that misbehaves once (hsFaulty). Used for the exchanges that PRECEDE the judged one on a client object.
	Fault int
}

// offered: the fingerprints this server lists in resPQ — its key's own, those of other keys around it
func (s *hsSecrets) offered() []uint64 {
	fps := append(append([]uint64{}, s.ExtraFps...), hsFingerprint(&s.Key.PublicKey))
	return append(fps, s.LaterFps...)
}

func (s *hsSecrets) pqBytes() []byte {
	return new(big.Int).Mul(new(big.Int).SetUint64(s.P), new(big.Int).SetUint64(s.Q)).Bytes()
}
func (s *hsSecrets) gA() *big.Int { return new(big.Int).Exp(big.NewInt(int64(s.G)), s.A, s.DhPrime) }

type hsDraws struct {
	Nonce    []byte // 16
	NewNonce []byte // 32
	B        []byte // 256, big-endian DH exponent
	PadSeed  int64  // seed of the global math/rand before the exchange (padding of the client's DH message)
}

// hsPad16: the first 16 bytes dry.RandomBytes will deliver after Seed(seed).
func hsPad16(seed int64) []byte {
	mrand.Seed(seed)
	p := make([]byte, 16)
	mrand.Read(p)
	return p
}

// ---- (2) reply builders ----------------------------------------------------------------------------------

func hsResPQ(nonce, serverNonce, pq []byte, fps []uint64) []byte {
	var w hsW
	w.u32(hsIDResPQ)
	w.raw(nonce)
	w.raw(serverNonce)
	w.str(pq)
	w.u32(hsIDVector)
	w.u32(uint32(len(fps)))
	for _, f := range fps {
		w.u64(f)
	}
	return w.b
}

func hsInnerData(nonce, serverNonce []byte, g int32, dhPrime, gA []byte, serverTime int32) []byte {
	var w hsW
	w.u32(hsIDInner)
	w.raw(nonce)
	w.raw(serverNonce)
	w.u32(uint32(g))
	w.str(dhPrime)
	w.str(gA)
	w.u32(uint32(serverTime))
	return w.b
}

// hsWrapAnswer: AES256_ige_encrypt(SHA1(answer) + answer + (0-15 random bytes), tmp_aes_key, tmp_aes_iv)
func hsWrapAnswer(answer, hash, padSrc, newNonce, serverNonce []byte) []byte {
	n := (16 - (20+len(answer))%16) % 16
	plain := append(append(append([]byte{}, hash...), answer...), padSrc[:n]...)
	key, iv := hsTmpKeys(newNonce, serverNonce)
	return hsIGE(key, iv, plain, true)
}

func hsTriple(id uint32, a, b, c []byte) []byte {
	var w hsW
	w.u32(id)
	w.raw(a)
	w.raw(b)
	w.raw(c)
	return w.b
}

func hsDHOk(nonce, serverNonce, enc []byte) []byte {
	var w hsW
	w.u32(hsIDDHOk)
	w.raw(nonce)
	w.raw(serverNonce)
	w.str(enc)
	return w.b
}

func hsRpcError(code int32, msg string) []byte {
	var w hsW
	w.u32(hsIDRpcError)
	w.u32(uint32(code))
	w.str([]byte(msg))
	return w.b
}

// hsHonest: what a conformant server with secrets s answers to a client that uses nonce, newNonce
// and sends gB — the three reply bodies, and the key/salt it ends up with.
type hsHonestOut struct {
	R           [3][]byte
	AuthKey     []byte
	Salt        int64
	Answer      []byte // server_DH_inner_data
	NonceHash1  []byte
	EncAnswer   []byte
	Fingerprint uint64
}

func hsHonest(s *hsSecrets, nonce, newNonce []byte, gB *big.Int) hsHonestOut {
	var o hsHonestOut
	o.Fingerprint = hsFingerprint(&s.Key.PublicKey)
	o.R[0] = hsResPQ(nonce, s.ServerNonce, s.pqBytes(), s.offered())
	o.Answer = hsInnerData(nonce, s.ServerNonce, s.G, hsIntBytes(s.DhPrime, s.Minimal), hsIntBytes(s.gA(), s.Minimal), s.ServerTime)
	o.EncAnswer = hsWrapAnswer(o.Answer, hsSha1(o.Answer), s.Pad, newNonce, s.ServerNonce)
	o.R[1] = hsDHOk(nonce, s.ServerNonce, o.EncAnswer)
	o.AuthKey = hsFixed(new(big.Int).Exp(gB, s.A, s.DhPrime), 256)
	o.NonceHash1 = hsNonceHash(newNonce, 1, o.AuthKey)
	o.R[2] = hsTriple(hsIDDHGenOk, nonce, s.ServerNonce, o.NonceHash1)
	o.Salt = hsSalt(newNonce, s.ServerNonce)
	return o
}

// ---- (3) the judge of a reply sequence ----------------------------------------------------------------

type hsVerdict struct {
	Consistent bool
	Why        string // first inconsistency
	Degenerate string // a consistent-looking sequence with values outside what the description allows (pq, dh_prime)
	AuthKey    []byte // what an accepting client must hold
	Salt       int64
	GB         *big.Int
}

// hsJudgeReplies decides, from the description alone, whether the three reply bodies are a consistent
// answer sequence for a client with the given draws and public key (the checks a client must make:
// nonce / server_nonce echoed everywhere, a fingerprint of its key offered, the SHA-1 prefix of the
// decrypted answer, new_nonce_hash1, the expected constructors), and what key and salt follow.
func hsJudgeReplies(d *hsDraws, pub *rsa.PublicKey, r [][]byte) hsVerdict {
	v := hsVerdict{}
	bad := func(s string) hsVerdict { v.Why = s; return v }
	// "<field> differs" with the two 128-bit strings
	differs := func(field string, got []byte, what string, want []byte) string {
		return fmt.Sprintf("%s differs: %x, %s is %x", field, got, what, want)
	}
	if len(r) < 3 {
		return bad("fewer than three replies")
	}
	// resPQ
	rd := &hsR{b: r[0]}
	if rd.u32() != hsIDResPQ {
		return bad("reply 1 is not resPQ")
	}
	nonce, sn, pq := rd.take(16), rd.take(16), rd.str()
	if rd.u32() != hsIDVector {
		return bad("reply 1: fingerprints are not a vector")
	}
	cnt := int(rd.u32())
	found := false
	want := hsFingerprint(pub)
	for i := 0; i < cnt && !rd.bad; i++ {
		if rd.u64() == want {
			found = true
		}
	}
	if rd.bad {
		return bad("reply 1 is malformed")
	}
	if !bytes.Equal(nonce, d.Nonce) {
		return bad(differs("reply 1: nonce", nonce, "the client's nonce", d.Nonce))
	}
	if !found {
		return bad(fmt.Sprintf("reply 1: no fingerprint of the client's key (modulus %x…, public exponent %d: fingerprint %016x) among the %d offered", pub.N.Bytes()[:4], pub.E, want, cnt))
	}
	pqn := new(big.Int).SetBytes(pq)
	if pqn.Cmp(big.NewInt(4)) < 0 || pqn.ProbablyPrime(20) {
		v.Degenerate = "pq is not composite"
		return bad("reply 1: pq is below 4 or prime, not a product of two primes")
	}
	// server_DH_params_ok
	rd = &hsR{b: r[1]}
	if rd.u32() != hsIDDHOk {
		return bad("reply 2 is not server_DH_params_ok")
	}
	nonce2, sn2, enc := rd.take(16), rd.take(16), rd.str()
	if rd.bad {
		return bad("reply 2 is malformed")
	}
	if !bytes.Equal(nonce2, d.Nonce) {
		return bad(differs("reply 2: nonce", nonce2, "the client's nonce", d.Nonce))
	}
	if !bytes.Equal(sn2, sn) {
		return bad(differs("reply 2: server_nonce", sn2, "the server_nonce of resPQ", sn))
	}
	if len(enc) == 0 || len(enc)%16 != 0 {
		return bad("reply 2: encrypted_answer is not a positive multiple of 16 bytes")
	}
	key, iv := hsTmpKeys(d.NewNonce, sn)
	plain := hsIGE(key, iv, enc, false)
	if len(plain) < 20 {
		return bad("reply 2: answer shorter than its SHA-1")
	}
	var answer []byte
	for pad := 0; pad < 16 && pad <= len(plain)-20; pad++ {
		cand := plain[20 : len(plain)-pad]
		if bytes.Equal(hsSha1(cand), plain[:20]) {
			answer = cand
			break
		}
	}
	if answer == nil {
		return bad("reply 2: SHA-1 prefix of the decrypted answer does not match")
	}
	rd = &hsR{b: answer}
	if rd.u32() != hsIDInner {
		return bad("answer is not server_DH_inner_data")
	}
	nonce3, sn3 := rd.take(16), rd.take(16)
	g := int32(rd.u32())
	dhPrime, gA := rd.str(), rd.str()
	_ = rd.u32()
	if rd.bad {
		return bad("answer is malformed")
	}
	if !bytes.Equal(nonce3, d.Nonce) {
		return bad(differs("answer: nonce", nonce3, "the client's nonce", d.Nonce))
	}
	if !bytes.Equal(sn3, sn) {
		return bad(differs("answer: server_nonce", sn3, "the server_nonce of resPQ", sn))
	}
	P := new(big.Int).SetBytes(dhPrime)
	if P.Sign() == 0 {
		v.Degenerate = "dh_prime is zero"
		return bad("answer: dh_prime is zero")
	}
	b := new(big.Int).SetBytes(d.B)
	v.GB = new(big.Int).Exp(big.NewInt(int64(g)), b, P)
	v.AuthKey = hsFixed(new(big.Int).Exp(new(big.Int).SetBytes(gA), b, P), 256)
	v.Salt = hsSalt(d.NewNonce, sn)
	// dh_gen_ok
	rd = &hsR{b: r[2]}
	if rd.u32() != hsIDDHGenOk {
		return bad("reply 3 is not dh_gen_ok")
	}
	nonce4, sn4, h1 := rd.take(16), rd.take(16), rd.take(16)
	if rd.bad {
		return bad("reply 3 is malformed")
	}
	if !bytes.Equal(nonce4, d.Nonce) {
		return bad(differs("reply 3: nonce", nonce4, "the client's nonce", d.Nonce))
	}
	if !bytes.Equal(sn4, sn) {
		return bad(differs("reply 3: server_nonce", sn4, "the server_nonce of resPQ", sn))
	}
	if want := hsNonceHash(d.NewNonce, 1, v.AuthKey); !bytes.Equal(h1, want) {
		return bad(differs("reply 3: new_nonce_hash1", h1, "the hash of new_nonce and the key", want))
	}
	v.Consistent = true
	return v
}

// ---- (1d) the listener ---------------------------------------------------------------------------------

type hsFrameLog struct {
	Plain [][]byte // TL bodies of the unencrypted frames, in order
	Enc   [][]byte // raw payloads of frames with a non-zero auth_key_id
	Notes []string
}

type hsSrvResult struct {
	hsFrameLog
	Reject   string // conformant mode: why the server refused a request ("" = none)
	AuthKey  []byte
	Salt     int64
	HashSent []byte
	Done     bool // conformant mode: dh_gen_ok was sent
	// the server's clock: the server_time it announced in server_DH_inner_data and when it did (conformant mode),
	// and when each encrypted frame arrived — its clock at that moment is TimeSent + (EncAt[i] - TimeAt)
	TimeSent int32
	TimeAt   time.Time
	EncAt    []time.Time
}

type hsServer struct {
	ln      net.Listener
	mu      sync.Mutex
	conns   []net.Conn
	res     *hsSrvResult
	secrets *hsSecrets
	replies [][]byte // replay mode when non-nil
	encSeen chan struct{}
	connEnd chan struct{}
	msgSeq  uint64
	mute    bool   // the script is over: frames are still logged, nothing is answered any more
	addr    string // set by hsReserve
	fd      int    // hsReserve: the bound socket that does not listen yet (-1 once it does)
	// how this server's frames reach the client's socket (hsWriteFrame): "" = one write per frame
	delivery string
	// what the conformant server does with a request it refuses: "" = answers nothing, "close" = drops the connection
	refusal string
}

func hsListen() *hsServer {
	ln, err := net.Listen("tcp", "127.0.0.1:0")
	if err != nil {
		panic(err)
	}
	s := &hsServer{ln: ln, fd: -1}
	go s.acceptLoop()
	return s
}

// hsReserve: a server that is NOT UP yet. Its address is taken (a TCP socket bound to a loopback port, so that no
// other process can get the port meanwhile) but nobody listens: a client that dials it is refused, like one that
// was started before its server. up() makes the same socket listen.
func hsReserve() *hsServer {
	fd, err := syscall.Socket(syscall.AF_INET, syscall.SOCK_STREAM, 0)
	if err != nil {
		panic(err)
	}
	_ = syscall.SetsockoptInt(fd, syscall.SOL_SOCKET, syscall.SO_REUSEADDR, 1)
	if err := syscall.Bind(fd, &syscall.SockaddrInet4{Addr: [4]byte{127, 0, 0, 1}}); err != nil {
		syscall.Close(fd)
		panic(err)
	}
	sa, err := syscall.Getsockname(fd)
	if err != nil {
		syscall.Close(fd)
		panic(err)
	}
	return &hsServer{fd: fd, addr: fmt.Sprintf("127.0.0.1:%d", sa.(*syscall.SockaddrInet4).Port)}
}

// up: the reserved server starts listening (no-op when it already does).
func (s *hsServer) up() {
	if s.ln != nil {
		return
	}
	if err := syscall.Listen(s.fd, 128); err != nil {
		panic(err)
	}
	f := os.NewFile(uintptr(s.fd), "hs-listener")
	ln, err := net.FileListener(f)
	f.Close()
	if err != nil {
		panic(err)
	}
	s.ln, s.fd = ln, -1
	go s.acceptLoop()
}

func (s *hsServer) Addr() string {
	if s.ln == nil {
		return s.addr
	}
	return s.ln.Addr().String()
}

// rearm: the server's next script (for the connections accepted from now on), with a log of its own; the
// channels of the first arm stay (a connection reports its end to the channel the teardown waits on).
func (s *hsServer) rearm(secrets *hsSecrets, replies [][]byte) *hsSrvResult {
	s.mu.Lock()
	defer s.mu.Unlock()
	s.res = &hsSrvResult{}
	s.secrets = secrets
	s.replies = replies
	if s.encSeen == nil {
		s.encSeen = make(chan struct{}, 16)
		s.connEnd = make(chan struct{}, 16)
	}
	return s.res
}

func (s *hsServer) setMute(v bool) {
	s.mu.Lock()
	s.mute = v
	s.mu.Unlock()
}

// seen: frames logged so far (unencrypted, encrypted) in the current log
func (s *hsServer) seen() (int, int) {
	s.mu.Lock()
	defer s.mu.Unlock()
	return len(s.res.Plain), len(s.res.Enc)
}

// hsFaulty: the reply of step `stage` with one bit wrong: resPQ.nonce, server_DH_params_ok.server_nonce,
// dh_gen_ok.new_nonce_hash1 (every reply of the exchange starts id, nonce, server_nonce).
func hsFaulty(reply []byte, stage int) []byte {
	off := map[int]int{1: 4, 2: 20, 3: 36}[stage]
	if off == 0 || len(reply) <= off {
		return reply
	}
	out := append([]byte{}, reply...)
	out[off] ^= 1
	return out
}

// arm prepares the server for one exchange.
func (s *hsServer) arm(secrets *hsSecrets, replies [][]byte) *hsSrvResult {
	s.mu.Lock()
	defer s.mu.Unlock()
	s.res = &hsSrvResult{}
	s.secrets = secrets
	s.replies = replies
	s.encSeen = make(chan struct{}, 16)
	s.connEnd = make(chan struct{}, 16)
	return s.res
}

func (s *hsServer) closeConns() {
	s.mu.Lock()
	cs := s.conns
	s.conns = nil
	s.mu.Unlock()
	for _, c := range cs {
		c.Close()
	}
}

func (s *hsServer) Close() {
	if s.ln != nil {
		s.ln.Close()
	} else if s.fd >= 0 {
		syscall.Close(s.fd)
		s.fd = -1
	}
	s.closeConns()
}

func (s *hsServer) acceptLoop() {
	for {
		c, err := s.ln.Accept()
		if err != nil {
			return
		}
		s.mu.Lock()
		s.conns = append(s.conns, c)
		res, sec, rep, seen, end := s.res, s.secrets, s.replies, s.encSeen, s.connEnd
		s.mu.Unlock()
		if res == nil {
			c.Close()
			continue
		}
		go func() {
			s.serve(c, res, sec, rep, seen)
			select {
			case end <- struct{}{}:
			default:
			}
		}()
	}
}

func (s *hsServer) nextMsgID() uint64 {
	s.msgSeq++
	return uint64(time.Now().Unix())<<32 | (s.msgSeq << 2) | 1
}

func (s *hsServer) sendPlain(c net.Conn, body []byte) {
	var w hsW
	w.u64(0)
	w.u64(s.nextMsgID())
	w.u32(uint32(len(body)))
	w.raw(body)
	var f hsW
	f.u32(uint32(len(w.b)))
	f.raw(w.b)
	hsWriteFrame(c, f.b, s.delivery)
}

// hsDelivery: in how many pieces, and at what pace, a transport frame (4-byte length + packet) is handed to the
// connection. TCP is a byte stream: a conformant server, a small MSS, a loaded sender or a proxy on the path may
// deliver one frame in any number of segments.
//
//	"" / whole   one write
//	half         the two halves
//	cut<k>       the first k bytes, a pause, the rest (k >= the frame's length: all but the last byte first)
//	tail<k>      all but the last k bytes, a pause, the rest
//	each<k>      pieces of k bytes, a pause between them
//
// optionally `@<ms>`, the pause in milliseconds (default 8; each<k>: 1).
func hsDelivery(spec string) (kind string, k int, pause time.Duration, ok bool) {
	ms := -1
	if i := strings.IndexByte(spec, '@'); i >= 0 {
		v, err := strconv.Atoi(spec[i+1:])
		if err != nil || v < 0 || v > 200 || strconv.Itoa(v) != spec[i+1:] {
			return "", 0, 0, false
		}
		ms, spec = v, spec[:i]
	}
	switch {
	case spec == "" || spec == "whole" || spec == "half":
		kind = spec
	case strings.HasPrefix(spec, "cut"), strings.HasPrefix(spec, "tail"), strings.HasPrefix(spec, "each"):
		kind = strings.TrimRight(spec, "0123456789")
		v, err := strconv.Atoi(spec[len(kind):])
		if err != nil || v < 1 || v > 100000 || strconv.Itoa(v) != spec[len(kind):] || (kind != "cut" && kind != "tail" && kind != "each") {
			return "", 0, 0, false
		}
		k = v
	default:
		return "", 0, 0, false
	}
	if ms < 0 {
		ms = 8
		if kind == "each" {
			ms = 1
		}
	}
	return kind, k, time.Duration(ms) * time.Millisecond, true
}

func hsDeliveryOk(spec string) bool {
	_, _, _, ok := hsDelivery(spec)
	return ok && spec != ""
}

// hsWriteFrame: the frame, handed to the connection the way `spec` says.
func hsWriteFrame(c net.Conn, frame []byte, spec string) {
	kind, k, pause, ok := hsDelivery(spec)
	n := len(frame)
	if !ok || kind == "" || kind == "whole" || n < 2 {
		c.Write(frame)
		return
	}
	var cuts []int // the offsets at which a new piece starts
	switch kind {
	case "half":
		cuts = []int{n / 2}
	case "cut":
		if k >= n {
			k = n - 1
		}
		cuts = []int{k}
	case "tail":
		if k >= n {
			k = n - 1
		}
		cuts = []int{n - k}
	case "each":
		for o := k; o < n; o += k {
			cuts = append(cuts, o)
		}
	}
	from := 0
	for _, to := range append(cuts, n) {
		if from > 0 {
			time.Sleep(pause)
		}
		if _, err := c.Write(frame[from:to]); err != nil {
			return
		}
		from = to
	}
}

func (s *hsServer) serve(c net.Conn, res *hsSrvResult, sec *hsSecrets, replies [][]byte, seen chan struct{}) {
	note := func(f string, a ...interface{}) {
		s.mu.Lock()
		res.Notes = append(res.Notes, fmt.Sprintf(f, a...))
		s.mu.Unlock()
	}
	ann := make([]byte, 4)
	if _, err := io.ReadFull(c, ann); err != nil {
		return
	}
	if !bytes.Equal(ann, []byte{0xee, 0xee, 0xee, 0xee}) {
		note("announcement %x", ann)
		return
	}
	st := &hsConv{sec: sec}
	nPlain := 0
	for {
		hdr := make([]byte, 4)
		if _, err := io.ReadFull(c, hdr); err != nil {
			return
		}
		n := binary.LittleEndian.Uint32(hdr)
		if n > 1<<24 {
			note("frame of %d bytes", n)
			return
		}
		pkt := make([]byte, n)
		if _, err := io.ReadFull(c, pkt); err != nil {
			return
		}
		if len(pkt) >= 8 && binary.LittleEndian.Uint64(pkt) != 0 {
			s.mu.Lock()
			res.Enc = append(res.Enc, pkt)
			res.EncAt = append(res.EncAt, time.Now())
			s.mu.Unlock()
			select {
			case seen <- struct{}{}:
			default:
			}
			continue
		}
		if len(pkt) < 20 || int(binary.LittleEndian.Uint32(pkt[16:])) != len(pkt)-20 {
			note("malformed plain frame of %d bytes", len(pkt))
			return
		}
		mid := binary.LittleEndian.Uint64(pkt[8:])
		if mid%4 != 0 {
			note("client msg_id %d not divisible by 4", mid)
		}
		body := pkt[20:]
		s.mu.Lock()
		res.Plain = append(res.Plain, append([]byte{}, body...))
		s.mu.Unlock()
		nPlain++
		s.mu.Lock()
		mute := s.mute
		s.mu.Unlock()
		if mute {
			continue
		}
		if replies != nil {
			if nPlain <= len(replies) {
				s.sendPlain(c, replies[nPlain-1])
				if hsBurstBehind == nPlain {
					// right behind this reply, before the client can have judged it: the frames of the aftermath
					// (the reading routine may hold one of them when the exchange is given up)
					var a hsW
					a.u32(0x9ec20908) // new_session_created first_msg_id unique_id server_salt
					a.u64(4)
					a.u64(0x1111111111111111)
					a.u64(0x2222222222222222)
					s.sendPlain(c, a.b)
				}
			}
			continue
		}
		reply, why := st.handle(body)
		if reply != nil && sec.Fault != 0 && sec.Fault == st.stage {
			reply = hsFaulty(reply, st.stage)
		}
		s.mu.Lock()
		if why != "" && res.Reject == "" {
			res.Reject = why
		}
		res.AuthKey, res.Salt, res.HashSent, res.Done = st.authKey, st.salt, st.hashSent, st.done
		res.TimeSent, res.TimeAt = st.timeSent, st.timeAt
		s.mu.Unlock()
		if reply != nil {
			s.sendPlain(c, reply)
		} else if why != "" && s.refusal == "close" {
			c.Close()
			return
		}
	}
}

// hsConv: the conformant server's conversation state.
type hsConv struct {
	sec      *hsSecrets
	stage    int
	nonce    []byte
	newNonce []byte
	authKey  []byte
	salt     int64
	hashSent []byte
	done     bool
	timeSent int32     // the server_time announced
	timeAt   time.Time // … and when
}

// handle: one request body in, the reply body out (nil + reason when the request is refused; a
// real server would drop the connection).
func (cv *hsConv) handle(body []byte) ([]byte, string) {
	s := cv.sec
	rd := &hsR{b: body}
	id := rd.u32()
	switch {
	case cv.stage == 0 && id == hsIDReqPQ:
		cv.nonce = append([]byte{}, rd.take(16)...)
		if rd.bad || rd.off != len(body) {
			return nil, "req_pq malformed"
		}
		cv.stage = 1
		return hsResPQ(cv.nonce, s.ServerNonce, s.pqBytes(), s.offered()), ""
	case cv.stage == 1 && id == hsIDReqDH:
		nonce, sn, p, q := rd.take(16), rd.take(16), rd.str(), rd.str()
		fp := rd.u64()
		enc := rd.str()
		if rd.bad || rd.off != len(body) {
			return nil, "req_DH_params malformed"
		}
		if !bytes.Equal(nonce, cv.nonce) || !bytes.Equal(sn, s.ServerNonce) {
			return nil, "req_DH_params: nonce / server_nonce differ"
		}
		if new(big.Int).SetBytes(p).Uint64() != s.P || new(big.Int).SetBytes(q).Uint64() != s.Q || len(p) > 8 || len(q) > 8 {
			return nil, fmt.Sprintf("req_DH_params: p=%x q=%x are not the factors %d < %d", p, q, s.P, s.Q)
		}
		if fp != hsFingerprint(&s.Key.PublicKey) {
			return nil, "req_DH_params: fingerprint is not the server key's"
		}
		if len(enc) != 256 {
			return nil, fmt.Sprintf("req_DH_params: encrypted_data has %d bytes", len(enc))
		}
		c := new(big.Int).SetBytes(enc)
		if c.Cmp(s.Key.N) >= 0 {
			return nil, "req_DH_params: encrypted_data is not below the modulus"
		}
		m := new(big.Int).Exp(c, s.Key.D, s.Key.N)
		if m.BitLen() > 255*8 {
			return nil, "req_DH_params: RSA block is not data_with_hash (255 bytes): decrypts to a longer value"
		}
		block := hsFixed(m, 255)
		in := &hsR{b: block[20:]}
		if in.u32() != hsIDPQInner {
			return nil, "req_DH_params: RSA block does not hold p_q_inner_data"
		}
		ipq, ip, iq, inonce, isn, inew := in.str(), in.str(), in.str(), in.take(16), in.take(16), in.take(32)
		if in.bad {
			return nil, "req_DH_params: p_q_inner_data malformed"
		}
		if !bytes.Equal(hsSha1(block[20:20+in.off]), block[:20]) {
			return nil, "req_DH_params: SHA1 of p_q_inner_data does not match"
		}
		if !bytes.Equal(ipq, s.pqBytes()) || !bytes.Equal(ip, p) || !bytes.Equal(iq, q) ||
			!bytes.Equal(inonce, cv.nonce) || !bytes.Equal(isn, s.ServerNonce) {
			return nil, "req_DH_params: p_q_inner_data does not repeat pq, p, q, nonce, server_nonce"
		}
		cv.newNonce = append([]byte{}, inew...)
		cv.stage = 2
		cv.timeSent, cv.timeAt = s.ServerTime, time.Now()
		if s.TimeRel {
			cv.timeSent = int32(cv.timeAt.Unix() + int64(s.ServerTime))
		}
		answer := hsInnerData(cv.nonce, s.ServerNonce, s.G, hsIntBytes(s.DhPrime, s.Minimal), hsIntBytes(s.gA(), s.Minimal), cv.timeSent)
		return hsDHOk(cv.nonce, s.ServerNonce, hsWrapAnswer(answer, hsSha1(answer), s.Pad, cv.newNonce, s.ServerNonce)), ""
	case cv.stage == 2 && id == hsIDSetClientDH:
		nonce, sn, enc := rd.take(16), rd.take(16), rd.str()
		if rd.bad || rd.off != len(body) {
			return nil, "set_client_DH_params malformed"
		}
		if !bytes.Equal(nonce, cv.nonce) || !bytes.Equal(sn, s.ServerNonce) {
			return nil, "set_client_DH_params: nonce / server_nonce differ"
		}
		if len(enc) == 0 || len(enc)%16 != 0 {
			return nil, fmt.Sprintf("set_client_DH_params: encrypted_data has %d bytes", len(enc))
		}
		key, iv := hsTmpKeys(cv.newNonce, s.ServerNonce)
		plain := hsIGE(key, iv, enc, false)
		in := &hsR{b: plain[20:]}
		if in.u32() != hsIDClientInner {
			return nil, "set_client_DH_params: does not decrypt to client_DH_inner_data"
		}
		inonce, isn := in.take(16), in.take(16)
		retry := in.u64()
		gb := in.str()
		if in.bad {
			return nil, "set_client_DH_params: client_DH_inner_data malformed"
		}
		if !bytes.Equal(hsSha1(plain[20:20+in.off]), plain[:20]) {
			return nil, "set_client_DH_params: SHA1 of client_DH_inner_data does not match"
		}
		if len(plain)-20-in.off > 15 {
			return nil, fmt.Sprintf("set_client_DH_params: %d padding bytes", len(plain)-20-in.off)
		}
		if !bytes.Equal(inonce, cv.nonce) || !bytes.Equal(isn, s.ServerNonce) {
			return nil, "client_DH_inner_data: nonce / server_nonce differ"
		}
		if retry != 0 {
			return nil, fmt.Sprintf("client_DH_inner_data: retry_id %d on the first attempt", retry)
		}
		gB := new(big.Int).SetBytes(gb)
		one := big.NewInt(1)
		if gB.Cmp(one) <= 0 || gB.Cmp(new(big.Int).Sub(s.DhPrime, one)) >= 0 {
			return nil, "client_DH_inner_data: g_b outside (1, dh_prime-1)"
		}
		cv.authKey = hsFixed(new(big.Int).Exp(gB, s.A, s.DhPrime), 256)
		cv.salt = hsSalt(cv.newNonce, s.ServerNonce)
		cv.hashSent = hsNonceHash(cv.newNonce, 1, cv.authKey)
		cv.stage = 3
		cv.done = true
		return hsTriple(hsIDDHGenOk, cv.nonce, s.ServerNonce, cv.hashSent), ""
	}
	return nil, fmt.Sprintf("unexpected request %08x at stage %d", id, cv.stage)
}

// hsOpenClientFrame: server side of the MTProto 1.0 envelope (x = 0): auth_key_id, msg_key, IGE.
// Returns the inner (salt, session, msg_id, seq_no, body) or why the frame is refused.
func hsOpenClientFrame(authKey, pkt []byte) (salt int64, body []byte, why string) {
	salt, _, body, why = hsOpenClientFrameID(authKey, pkt)
	return salt, body, why
}

// hsOpenClientFrameID: the same, with the msg_id of the message inside.
func hsOpenClientFrameID(authKey, pkt []byte) (salt int64, msgID uint64, body []byte, why string) {
	if len(authKey) != 256 {
		return 0, 0, nil, fmt.Sprintf("server auth key has %d bytes", len(authKey))
	}
	if len(pkt) < 24+32 || (len(pkt)-24)%16 != 0 {
		return 0, 0, nil, fmt.Sprintf("encrypted frame of %d bytes", len(pkt))
	}
	if !bytes.Equal(pkt[:8], hsSha1(authKey)[12:20]) {
		return 0, 0, nil, "auth_key_id is not SHA1(auth_key)[12:20] of the server's key"
	}
	mk := pkt[8:24]
	a := hsSha1(mk, authKey[0:32])
	b := hsSha1(authKey[32:48], mk, authKey[48:64])
	c := hsSha1(authKey[64:96], mk)
	d := hsSha1(mk, authKey[96:128])
	key := append(append(append([]byte{}, a[0:8]...), b[8:20]...), c[4:16]...)
	iv := append(append(append(append([]byte{}, a[8:20]...), b[0:8]...), c[16:20]...), d[0:8]...)
	pt := hsIGE(key, iv, pkt[24:], false)
	l := int(int32(binary.LittleEndian.Uint32(pt[28:32])))
	if l < 0 || 32+l > len(pt) {
		return 0, 0, nil, fmt.Sprintf("inner length %d of %d decrypted bytes", l, len(pt))
	}
	// "... message_data_length, message_data, padding 0..15": what follows the declared length is padding, and a
	// message with more of it than a block needs is not what the description defines
	if pad := len(pt) - 32 - l; pad > 15 {
		return 0, 0, nil, fmt.Sprintf("%d bytes of padding after a message of %d bytes (header 32 + message_data_length %d; MTProto 1.0 allows 0..15)", pad, 32+l, l)
	}
	if !bytes.Equal(hsSha1(pt[:32+l])[4:20], mk) {
		return 0, 0, nil, "msg_key is not SHA1(plaintext)[4:20]"
	}
	return int64(binary.LittleEndian.Uint64(pt[0:8])), binary.LittleEndian.Uint64(pt[16:24]), pt[32 : 32+l], ""
}

// ---- (4) running the real client ---------------------------------------------------------------------

// hsStore records every Store; Load finds nothing. SessionLoader is an interface anyone may implement, and
// there is more than one way of saying "nothing stored" (Mode):
//
//	"" / "notfound"   (nil, *errs.NotFoundError)   what the file loader of the repository does
//	"nil"             (nil, nil)                   what a store that simply returns what it holds does
//	"fail"            (nil, some other error)      the storage cannot be read: NewMTProto has to give up
type hsStore struct {
	mu     sync.Mutex
	Mode   string
	Stores []session.Session
}

var hsStoreModes = []string{"notfound", "nil", "fail"}

func (s *hsStore) Load() (*session.Session, error) {
	switch s.Mode {
	case "nil":
		return nil, nil
	case "fail":
		return nil, fmt.Errorf("session storage is not reachable")
	}
	return nil, errs.NotFound("session", "verif")
}
func (s *hsStore) Store(x *session.Session) error {
	s.mu.Lock()
	defer s.mu.Unlock()
	c := *x
	c.Key = append([]byte{}, x.Key...)
	c.Hash = append([]byte{}, x.Hash...)
	s.Stores = append(s.Stores, c)
	return nil
}

// hsReader: the byte stream crypto/rand.Reader delivers during one exchange.
type hsReader struct {
	mu       sync.Mutex
	buf      []byte
	off      int
	Overrun  int
	fallback io.Reader
}

func (r *hsReader) Read(p []byte) (int, error) {
	r.mu.Lock()
	defer r.mu.Unlock()
	if r.off+len(p) <= len(r.buf) {
		copy(p, r.buf[r.off:])
		r.off += len(p)
		return len(p), nil
	}
	r.Overrun += len(p)
	return r.fallback.Read(p)
}

var hsRandMu sync.Mutex

type hsRun struct {
	Outcome  string // ok | err:<class> | panic:<site> | hang
	ErrText  string
	AuthKey  []byte
	Salt     int64
	Enc, Svc bool
	Stores   []session.Session
	Srv      *hsSrvResult
	RandUsed int
	Overrun  int
	FirstEnc string   // "" not attempted; "readable:<body hex>" / why not
	Opened   []string // the same for every encrypted frame the server saw, in order
	EncEarly int      // encrypted frames the server had seen when CreateConnection returned (or hung)
	Addr     string
	// history runs (hsPlan)
	Pre, Post  []string // "<step>:<outcome>" of the steps before / after the judged exchange
	PlainEarly int      // unencrypted frames the server had seen when CreateConnection returned (or hung)
	After      []string // what the application did after an abandoned exchange ("req", "retry:<outcome>")
	EncLate    bool     // the client's encrypted flag after that
}

// hsErrClass maps makeAuthKey's error to a small enum (by the fixed text of the error site).
func hsErrClass(err error) string {
	t := err.Error()
	has := func(s string) bool { return strings.Contains(t, s) }
	switch {
	case has("can't decode response"):
		return "badResponse"
	case has("got invalid response type"):
		return "invalidType"
	case has("Wrong new_nonce_hash1"):
		return "wrongHash"
	case has("Wrong server_nonce"):
		return "wrongServerNonce"
	case has("Wrong nonce"):
		return "wrongNonce"
	case has("Can't find fingerprint"):
		return "noFingerprint"
	case has("Need ServerDHParamsOk"):
		return "needDHParamsOk"
	case has("Need server_DH_inner_data"):
		return "needInnerData"
	case has("Need DHGenOk"):
		return "needDHGenOk"
	case has("decoding response from server"):
		return "decodeAnswer"
	case has("bad encrypted_answer"):
		return "badAnswer"
	case has("pq is not"):
		return "badPQ"
	case has("dh_prime"):
		return "badDH"
	case has("saving session"):
		return "saveSession"
	case has("can't connect"):
		return "connect"
	}
	if _, ok := errors_Cause(err).(*mtproto.ErrResponseCode); ok {
		return "rpcError"
	}
	return "?" // an error whose text the harness does not know (a reworded message): class left open
}

// errors_Cause: github.com/pkg/errors.Cause without importing it under a clashing name.
func errors_Cause(err error) error {
	type causer interface{ Cause() error }
	for err != nil {
		c, ok := err.(causer)
		if !ok {
			break
		}
		err = c.Cause()
	}
	return err
}

func hsPanicSite() string {
	pcs := make([]uintptr, 64)
	n := runtime.Callers(3, pcs)
	frames := runtime.CallersFrames(pcs[:n])
	for {
		f, more := frames.Next()
		fn := f.Function
		if strings.HasPrefix(fn, "github.com/xelaj/mtproto") && !strings.Contains(fn, "verifharness") {
			fn = strings.TrimPrefix(fn, "github.com/xelaj/mtproto/")
			fn = strings.TrimPrefix(fn, "github.com/xelaj/mtproto.")
			return fn
		}
		if !more {
			break
		}
	}
	return "unknown"
}

// hsExchange runs NewMTProto + CreateConnection of the real client against a fresh listener, armed
// with either the conformant conversation (secrets) or prepared replies. probe: after a successful exchange
// issue one encrypted request and let the server try to read it.
// hsAftermath: when set, a server whose exchange was abandoned by the client goes on talking: it sends an
// unencrypted new_session_created and a bad_server_salt on the same connection. Nothing of an abandoned
// exchange may reach the session store through them.
var hsAftermath bool

// hsAftermathLate: the store and the client are looked at 1.6 s after those frames instead of 30 ms
var hsAftermathLate bool

// hsBurstBehind: the replay server writes a plain new_session_created directly behind its reply of that number (0: never)
var hsBurstBehind int

// hsWarnMode: what the application does with the client's Warnings channel (a public field it may set after
// NewMTProto) while hsExchangeOn runs the exchange:
//
//	"" / "nil"   leaves it nil (the default)
//	"buffered"   a channel with room (what telegram.NewClient makes), read only after the exchange
//	"unread"     an unbuffered channel nobody receives from until CreateConnection has returned (the application
//	             starts its printing goroutine once it is connected)
//	"drained"    an unbuffered channel with a goroutine receiving from it all the time
//
// In every mode the channel is received from once CreateConnection has returned (or the watchdog has fired).
var hsWarnMode string

var hsWarnModes = []string{"nil", "buffered", "unread", "drained"}

func hsExchange(d *hsDraws, pub *rsa.PublicKey, secrets *hsSecrets, replies [][]byte, probe bool) *hsRun {
	return hsExchangeOn("notfound", d, pub, secrets, replies, probe)
}

// hsExchangeOn: the same with a session store that says "nothing stored" in the given way (hsStore.Mode).
func hsExchangeOn(storeMode string, d *hsDraws, pub *rsa.PublicKey, secrets *hsSecrets, replies [][]byte, probe bool) *hsRun {
	return hsExchangePlan(&hsPlan{StoreMode: storeMode, D: d, Pub: pub, Secrets: secrets, Replies: replies, Probe: probe})
}

// hsPlan: everything the application does with ONE client object (one mtproto.NewMTProto) in one run. The JUDGED
// exchange is the CreateConnection whose draws are D, against a server armed with Secrets (conformant) or Replies
// (replay). Around it:
//
// Pre - what happened on the object before (the history of the client value):
//
//	dial     a CreateConnection while the server is not up yet (its address is reserved, nobody listens: the dial
//	         is refused). Only before the server has been up.
//	disc     Disconnect
//	fail1 fail2 fail3
//	         a CreateConnection against a server that misbehaves ONCE, at that step of the exchange (hsSecrets.Fault):
//	         the client has to give the exchange up
//
// Post - what the application does on the object after the judged exchange has returned, before its first request:
//
//	reconnect   Reconnect
//	disc        Disconnect
//	create      CreateConnection
//
// After - what the application does after a judged exchange that did NOT succeed (C07: the client side of the
// aftermath; everything the client writes is logged by the server, which answers nothing any more):
//
//	req      one request (ping) through MakeRequest on the same object
//	retry    a second CreateConnection on the same object (the replay server plays its script again on the new
//	         connection), then one request
type hsPlan struct {
	StoreMode string
	D         *hsDraws
	Pub       *rsa.PublicKey
	Secrets   *hsSecrets
	Replies   [][]byte
	Probe     bool
	Pre, Post []string
	After     string
	First     []string // the requests the application issues after a completed exchange, in order (hsRequest; default: ping)
	// the environment of the run. Delivery: how the server's frames reach the client's socket (hsDelivery; "" = one
	// write per frame). SessionFile: when set, the client is configured with Config.AuthKeyFile = that path (the
	// library's own file storage) instead of the recording storage; hsRun.Stores then stays empty - the caller reads
	// the file.
	Delivery    string
	SessionFile string
	// Refusal: what the conformant server does with a request it has to refuse. "" / "silent": it answers nothing
	// and keeps the connection; "close": it drops the connection, as a real server does (c06.draw)
	Refusal string
}

var (
	hsPreSteps  = []string{"dial", "disc", "fail1", "fail2", "fail3"}
	hsPostSteps = []string{"reconnect", "disc", "create"}
)

// hsHistoryOk: the rules of a history. `dial` only while the server has not been up (no failK before it); the first
// step is not `disc` (nothing to disconnect: the application has not connected yet); after the judged exchange
// `create` only directly after `disc`, and the last step leaves the client connected.
func hsHistoryOk(pre, post []string) bool {
	if len(pre) > 6 || len(post) > 4 {
		return false
	}
	up := false
	for i, st := range pre {
		switch st {
		case "dial":
			if up {
				return false
			}
		case "disc":
			if i == 0 {
				return false
			}
		case "fail1", "fail2", "fail3":
			up = true
		default:
			return false
		}
	}
	for i, st := range post {
		switch st {
		case "reconnect":
			if i > 0 && post[i-1] == "disc" {
				return false
			}
		case "disc":
			if i > 0 && post[i-1] == "disc" {
				return false
			}
		case "create":
			if i == 0 || post[i-1] != "disc" {
				return false
			}
		default:
			return false
		}
	}
	return len(post) == 0 || post[len(post)-1] != "disc"
}

// hsCall: one call of the application on the client, on a goroutine of its own with recover and the watchdog.
func hsCall(f func() error) (outcome, text string) {
	type result struct {
		err error
		pan string
	}
	done := make(chan result, 1)
	go func() {
		var r result
		defer func() {
			if p := recover(); p != nil {
				r.pan = hsPanicSite()
			}
			done <- r
		}()
		r.err = f()
	}()
	select {
	case r := <-done:
		switch {
		case r.pan != "":
			return "panic:" + r.pan, ""
		case r.err != nil:
			return "err:" + hsErrClass(r.err), r.err.Error()
		}
		return "ok", ""
	case <-time.After(hsWatchdog):
		return "hang", ""
	}
}

// hsStopHandle: the handle with which the routines the last CreateConnection started can be stopped (the private
// field MTProto.stopRoutines; nil when it cannot be read). The application has no access to it, and a
// CreateConnection that follows another one without a Disconnect in between overwrites it: the readers of the
// earlier connection can then be stopped by nobody. The harness keeps the handle for its TEARDOWN only (a reader
// that is left behind spins once its connection is gone); nothing observed depends on it.
func hsStopHandle(m *mtproto.MTProto) (stop func()) {
	defer func() {
		if recover() != nil {
			stop = nil
		}
	}()
	f := reflect.ValueOf(m).Elem().FieldByName("stopRoutines")
	if !f.IsValid() || f.Kind() != reflect.Func || f.IsNil() {
		return nil
	}
	switch c := reflect.NewAt(f.Type(), unsafe.Pointer(f.UnsafeAddr())).Elem().Interface().(type) {
	case context.CancelFunc:
		return c
	case func():
		return c
	}
	return nil
}

func hsPing(m *mtproto.MTProto) { hsSend(m, "ping") }

// hsSend: the application issues one request (hsRequest) through MakeRequest, on a goroutine of its own (the server
// answers nothing, the call blocks for good).
func hsSend(m *mtproto.MTProto, spec string) {
	obj, _, ok := hsRequest(spec)
	if !ok {
		return
	}
	go func() {
		defer func() { _ = recover() }()
		_, _ = m.MakeRequest(obj)
	}()
}

// The requests an application may issue first. MakeRequest takes any TL object; what matters to the envelope is the
// LENGTH of its serialisation (a multiple of 4): 32 header bytes + body are padded to the block size, so the body
// length modulo 16 decides how much padding there is (0 for a body of 16, 32, ... bytes).
//
//	ping        ping ping_id:long                                         12 bytes
//	pingdelay   ping_delay_disconnect ping_id:long disconnect_delay:int   16 bytes (the usual keep-alive)
//	salts       get_future_salts num:int                                   8 bytes
//	config      help.getConfig                                             4 bytes
//	bytes<N>    a method with one bytes argument of N bytes (0..4096):     4 + TL string of N bytes
//	            not a schema method - any method with such an argument serialises like this
type hsReqPingDelay struct {
	PingID          int64
	DisconnectDelay int32
}

func (*hsReqPingDelay) CRC() uint32 { return 0xf3427b8c }

type hsReqFutureSalts struct{ Num int32 }

func (*hsReqFutureSalts) CRC() uint32 { return 0xb921bd04 }

type hsReqGetConfig struct{}

func (*hsReqGetConfig) CRC() uint32 { return 0xc4f9186b }

type hsReqBytes struct{ Data []byte }

func (*hsReqBytes) CRC() uint32 { return 0xb17e5a26 }

const hsPingID = 0x0123456789abcdef

// hsRequest: the object handed to MakeRequest and its serialisation written by hand (what the server must find
// inside the envelope).
func hsRequest(spec string) (obj interface{ CRC() uint32 }, body []byte, ok bool) {
	var w hsW
	switch {
	case spec == "ping":
		w.u32(hsIDPing)
		w.u64(hsPingID)
		return &objects.PingParams{PingID: hsPingID}, w.b, true
	case spec == "pingdelay":
		w.u32(0xf3427b8c)
		w.u64(hsPingID)
		w.u32(75)
		return &hsReqPingDelay{PingID: hsPingID, DisconnectDelay: 75}, w.b, true
	case spec == "salts":
		w.u32(0xb921bd04)
		w.u32(3)
		return &hsReqFutureSalts{Num: 3}, w.b, true
	case spec == "config":
		w.u32(0xc4f9186b)
		return &hsReqGetConfig{}, w.b, true
	case strings.HasPrefix(spec, "bytes"):
		ds := spec[5:]
		if len(ds) < 1 || len(ds) > 4 || (len(ds) > 1 && ds[0] == '0') {
			return nil, nil, false
		}
		n := 0
		for _, ch := range ds {
			if ch < '0' || ch > '9' {
				return nil, nil, false
			}
			n = n*10 + int(ch-'0')
		}
		if n > 4096 {
			return nil, nil, false
		}
		data := make([]byte, n)
		for i := range data {
			data[i] = byte(i*7 + n)
		}
		w.u32(0xb17e5a26)
		w.str(data)
		return &hsReqBytes{Data: data}, w.b, true
	}
	return nil, nil, false
}

// hsRequestsOk: a `/`-separated list of one to four requests
func hsRequestsOk(list string) bool {
	specs := strings.Split(list, "/")
	if len(specs) < 1 || len(specs) > 4 {
		return false
	}
	for _, sp := range specs {
		if _, _, ok := hsRequest(sp); !ok {
			return false
		}
	}
	return true
}

func hsExchangePlan(p *hsPlan) *hsRun {
	d, secrets, replies := p.D, p.Secrets, p.Replies
	var srv *hsServer
	if len(p.Pre) > 0 {
		srv = hsReserve()
	} else {
		srv = hsListen()
	}
	run := &hsRun{Addr: srv.Addr()}
	srv.delivery = p.Delivery
	srv.refusal = p.Refusal
	run.Srv = srv.arm(secrets, replies)
	store := &hsStore{Mode: p.StoreMode}
	cfg := mtproto.Config{SessionStorage: store, ServerHost: srv.Addr(), PublicKey: p.Pub}
	if p.SessionFile != "" {
		cfg = mtproto.Config{AuthKeyFile: p.SessionFile, ServerHost: srv.Addr(), PublicKey: p.Pub}
	}
	m, err := mtproto.NewMTProto(cfg)
	if err != nil {
		// no client: nothing was sent, nothing can have been stored
		run.Outcome = "err:new"
		run.ErrText = err.Error()
		srv.Close()
		snap := *run.Srv
		run.Srv = &snap
		return run
	}
	drain := func() {}
	switch hsWarnMode {
	case "buffered", "unread", "drained":
		ch := make(chan error)
		if hsWarnMode == "buffered" {
			ch = make(chan error, 100)
		}
		m.Warnings = ch
		var once sync.Once
		drain = func() {
			once.Do(func() {
				go func() {
					for range ch {
					}
				}()
			})
		}
		if hsWarnMode == "drained" {
			drain()
		}
	}

	// the history of the client object. A connection attempt that is followed by another one without a Disconnect
	// in between leaves its routines behind (orphans: stopped at the teardown, see hsStopHandle).
	var orphans []func()
	var pending func() // the stop handle of the last attempt, not yet disconnected
	attempt := func(f func() error) (string, string) {
		if pending != nil {
			orphans = append(orphans, pending)
		}
		o, t := hsCall(f)
		pending = hsStopHandle(m)
		return o, t
	}
	for _, st := range p.Pre {
		var o string
		switch st {
		case "dial":
			o, _ = attempt(m.CreateConnection)
			pending = nil // nothing was started
		case "disc":
			o, _ = hsCall(m.Disconnect)
			pending = nil
		case "fail1", "fail2", "fail3":
			sec := *secrets
			sec.Fault = int(st[4] - '0')
			srv.rearm(&sec, nil)
			srv.up()
			o, _ = attempt(m.CreateConnection)
		default:
			o = "bad-step"
		}
		run.Pre = append(run.Pre, st+":"+o)
	}
	if len(p.Pre) > 0 {
		run.Srv = srv.rearm(secrets, replies)
		srv.up()
	}

	// crypto/rand.Int(Reader, 2^2048) reads exactly 256 bytes and takes them as the big-endian value
	stream := append(append(append([]byte{}, d.Nonce...), d.NewNonce...), d.B...)
	rdr := &hsReader{buf: stream}

	hsRandMu.Lock()
	rdr.fallback = crand.Reader
	old := crand.Reader
	crand.Reader = rdr
	mrand.Seed(d.PadSeed)
	run.Outcome, run.ErrText = attempt(m.CreateConnection)
	drain()
	crand.Reader = old
	hsRandMu.Unlock()
	rdr.mu.Lock()
	run.RandUsed, run.Overrun = rdr.off, rdr.Overrun
	rdr.mu.Unlock()

	srv.mu.Lock()
	run.EncEarly = len(run.Srv.Enc)
	run.PlainEarly = len(run.Srv.Plain)
	srv.mu.Unlock()

	if run.Outcome == "ok" {
		for _, st := range p.Post {
			var o string
			switch st {
			case "reconnect":
				o, _ = hsCall(m.Reconnect)
				pending = hsStopHandle(m)
			case "disc":
				o, _ = hsCall(m.Disconnect)
				pending = nil
			case "create":
				o, _ = attempt(m.CreateConnection)
			default:
				o = "bad-step"
			}
			run.Post = append(run.Post, st+":"+o)
		}
	}

	run.AuthKey = append([]byte{}, m.GetAuthKey()...)
	run.Salt = m.GetServerSalt()
	run.Enc = m.VerifEncrypted()
	run.Svc = m.VerifServiceMode()

	if p.Probe && run.Outcome == "ok" {
		first := p.First
		if len(first) == 0 {
			first = []string{"ping"}
		}
		for _, spec := range first {
			hsSend(m, spec)
			select {
			case <-run.Srv.encSeenChan(srv):
			case <-time.After(3 * time.Second):
			}
		}
	}
	if p.After != "" && strings.HasPrefix(run.Outcome, "err:") {
		// the application goes on using the object whose key exchange was abandoned. The server's script is over:
		// it answers nothing any more (except to a retry's exchange), it only logs what arrives.
		request := func() {
			np, ne := srv.seen()
			srv.setMute(true)
			hsPing(m)
			for t0 := time.Now(); time.Since(t0) < time.Second; time.Sleep(2 * time.Millisecond) {
				if p2, e2 := srv.seen(); p2+e2 > np+ne {
					break
				}
			}
			srv.setMute(false)
		}
		switch p.After {
		case "req":
			request()
			run.After = append(run.After, "req")
		case "retry":
			o, _ := attempt(m.CreateConnection)
			run.After = append(run.After, "retry:"+o)
			request()
			run.After = append(run.After, "req")
		}
		time.Sleep(5 * time.Millisecond)
		run.EncLate = m.VerifEncrypted()
	}
	aftermath := hsAftermath && (strings.HasPrefix(run.Outcome, "err:") || run.Outcome == "hang")
	if aftermath {
		srv.mu.Lock()
		cs := append([]net.Conn{}, srv.conns...)
		srv.mu.Unlock()
		for _, c := range cs {
			var a hsW
			a.u32(0x9ec20908) // new_session_created first_msg_id unique_id server_salt
			a.u64(4)
			a.u64(0x1111111111111111)
			a.u64(0x2222222222222222)
			srv.sendPlain(c, a.b)
			var b hsW
			b.u32(0xedab447b) // bad_server_salt bad_msg_id bad_msg_seqno error_code new_server_salt
			b.u64(4)
			b.u32(1)
			b.u32(48)
			b.u64(0x3333333333333333)
			srv.sendPlain(c, b.b)
		}
		time.Sleep(30 * time.Millisecond)
		if hsAftermathLate {
			time.Sleep(1570 * time.Millisecond)
		}
	}
	// Teardown without MTProto.Disconnect: Disconnect cancels the context, which closes the socket
	// under the feet of the client's read loop, and that loop panics (kills the process) when the
	// read error wins the race against the cancellation. Instead the server goes away: the listener
	// is closed first (so that the reconnect the client's loop attempts on EOF fails and the loop
	// ends), then each connection is half-closed (the client reads EOF; nothing it sent is discarded,
	// so no reset), and the server keeps reading until the client has closed its side.
	// (Routines left behind by the history are stopped first, through their own handle: their connection closes,
	// their reader ends with the cancellation.)
	srv.up()
	srv.ln.Close()
	for _, stop := range orphans {
		stop()
	}
	srv.mu.Lock()
	end := srv.connEnd
	cs := append([]net.Conn{}, srv.conns...)
	srv.mu.Unlock()
	for _, c := range cs {
		if tc, ok := c.(*net.TCPConn); ok {
			_ = tc.CloseWrite()
		}
	}
	for range cs {
		select {
		case <-end:
		case <-time.After(map[bool]time.Duration{false: 2 * time.Second, true: 200 * time.Millisecond}[aftermath]):
			// (after the aftermath messages the client's reader sits in the hand-over to a key exchange that
			// is no longer there, and does not see the EOF: not waited for, not noted)
			if !aftermath {
				srv.mu.Lock()
				run.Srv.Notes = append(run.Srv.Notes, "client did not close its connection within 2s of the server's EOF")
				srv.mu.Unlock()
			}
		}
	}
	srv.closeConns()
	store.mu.Lock()
	run.Stores = append([]session.Session{}, store.Stores...)
	store.mu.Unlock()
	// snapshot of the server's log
	srv.mu.Lock()
	snap := *run.Srv
	snap.Plain = append([][]byte{}, run.Srv.Plain...)
	snap.Enc = append([][]byte{}, run.Srv.Enc...)
	snap.Notes = append([]string{}, run.Srv.Notes...)
	srv.mu.Unlock()
	run.Srv = &snap
	return run
}

func (r *hsSrvResult) encSeenChan(s *hsServer) chan struct{} {
	s.mu.Lock()
	defer s.mu.Unlock()
	return s.encSeen
}

// hsShowStores: canonical text of the recorded Store calls.
func hsShowStores(st []session.Session, addr string) string {
	if len(st) == 0 {
		return "-"
	}
	var xs []string
	for _, s := range st {
		host := "other"
		if s.Hostname == addr {
			host = "srv"
		}
		xs = append(xs, fmt.Sprintf("%s/%s/%d/%s", showBytes(s.Key), hexD(s.Hash), s.Salt, host))
	}
	return strings.Join(xs, ",")
}

// hsResultLine: the canonical result of one exchange as both sides of the correspondence print it.
func hsResultLine(run *hsRun) string {
	var fr []string
	for i, f := range run.Srv.Plain {
		if len(run.After) > 0 && i >= run.PlainEarly {
			break // what the application sent after the exchange was abandoned is the oracle's, not the exchange's
		}
		fr = append(fr, showBytes(f))
	}
	return fmt.Sprintf("res=%s frames=%s encframes=%d key=%s salt=%d enc=%v svc=%v stored=%s",
		run.Outcome, showList(fr), run.EncEarly, showBytes(run.AuthKey), run.Salt, run.Enc, run.Svc,
		hsShowStores(run.Stores, run.Addr))
}

// ---- generation helpers -----------------------------------------------------------------------------

// hsPrime32: a prime of exactly `bits` bits (3..32) from the run's PRNG.
func hsPrime32(r *Rand, bits int) uint64 {
	for {
		v := (r.U64() >> (64 - uint(bits))) | 1 | (1 << uint(bits-1))
		if new(big.Int).SetUint64(v).ProbablyPrime(20) {
			return v
		}
	}
}

func hsTelegramPrime() *big.Int {
	p, _ := new(big.Int).SetString(hsTelegramPrimeHex, 16)
	return p
}

// hsLeadingZeros: number of leading zero bytes of a fixed-width value.
func hsLeadingZeros(b []byte) int {
	n := 0
	for n < len(b) && b[n] == 0 {
		n++
	}
	return n
}

// hsForce: bytes of length n from r with exactly z leading zero bytes (z < n).
func hsForce(r *Rand, n, z int) []byte {
	b := r.Bytes(n)
	for i := 0; i < z; i++ {
		b[i] = 0
	}
	if b[z] == 0 {
		b[z] = byte(1 + r.Intn(255))
	}
	return b
}

// hsKeyGen: an RSA-2048 key (e = 65537) derived from the run's PRNG only, so that a run is
// reproducible from its seed: two 1024-bit primes with the two top bits set (n has exactly 2048 bits).
func hsKeyGen(r *Rand) *rsa.PrivateKey {
	e := big.NewInt(65537)
	one := big.NewInt(1)
	prime := func() *big.Int {
		for {
			b := r.Bytes(128)
			b[0] |= 0xc0
			b[127] |= 1
			p := new(big.Int).SetBytes(b)
			if !p.ProbablyPrime(20) {
				continue
			}
			if new(big.Int).GCD(nil, nil, new(big.Int).Sub(p, one), e).Cmp(one) != 0 {
				continue
			}
			return p
		}
	}
	for {
		p, q := prime(), prime()
		if p.Cmp(q) == 0 {
			continue
		}
		n := new(big.Int).Mul(p, q)
		phi := new(big.Int).Mul(new(big.Int).Sub(p, one), new(big.Int).Sub(q, one))
		d := new(big.Int).ModInverse(e, phi)
		if d == nil {
			continue
		}
		return &rsa.PrivateKey{PublicKey: rsa.PublicKey{N: n, E: 65537}, D: d, Primes: []*big.Int{p, q}}
	}
}

// hsKeyPool: n RSA-2048 keys from the run's PRNG (about a third of a second each). Both key-exchange checks
// draw the server key of every exchange from such a pool, so that consecutive exchanges of one process use
// DIFFERENT keys: whatever the client keeps between exchanges about "the" server key is then wrong.
func hsKeyPool(r *Rand, n int) []*rsa.PrivateKey {
	var ks []*rsa.PrivateKey
	for i := 0; i < n; i++ {
		ks = append(ks, hsKeyGen(r))
	}
	return ks
}

// hsKeyGenE: an RSA-2048 key with the public exponent e (odd, 3 <= e < 2^32), from the run's PRNG. crypto/rsa's
// GenerateKey only makes e = 65537; nothing in MTProto fixes the exponent - rsa_public_key n:string e:string carries
// it, the fingerprint hashes it, the client raises to it. The key is built from its definition: two 1024-bit primes p, q
// (two top bits set: n has exactly 2048 bits) with gcd(e, p-1) = gcd(e, q-1) = 1, d = e^-1 mod (p-1)(q-1), and it is
// CHECKED here: (m^e)^d = m mod n for a drawn m.
func hsKeyGenE(r *Rand, e int) *rsa.PrivateKey {
	eb := big.NewInt(int64(e))
	one := big.NewInt(1)
	prime := func() *big.Int {
		for {
			b := r.Bytes(128)
			b[0] |= 0xc0
			b[127] |= 1
			p := new(big.Int).SetBytes(b)
			if new(big.Int).GCD(nil, nil, new(big.Int).Sub(p, one), eb).Cmp(one) != 0 {
				continue
			}
			if p.ProbablyPrime(20) {
				return p
			}
		}
	}
	for {
		p, q := prime(), prime()
		if p.Cmp(q) == 0 {
			continue
		}
		n := new(big.Int).Mul(p, q)
		phi := new(big.Int).Mul(new(big.Int).Sub(p, one), new(big.Int).Sub(q, one))
		d := new(big.Int).ModInverse(eb, phi)
		if d == nil || n.BitLen() != 2048 {
			continue
		}
		m := new(big.Int).SetBytes(r.Bytes(255))
		if new(big.Int).Exp(new(big.Int).Exp(m, eb, n), d, n).Cmp(m) != 0 {
			panic("hsKeyGenE: not an RSA key pair")
		}
		return &rsa.PrivateKey{PublicKey: rsa.PublicKey{N: n, E: e}, D: d, Primes: []*big.Int{p, q}}
	}
}

// hsExponents: public exponents other than 65537 for the run's further server keys - one per length of the
// exponent's big-endian byte string (1, 2, 3, 4 bytes), the 4-byte one with the top bit of the 32-bit word set or not:
// a small Fermat prime (3, 5, 17: the classical choices) / 257 or a drawn 2-byte odd number / an odd number just above
// 65537 or a drawn 3-byte odd number (never 65537) / a drawn 4-byte odd number. all: every one of them (thorough tier).
func hsExponents(r *Rand, all bool) []int {
	odd := func(lo, hi int) int { return (lo + r.Intn(hi-lo)) | 1 }
	one := []int{3, 5, 17}
	two := []int{257, odd(256, 1<<16)}
	three := []int{65537 + 2*(1+r.Intn(64)), odd(1<<16, 1<<24)}
	for three[1] == 65537 {
		three[1] = odd(1<<16, 1<<24)
	}
	four := []int{odd(1<<24, 1<<31), odd(1<<31, 1<<32)}
	if all {
		return append(append(append(append([]int{}, one...), two...), three...), four...)
	}
	return []int{one[r.Intn(len(one))], two[r.Intn(len(two))], three[r.Intn(len(three))], four[r.Intn(len(four))]}
}

// hsKeyPoolExp: the pool of hsKeyPool followed by one key per exponent of hsExponents. "Any conformant server" and
// "the client's key" both range over RSA keys with ANY public exponent.
func hsKeyPoolExp(r *Rand, n int, all bool) []*rsa.PrivateKey {
	ks := hsKeyPool(r, n)
	for _, e := range hsExponents(r, all) {
		ks = append(ks, hsKeyGenE(r, e))
	}
	return ks
}

// hsKeyObj: how the caller holds the public key it configures its clients with, over several exchanges.
//
//	fresh   a new rsa.PublicKey object for every exchange
//	slot    ONE object, assigned the next key before each exchange (*slot = rsa.PublicKey{N, E})
//	setn    ONE object whose modulus big.Int is overwritten in place (slot.N.Set(n); slot.E = e)
type hsKeyObj struct {
	Mode string
	slot *rsa.PublicKey
}

var hsKeyObjModes = []string{"fresh", "slot", "setn"}

func (k *hsKeyObj) next(pub *rsa.PublicKey) *rsa.PublicKey {
	switch k.Mode {
	case "slot":
		if k.slot == nil {
			k.slot = &rsa.PublicKey{}
		}
		*k.slot = rsa.PublicKey{N: new(big.Int).Set(pub.N), E: pub.E}
		return k.slot
	case "setn":
		if k.slot == nil {
			k.slot = &rsa.PublicKey{N: new(big.Int)}
		}
		k.slot.N.Set(pub.N)
		k.slot.E = pub.E
		return k.slot
	}
	return &rsa.PublicKey{N: new(big.Int).Set(pub.N), E: pub.E}
}

// hsRefRSACipher: the number a client following the description sends as encrypted_data for these
// values: data_with_hash = SHA1(p_q_inner_data) + p_q_inner_data + padding to 255 bytes (this client
// pads with zeros), raised to e modulo n.
func hsRefRSACipher(pub *rsa.PublicKey, pq []byte, p, q uint64, nonce, serverNonce, newNonce []byte) *big.Int {
	var w hsW
	w.u32(hsIDPQInner)
	w.str(pq)
	w.str(new(big.Int).SetUint64(p).Bytes())
	w.str(new(big.Int).SetUint64(q).Bytes())
	w.raw(nonce)
	w.raw(serverNonce)
	w.raw(newNonce)
	block := make([]byte, 255)
	copy(block, append(hsSha1(w.b), w.b...))
	return new(big.Int).Exp(new(big.Int).SetBytes(block), big.NewInt(int64(pub.E)), pub.N)
}

// hsCase: one exchange's client draws and server secrets.
type hsCase struct {
	D     hsDraws
	S     hsSecrets
	Pad16 []byte
}

// hsRandomCase: a conformant server's secrets and a client's draws from the run's PRNG.
func hsRandomCase(r *Rand, key *rsa.PrivateKey) *hsCase {
	c := &hsCase{}
	c.D.Nonce = r.Bytes(16)
	c.D.NewNonce = r.Bytes(32)
	c.D.B = r.Bytes(256)
	c.D.PadSeed = int64(r.U64() >> 1)
	c.S.Key = key
	c.S.ServerNonce = r.Bytes(16)
	// the client's Pollard-rho (big.Int, bit-serial multiplication) costs ~0.3 s on a 63-bit product:
	// full-size primes in one exchange out of eight, 12..28 bits otherwise
	bits := func() int {
		if r.Intn(8) == 0 {
			return 32
		}
		return 12 + r.Intn(17)
	}
	p, q := hsPrime32(r, bits()), hsPrime32(r, bits())
	for p == q {
		q = hsPrime32(r, bits())
	}
	if p > q {
		p, q = q, p
	}
	c.S.P, c.S.Q = p, q
	c.S.G = int32(2 + r.Intn(6))
	c.S.A = new(big.Int).SetBytes(r.Bytes(256))
	c.S.DhPrime = hsTelegramPrime()
	c.S.ServerTime = int32(1600000000 + r.Intn(100000000))
	c.S.Pad = r.Bytes(16)
	c.S.Minimal = r.Intn(3) == 0
	if r.Intn(3) == 0 {
		for i := r.Intn(3) + 1; i > 0; i-- {
			c.S.ExtraFps = append(c.S.ExtraFps, r.U64())
		}
	}
	return c
}
