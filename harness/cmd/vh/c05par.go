package main

// C05 — batches of operations: the same operations as c05.go, run CONCURRENTLY from several goroutines
// (c05.par) or one after another in one stretch without a forced collection in between (c05.seq), and
// the refused inputs of VALID length for the key-exchange wrapper (c05.tdecbad).
//
// The property is about every call on its own — "for every key, IV and input", whatever other calls the
// process makes at the same time or made just before. A client encrypts in its sending path and decrypts in
// its reading goroutine at the same moment, and several clients (one per data centre) live in one process;
// a client whose key exchange met a damaged or forged answer retries at once. Code that shares mutable state
// between calls without synchronisation (one package-level digest, one scratch buffer) is right for any
// number of calls made one after another; code that hands a pooled object back in a dirty state on ONE of
// its exits is right as long as that exit is never taken, or a collection empties the pool in between.
//
//   c05.par <rounds> <iters> | <member> | <member> | …
//       every member is an ordinary operation line of c05.go. Each member is first run alone; then, <rounds>
//       times, one goroutine per member is started, all wait at a spin barrier and then run their member
//       <iters> times in a row. Result: per member the canonical result line of the ordinary operation —
//       the first concurrent result that differs from the member's result alone if there is one, else the
//       result alone — joined by " | ", then "conc=same" or "conc=member<k>-differs" (so that a member the
//       oracle has no opinion on is reported too). A panic inside a goroutine is caught per member and is
//       that member's result ("panic:<first repository frame>").
//   c05.seq | <member> | <member> | …
//       the members are run once each, in order, on one goroutine, with nothing in between (no forced
//       collection, no decoy pass): what one call leaves behind for the next — in a sync.Pool, too — is
//       met by the next.
//   c05.tdecbad <new_nonce> <server_nonce> <pad> <answer> <how>
//       a conformant peer's message as in c05.tdec, then damaged: how = flip:<bit> (one bit of the
//       ciphertext flipped), rand:<seed> (random ciphertext of the same length), keys:<n2>:<s2> (the message
//       was made under other nonces). The length stays valid (a positive multiple of 16), so the refusal
//       happens where the SHA-1 prefix matches no cut point, not at the length check.
//
// Members run on fresh private memory (the long-lived arena of c05.go is one caller's memory and cannot be
// shared between goroutines); their arguments are compared with pristine copies after every call.
//
// The Lean driver answers a batch by evaluating the members with the model, one by one — the members are
// ordinary operations — and appends "conc=same".

import (
	"bytes"
	"fmt"
	"math/big"
	"runtime"
	"strconv"
	"strings"
	"sync"
	"sync/atomic"

	ige "github.com/xelaj/mtproto/internal/aes_ige"
)

const c05ArgChanged = "caller-argument-changed"

func c05Dup(b []byte) []byte { return append(make([]byte, 0, len(b)), b...) }

// c05Guarded runs f; a panic becomes "panic:<first repository frame>" (the same line the framework and
// c05Catch produce for the ordinary operation).
func c05Guarded(f func() string) (out string) {
	defer func() {
		if r := recover(); r != nil {
			out = c05Site + panicSite()
		}
	}()
	return f()
}

// c05Damaged: the ciphertext of c05.tdecbad (nil when the operation is ill-formed).
func c05Damaged(how string, nb, sb, pad, answer []byte) []byte {
	parts := strings.Split(how, ":")
	switch {
	case len(parts) == 2 && parts[0] == "flip":
		bit, err := strconv.Atoi(parts[1])
		if err != nil || bit < 0 {
			return nil
		}
		ct := c05Conformant(nb, sb, answer, pad)
		bit %= 8 * len(ct)
		ct[bit/8] ^= 1 << uint(bit%8)
		return ct
	case len(parts) == 2 && parts[0] == "rand":
		if _, err := strconv.ParseUint(parts[1], 10, 64); err != nil {
			return nil
		}
		return c05Bytes(fmt.Sprintf("r%d:%s", 20+len(answer)+len(pad), parts[1]))
	case len(parts) == 3 && parts[0] == "keys":
		n2, s2 := c05Bytes(parts[1]), c05Bytes(parts[2])
		if len(n2) != 32 || len(s2) != 16 {
			return nil
		}
		return c05Conformant(n2, s2, answer, pad)
	}
	return nil
}

var c05Arity = map[string]int{"c05.enc": 4, "c05.dec": 4, "c05.msgenc": 3, "c05.msgdec": 4, "c05.tkeys": 3, "c05.tenc": 6,
	"c05.tnopad": 4, "c05.tdec": 5, "c05.tdecraw": 4, "c05.tdecbad": 6, "c05.mkey": 2, "c05.kdf": 4}

// c05Prep parses one ordinary operation (once) and returns a function that runs it against the real code on
// fresh private memory and returns the canonical result line of c05Exec1. The function may be called from
// any goroutine, any number of times.
func c05Prep(op []string) func() string {
	bad := func() string { return "bad-op" }
	if len(op) == 0 || c05Arity[op[0]] != len(op) {
		return bad
	}
	B := func(i int) []byte { return c05Bytes(op[i]) }
	big2 := func(nb, sb []byte) (*big.Int, *big.Int) {
		return new(big.Int).SetBytes(c05Dup(nb)), new(big.Int).SetBytes(c05Dup(sb))
	}
	var f func() string
	switch op[0] {
	case "c05.enc", "c05.dec":
		key, iv, data := B(1), B(2), B(3)
		enc := op[0] == "c05.enc"
		f = func() string {
			k, v, d := c05Dup(key), c05Dup(iv), c05Dup(data)
			out := c05Fill(len(d))
			var err error
			if enc {
				err = ige.VerifIGEEncrypt(d, out, k, v)
			} else {
				err = ige.VerifIGEDecrypt(d, out, k, v)
			}
			if !bytes.Equal(k, key) || !bytes.Equal(v, iv) {
				return c05ArgChanged
			}
			return fmt.Sprintf("err=%s out=%s in=%s", c05Err(err), showBytes(out), showBytes(d))
		}
	case "c05.msgenc":
		ak, msg := B(1), B(2)
		f = func() string {
			a, m := c05Dup(ak), c05Dup(msg)
			res, err := ige.Encrypt(m, a)
			if !bytes.Equal(a, ak) || !bytes.Equal(m, msg) {
				return c05ArgChanged
			}
			return c05Outcome(res, err, "")
		}
	case "c05.msgdec":
		ak, mk, ct := B(1), B(2), B(3)
		f = func() string {
			a, k, c := c05Dup(ak), c05Dup(mk), c05Dup(ct)
			res, err := ige.Decrypt(c, a, k)
			if !bytes.Equal(a, ak) || !bytes.Equal(k, mk) || !bytes.Equal(c, ct) {
				return c05ArgChanged
			}
			return c05Outcome(res, err, "")
		}
	case "c05.mkey":
		msg := B(1)
		f = func() string {
			m := c05Dup(msg)
			res := ige.MessageKey(m)
			if !bytes.Equal(m, msg) {
				return c05ArgChanged
			}
			return c05Outcome(res, nil, "")
		}
	case "c05.kdf":
		mk, ak := B(1), B(2)
		if op[3] != "0" && op[3] != "1" {
			return bad
		}
		decode := op[3] == "1"
		f = func() string {
			k, a := c05Dup(mk), c05Dup(ak)
			key, iv := ige.VerifGenerateAESIGE(k, a, decode)
			if !bytes.Equal(k, mk) || !bytes.Equal(a, ak) {
				return c05ArgChanged
			}
			return fmt.Sprintf("key=%s iv=%s", showBytes(key), showBytes(iv))
		}
	case "c05.tkeys":
		nb, sb := B(1), B(2)
		f = func() string {
			n, s := big2(nb, sb)
			key, iv := ige.VerifGenerateTempKeys(n, s)
			return fmt.Sprintf("key=%s iv=%s", showBytes(key), showBytes(iv))
		}
	case "c05.tenc":
		nb, sb, msg := B(1), B(2), B(5)
		if (20+len(msg))%16 != 0 {
			// the padding bytes come from the process-wide math/rand, which a batch cannot seed per member:
			// inside a batch only payloads that need no padding
			return bad
		}
		f = func() string {
			n, s := big2(nb, sb)
			m := c05Dup(msg)
			ct := ige.EncryptMessageWithTempKeys(m, n, s)
			if !bytes.Equal(m, msg) {
				return c05ArgChanged
			}
			ctFull := hexD(ct)
			c := c05Dup(ct)
			rt, pan := c05Catch(func() []byte { return ige.DecryptMessageWithTempKeys(c, n, s) })
			if !bytes.Equal(c, ct) {
				return c05ArgChanged
			}
			return fmt.Sprintf("ct=%s rt=%s", ctFull, c05Outcome(rt, nil, pan))
		}
	case "c05.tnopad":
		nb, sb, data := B(1), B(2), B(3)
		f = func() string {
			n, s := big2(nb, sb)
			d := c05Dup(data)
			ct := ige.VerifEncryptWithTempKeysNoPad(d, n, s)
			if !bytes.Equal(d, data) {
				return c05ArgChanged
			}
			return c05Outcome(ct, nil, "")
		}
	case "c05.tdec", "c05.tdecbad":
		nb, sb, pad, answer := B(1), B(2), B(3), B(4)
		if len(nb) != 32 || len(sb) != 16 || (20+len(answer)+len(pad))%16 != 0 {
			return bad
		}
		var ct []byte
		if op[0] == "c05.tdec" {
			ct = c05Conformant(nb, sb, answer, pad)
		} else if ct = c05Damaged(op[5], nb, sb, pad, answer); ct == nil {
			return bad
		}
		f = func() string {
			n, s := big2(nb, sb)
			c := c05Dup(ct)
			res, pan := c05Catch(func() []byte { return ige.DecryptMessageWithTempKeys(c, n, s) })
			if !bytes.Equal(c, ct) {
				return c05ArgChanged
			}
			return fmt.Sprintf("ct=%s out=%s", showBytes(ct), c05Outcome(res, nil, pan))
		}
	case "c05.tdecraw":
		nb, sb, ct := B(1), B(2), B(3)
		f = func() string {
			n, s := big2(nb, sb)
			c := c05Dup(ct)
			res, pan := c05Catch(func() []byte { return ige.DecryptMessageWithTempKeys(c, n, s) })
			if !bytes.Equal(c, ct) {
				return c05ArgChanged
			}
			return c05Outcome(res, nil, pan)
		}
	default:
		return bad
	}
	return func() string { return c05Guarded(f) }
}

// c05Members splits the tokens of a batch line into its header and its members.
func c05Members(op []string) (head []string, members [][]string) {
	i := 0
	for i < len(op) && op[i] != "|" {
		i++
	}
	head = op[:i]
	for i < len(op) {
		j := i + 1
		for j < len(op) && op[j] != "|" {
			j++
		}
		members = append(members, op[i+1:j])
		i = j
	}
	return head, members
}

func c05IsBatch(op []string) bool {
	return len(op) > 0 && (op[0] == "c05.par" || op[0] == "c05.seq" || op[0] == "c05.seqip")
}

func c05Batch(op []string) string {
	head, members := c05Members(op)
	if len(members) == 0 {
		return "bad-op"
	}
	if op[0] == "c05.seqip" {
		if len(head) != 1 {
			return "bad-op"
		}
		return c05SeqInPlace(op, members)
	}
	runs := make([]func() string, len(members))
	for i, m := range members {
		runs[i] = c05Prep(m)
	}
	res := make([]string, len(members))
	switch {
	case op[0] == "c05.seq" && len(head) == 1:
		for i, f := range runs {
			res[i] = f()
		}
		return strings.Join(res, " | ")
	case op[0] == "c05.par" && len(head) == 3:
		rounds, err1 := strconv.Atoi(head[1])
		iters, err2 := strconv.Atoi(head[2])
		if err1 != nil || err2 != nil || rounds < 1 || iters < 1 || rounds*iters > 1<<20 {
			return "bad-op"
		}
		for i, f := range runs { // each member alone
			res[i] = f()
		}
		diff := make([]string, len(members)) // first concurrent result of member i that differs from res[i]
		for r := 0; r < rounds; r++ {
			var wg sync.WaitGroup
			var ready int32
			n := int32(len(runs))
			for i := range runs {
				wg.Add(1)
				go func(i int) {
					defer wg.Done()
					atomic.AddInt32(&ready, 1)
					for atomic.LoadInt32(&ready) < n { // all members leave the barrier together
						runtime.Gosched()
					}
					for k := 0; k < iters; k++ {
						if out := runs[i](); out != res[i] && diff[i] == "" {
							diff[i] = out
						}
					}
				}(i)
			}
			wg.Wait()
		}
		conc := "conc=same"
		for i := len(diff) - 1; i >= 0; i-- {
			if diff[i] != "" {
				res[i] = diff[i]
				conc = fmt.Sprintf("conc=member%d-differs", i+1)
			}
		}
		return strings.Join(res, " | ") + " | " + conc
	}
	return "bad-op"
}

// c05JudgeBatch: every member's result is judged by the independent oracle of its ordinary operation.
func c05JudgeBatch(op []string, out string) string {
	head, members := c05Members(op)
	if out == "bad-op" {
		return ""
	}
	how := "run one after another on one goroutine, nothing in between"
	want := len(members)
	if op[0] == "c05.seqip" {
		how = "run one after another on one goroutine, nothing in between, every argument in the SAME long-lived caller memory refilled in place from call to call (one array for the byte strings, two big.Ints for the nonces)"
	}
	if op[0] == "c05.par" {
		how = fmt.Sprintf("run at the same time, one goroutine each (%s rounds of %s calls, all started together)", head[1], head[2])
		want++
	}
	outs := strings.Split(out, " | ")
	if len(outs) != want {
		return "the batch did not complete: " + clip(out)
	}
	for i, m := range members {
		why := ""
		if outs[i] == c05ArgChanged {
			why = "an argument buffer of the call was modified"
		} else if len(m) > 0 && c05Arity[m[0]] == len(m) && outs[i] != "bad-op" {
			why = c05Judge1(m, outs[i])
		}
		if why != "" {
			return fmt.Sprintf("member %d of %d operations %s: %s: %s", i+1, len(members), how, c05Short(strings.Join(m, " ")), why)
		}
	}
	if op[0] == "c05.par" && outs[len(outs)-1] != "conc=same" {
		return fmt.Sprintf("%s: an operation gave another result when run at the same time as the others than it gave alone (%s)", outs[len(outs)-1], how)
	}
	return ""
}

// c05RefCut: what a reader following the MTProto definition recovers from an encrypted_answer (ok=false:
// the SHA-1 prefix matches none of the 16 cut points — not an answer).
func c05RefCut(nb, sb, ct []byte) (payload []byte, ok bool) {
	if len(ct) < 32 || len(ct)%16 != 0 {
		return nil, false
	}
	key, iv := refTempKeys(nb, sb)
	plain := refIGE(key, iv, ct, true)
	h, m := plain[:20], plain[20:]
	for i := len(m); i > len(m)-16 && i >= 0; i-- {
		if bytes.Equal(h, sha1of(m[:i])) {
			return m[:i], true
		}
	}
	return nil, false
}

func c05JudgeBad(op []string, out string) string {
	if out == "bad-op" {
		return ""
	}
	nb, sb, pad, answer := c05Bytes(op[1]), c05Bytes(op[2]), c05Bytes(op[3]), c05Bytes(op[4])
	ct := c05Damaged(op[5], nb, sb, pad, answer)
	if ct == nil {
		return ""
	}
	res := field(out, "out")
	if payload, ok := c05RefCut(nb, sb, ct); ok { // the damage left a readable message (1 : 2^8 at most, for a one-byte tail)
		if want := "ok:" + showBytes(payload); res != want {
			return "a message whose SHA-1 prefix matches a cut point is not recovered: " + res
		}
		return ""
	}
	if strings.HasPrefix(res, "ok:") {
		return fmt.Sprintf("a damaged message (%s) whose SHA-1 prefix matches no cut point was accepted as a payload: %s", op[5], res)
	}
	return ""
}

// ---- generation ----------------------------------------------------------------------------------

type c05Mk struct{ r *Rand }

func (m c05Mk) nonces(i int) ([]byte, []byte) {
	zn, zs := 0, 0
	switch i % 5 {
	case 1:
		zn = 1
	case 2:
		zs = 1
	case 3:
		zn, zs = 2, 1
	}
	return c05Nonce(m.r, 32, zn), c05Nonce(m.r, 16, zs)
}
func (m c05Mk) enc(nblk int) string {
	return fmt.Sprintf("c05.enc %s %s %s", c05Tok(m.r.Bytes(32)), c05Tok(m.r.Bytes(32)), c05Tok(m.r.Bytes(16*nblk)))
}
func (m c05Mk) dec(nblk int) string {
	return fmt.Sprintf("c05.dec %s %s %s", c05Tok(m.r.Bytes(32)), c05Tok(m.r.Bytes(32)), c05Tok(m.r.Bytes(16*nblk)))
}
func (m c05Mk) msgenc(ak []byte, l int) string {
	return fmt.Sprintf("c05.msgenc %s %s", c05Tok(ak), c05Tok(m.r.Bytes(l)))
}
func (m c05Mk) msgdec(ak []byte, nblk int) string {
	return fmt.Sprintf("c05.msgdec %s %s %s", c05Tok(ak), c05Tok(m.r.Bytes(16)), c05Tok(m.r.Bytes(16*nblk)))
}
func (m c05Mk) tkeys(i int) string {
	nb, sb := m.nonces(i)
	return fmt.Sprintf("c05.tkeys %s %s", c05Tok(nb), c05Tok(sb))
}
func (m c05Mk) tdecWith(nb, sb []byte, l int) string {
	p := (16 - (20+l)%16) % 16
	return fmt.Sprintf("c05.tdec %s %s %s %s", c05Tok(nb), c05Tok(sb), c05Tok(m.r.Bytes(p)), c05Tok(m.r.Bytes(l)))
}
func (m c05Mk) tdec(l int) string {
	nb, sb := m.nonces(l)
	return m.tdecWith(nb, sb, l)
}

// tencWith: a payload that needs no padding ((20+len) % 16 == 0): len = 12 + 16k
func (m c05Mk) tencWith(nb, sb []byte, k int) string {
	seed := int64(m.r.U64() >> 1)
	return fmt.Sprintf("c05.tenc %s %s %d %s %s", c05Tok(nb), c05Tok(sb), seed, c05Tok(c05Pad16(seed)), c05Tok(m.r.Bytes(12+16*k)))
}
func (m c05Mk) tenc(k int) string {
	nb, sb := m.nonces(k)
	return m.tencWith(nb, sb, k)
}
func (m c05Mk) tnopad(nblk int) string {
	nb, sb := m.nonces(nblk)
	return fmt.Sprintf("c05.tnopad %s %s %s", c05Tok(nb), c05Tok(sb), c05Tok(m.r.Bytes(16*nblk)))
}
func (m c05Mk) tdecrawWith(nb, sb []byte, nblk int) string {
	return fmt.Sprintf("c05.tdecraw %s %s %s", c05Tok(nb), c05Tok(sb), c05Tok(m.r.Bytes(16*nblk)))
}

// tdecbadWith: kind 0 one bit flipped (anywhere / in the last block / in the first), 1 random ciphertext,
// 2 made under other nonces
func (m c05Mk) tdecbadWith(nb, sb []byte, l, kind int) string {
	p := (16 - (20+l)%16) % 16
	total := 20 + l + p
	how := ""
	switch kind % 5 {
	case 0:
		how = fmt.Sprintf("flip:%d", m.r.Intn(8*total))
	case 1:
		how = fmt.Sprintf("flip:%d", 8*(total-16)+m.r.Intn(128))
	case 2:
		how = fmt.Sprintf("flip:%d", m.r.Intn(128))
	case 3:
		how = fmt.Sprintf("rand:%d", m.r.U64())
	case 4:
		n2, s2 := m.nonces(l)
		how = fmt.Sprintf("keys:%s:%s", c05Tok(n2), c05Tok(s2))
	}
	return fmt.Sprintf("c05.tdecbad %s %s %s %s %s", c05Tok(nb), c05Tok(sb), c05Tok(m.r.Bytes(p)), c05Tok(m.r.Bytes(l)), how)
}
func (m c05Mk) tdecbad(l, kind int) string {
	nb, sb := m.nonces(l + kind)
	return m.tdecbadWith(nb, sb, l, kind)
}

// any: one operation of any kind, small
func (m c05Mk) any(i int) string {
	r := m.r
	switch i % 12 {
	case 0:
		return m.msgenc(r.Bytes(256), 1+r.Intn(80))
	case 1:
		return m.msgdec(r.Bytes(256), 1+r.Intn(5))
	case 2:
		return m.enc(1 + r.Intn(6))
	case 3:
		return m.dec(1 + r.Intn(6))
	case 4:
		return m.tkeys(r.Intn(5))
	case 5:
		return m.tdec(r.Intn(120))
	case 6:
		return m.tenc(r.Intn(6))
	case 7:
		return m.tnopad(1 + r.Intn(5))
	case 8:
		return m.tdecbad(r.Intn(120), r.Intn(5))
	case 9:
		nb, sb := m.nonces(i)
		return m.tdecrawWith(nb, sb, 2+r.Intn(4))
	case 10: // refused lengths
		return fmt.Sprintf("c05.enc %s %s %s", c05Tok(r.Bytes(32)), c05Tok(r.Bytes(32)), c05Tok(r.Bytes(r.Pick(0, 1, 15, 17, 24, 33))))
	}
	return m.msgenc(r.Bytes(256), 16*(1+r.Intn(4)))
}

func c05GenBatches(g *G) {
	r := g.R
	m := c05Mk{r}
	// (f) the key-exchange wrapper is handed something of VALID length that is not an answer: every padding
	// amount (answer lengths 0..15 mod 16) x every kind of damage; random ciphertexts of more sizes
	for rep := 0; rep < g.N(1, 6); rep++ {
		for p := 0; p <= 15; p++ {
			for kind := 0; kind < 5; kind++ {
				if !g.Thorough() && (p+kind)%2 == 1 {
					continue
				}
				l := 16*r.Intn(12) + (16+12-p)%16
				g.Emit(m.tdecbad(l, kind), "temp-refused-valid-length", fmt.Sprintf("padding=%d", p))
			}
		}
	}
	for _, nblk := range []int{2, 3, 4, 5, 7, 16, 63, 64, 65, 256} {
		nb, sb := m.nonces(nblk)
		g.Emit(fmt.Sprintf("c05.tdecraw %s %s r%d:%d", c05Tok(nb), c05Tok(sb), 16*nblk, r.U64()), "temp-refused-valid-length", "temp-garbage")
	}
	// (g) sequences without a forced collection in between: refused → intact → refused → intact …, the
	// intact ones of every padding amount, read by a peer's answer (tdec) or the client's own message (tenc)
	for i := 0; i < g.N(16, 96); i++ {
		nb, sb := m.nonces(i)
		same := i%3 != 2 // the same nonces throughout (a forged answer within one exchange) or new ones each time (a retry)
		ns := func() ([]byte, []byte) {
			if same {
				return nb, sb
			}
			return m.nonces(r.Intn(5))
		}
		var ms []string
		if i%4 == 3 { // an intact one first
			a, b := ns()
			ms = append(ms, m.tdecWith(a, b, r.Intn(200)))
		}
		for k := 0; k < 2+i%3; k++ {
			a, b := ns()
			if (i+k)%6 == 5 {
				ms = append(ms, m.tdecrawWith(a, b, 2+r.Intn(6)))
			} else {
				ms = append(ms, m.tdecbadWith(a, b, r.Intn(200), i+k))
			}
			a, b = ns()
			if (i+k)%4 == 1 {
				ms = append(ms, m.tencWith(a, b, r.Intn(8)))
			} else {
				ms = append(ms, m.tdecWith(a, b, 16*r.Intn(10)+(i+3*k)%16))
			}
		}
		g.Emit("c05.seq | "+strings.Join(ms, " | "), "sequence-no-collection", "refused-then-intact")
	}
	for i := 0; i < g.N(6, 40); i++ { // any operations, in any order
		var ms []string
		for k := 0; k < 6+r.Intn(6); k++ {
			ms = append(ms, m.any(r.Intn(12)))
		}
		g.Emit("c05.seq | "+strings.Join(ms, " | "), "sequence-no-collection")
	}
	// (h) the same operations from several goroutines at once
	rounds, iters := g.N(10, 30), g.N(24, 40)
	par := func(ms []string, tags ...string) {
		g.Emit(fmt.Sprintf("c05.par %d %d | %s", rounds, iters, strings.Join(ms, " | ")), append(tags, "concurrent")...)
	}
	for rep := 0; rep < g.N(2, 10); rep++ {
		n := 4 + 2*r.Intn(5) // 4..12 goroutines
		var ms []string
		for k := 0; k < n; k++ { // Encrypt under n auth keys
			ms = append(ms, m.msgenc(r.Bytes(256), 1+r.Intn(100)))
		}
		par(ms, "concurrent-msg")
		ak := r.Bytes(256) // one client: ONE auth key, its sending path and its reading goroutine
		ms = nil
		for k := 0; k < n; k++ {
			if k%2 == 0 {
				ms = append(ms, m.msgenc(ak, 1+r.Intn(200)))
			} else {
				ms = append(ms, m.msgdec(ak, 1+r.Intn(12)))
			}
		}
		par(ms, "concurrent-msg", "one-auth-key")
		ms = nil
		for k := 0; k < n; k++ { // Decrypt under n auth keys
			ms = append(ms, m.msgdec(r.Bytes(256), 1+r.Intn(8)))
		}
		par(ms, "concurrent-msg")
		one := m.any(rep) // the very same call n times
		ms = nil
		for k := 0; k < n; k++ {
			ms = append(ms, one)
		}
		par(ms, "concurrent-same-call")
		ms = nil
		for k := 0; k < n; k++ { // several key exchanges at once (one per data centre), damaged answers among them
			switch k % 6 {
			case 0:
				ms = append(ms, m.tdec(r.Intn(300)))
			case 1:
				ms = append(ms, m.tenc(r.Intn(10)))
			case 2:
				ms = append(ms, m.tkeys(k+rep))
			case 3:
				ms = append(ms, m.tdecbad(r.Intn(300), k+rep))
			case 4:
				ms = append(ms, m.tnopad(1+r.Intn(8)))
			case 5:
				ms = append(ms, m.tdec(16*r.Intn(10)+12)) // no padding
			}
		}
		par(ms, "concurrent-temp")
		ms = nil
		for k := 0; k < n; k++ { // cipher objects created and used at the same time
			nblk := 1 + r.Intn(6)
			if k == n-1 {
				nblk = 64
			}
			if k%2 == 0 {
				ms = append(ms, m.enc(nblk))
			} else {
				ms = append(ms, m.dec(nblk))
			}
		}
		par(ms, "concurrent-cipher")
		ms = nil
		for k := 0; k < 12; k++ { // everything
			ms = append(ms, m.any(k+rep))
		}
		par(ms, "concurrent-mixed")
	}
}

func c05Short(s string) string {
	if len(s) > 160 {
		return s[:160] + fmt.Sprintf("…(%d chars)", len(s))
	}
	return s
}
