package main

// C10 — msg_id, seq_no and acknowledgement rules of the outgoing stream: the same runs as C09 with more
// content-related server traffic (updates, new_session_created, unknown objects, containers of them).

import (
	"fmt"
	"strings"
)

func c10Gen(g *G) {
	r := g.R
	pool := []string{"o", "b", "vl", "e"}
	g.Emit("c10.run o g0;w1;u;x;n42;c(u,p,x,a0)", "acks")
	// an acknowledgement whose write is slow while another caller sends (the msg_id order must still be the
	// write order); messages created earlier and delivered later; a verbatim re-send
	g.Emit("c10.run o,o g0;w1;ywk:3000:1;a0;s400;g1;w2;a1", "yield-slow-ack-write")
	g.Emit("c10.run o,o,o g0;w1;ywk:2500:2;u;a0;s300;g1+2;w3;x;a2;a1", "yield-slow-ack-write")
	g.Emit("c10.run o g0;w1;h;u;c(u,a0);^u;W", "late-delivery")
	g.Emit("c10.run o h;h;n55;^x;g0;w1;^u;a0", "late-delivery")
	g.Emit("c10.run o g0;w1;u;W;=;W;a0", "resend")
	// the numbering goes on across a reconnection inside the session; a server whose clock is ahead rejects a
	// request with "msg_id too low" / "too high" (its caller gets the error) and the numbering rules still hold
	g.Emit("c10.run o,o,o g0;w1;u;a0;j;close;g1;w2;a1;j;close;u;g2;w3;a2", "reconnect")
	g.Emit("c10.run o,o,o,o K600;g0;w1;a0;j;g1;w2;T1;j;g2;w3;a2;j;g3;w4;u;a3", "server-clock-ahead")
	g.Emit("c10.run o,o,o K86400;g0+1;w2;c(T0,a1);j;g2;w3;U2;j;g0;w4;a0", "server-clock-ahead")
	// members with an empty body inside containers (the members after them are still messages); content-related
	// messages of more than 2^20 bytes (a file part): each must be acknowledged
	g.Emit("c10.run o,o g0+1;w2;c(u,0,u,a0);c(0,a1,x)", "empty-member-in-container")
	g.Emit("c10.run o g0;w1;ub;a0;c(p,ub)", "content-message-beyond-2^20")
	// a long-lived server session: its seq_no has passed 2^31 (negative as a signed 32-bit number) and 2^32 - 1
	g.Emit("c10.run o,o Q1073741823;g0;w1;u;a0;c(u,x);j;g1;w2;n5;a1", "server-seqno-beyond-int32")
	g.Emit("c10.run o Q2147483646;g0;w1;u;a0", "server-seqno-beyond-int32")
	// requests encoded while a write is in progress and acknowledgements encoded meanwhile (all goroutines of the
	// client on one processor, and on all): every message on the wire is exactly what its sender encoded — the
	// peer checks requests and acknowledgements byte for byte
	g.Emit("c10.run o,o,o P1;ywq:3000:1;g0;s400;g1;s300;u;x;g2;w3;a0;a1;a2", "encoded-message-waits-for-write-lock")
	g.Emit("c10.run o,o g0;w1;ywk:3000:1;u;s400;g1;s300;n66;w2;c(a1,u);a0", "encoded-message-waits-for-write-lock")
	// callers that send other requests than ping: every request of the MTProto service schema an application can pass
	// to MakeRequest (x_rpcsrv.go "request types": msgs_state_req and msg_resend_req with one and several ids,
	// ping_delay_disconnect, req_pq, req_DH_params, set_client_DH_params, rpc_drop_answer, get_future_salts,
	// destroy_session) — one after the other with acknowledgements in between, all at once, and mixed with pings; the
	// peer checks each byte for byte and judges the seq_no parity by its own table of content-related constructors
	reqTypes := []string{"sr1", "rr1", "pd", "pq", "dh", "sc", "da", "fs", "ds", "sr4", "rr3", "pi"}
	{
		var kinds, seqPlan []string
		for j, t := range reqTypes {
			kinds = append(kinds, []string{"o", "b", "vl", "e"}[j%4]+"@"+t)
			seqPlan = append(seqPlan, fmt.Sprintf("g%d;w%d;%s;a%d;j", j, j+1, []string{"u", "x", "p", "n61"}[j%4], j))
		}
		all := make([]int, len(reqTypes))
		for j := range all {
			all[j] = j
		}
		g.Emit("c10.run "+strings.Join(kinds, ",")+" "+strings.Join(seqPlan, ";"), "request-types")
		g.Emit(fmt.Sprintf("c10.run %s g%s;w%d;u;%s", strings.Join(kinds, ","), rsJoinInts("", all, "+"), len(all),
			strings.Join(rsAnswerPlan(r, rsPerm(r, len(all)), []string{"u", "x"}), ";")), "request-types")
		g.Emit("c10.run o@sr2,o,o@rr2,o,o@ds g0+1;w2;a1;u;a0;j;g2;w3;r2/2000;w4;a2;j;close;g3+4;w6;c(a4,u,a3)", "request-types")
	}
	// the server's msg_ids anywhere in the unsigned 64-bit range (bit 63 set, just below 2^64, near zero): each
	// content-related message is acknowledged under the id it came with
	g.Emit("c10.run o,o I9223372036854775801;g0;w1;u;a0;c(u,x);j;g1;w2;n5;a1", "server-msgid-range")
	g.Emit("c10.run o,o I18446744073709547619;g0;w1;u;c(x,a0);j;I7;g1;w2;u;a1", "server-msgid-range")
	// acknowledgement bookkeeping across nested and successive containers: every small shape, enumerated (c10nest.go)
	c10NestGen(g)
	n := g.N(60, 1500)
	for i := 0; i < n; i++ {
		if r.Intn(3) == 0 {
			// two waves of callers; acknowledgement writes are slow while the second wave sends; some
			// server messages carry msg_ids taken before messages that were delivered first
			k1, k2 := 1+r.Intn(4), 1+r.Intn(4)
			kinds := rsKinds(r, k1+k2, pool)
			if r.Intn(3) == 0 {
				for j := range kinds {
					kinds[j] += "@" + reqTypes[r.Intn(len(reqTypes))]
				}
			}
			w1 := make([]int, k1)
			for j := range w1 {
				w1[j] = j
			}
			w2 := make([]int, k2)
			for j := range w2 {
				w2[j] = k1 + j
			}
			plan := []string{"g" + rsJoinInts("", w1, "+"), fmt.Sprintf("w%d", k1)}
			held := 0
			if r.Bool() {
				plan = append(plan, "h")
				held++
			}
			plan = append(plan, fmt.Sprintf("ywk:%d:%d", 500+r.Intn(2500), 1+r.Intn(3)))
			plan = append(plan, rsAnswerPlan(r, rsPerm(r, k1)[:1+r.Intn(k1)], []string{"u", "x"})...)
			plan = append(plan, fmt.Sprintf("s%d", 100+r.Intn(500)), "g"+rsJoinInts("", w2, "+"), fmt.Sprintf("w%d", k1+k2))
			if held > 0 {
				plan = append(plan, "^"+[]string{"u", "x", "n77"}[r.Intn(3)])
			}
			// everybody not yet answered
			answered := map[string]bool{}
			for _, st := range plan {
				for _, it := range strings.Split(strings.TrimSuffix(strings.TrimPrefix(st, "c("), ")"), ",") {
					if strings.HasPrefix(it, "a") {
						answered[strings.TrimSuffix(it[1:], "z")] = true
					}
				}
			}
			var rest []int
			for _, c := range rsPerm(r, k1+k2) {
				if !answered[fmt.Sprint(c)] {
					rest = append(rest, c)
				}
			}
			plan = append(plan, rsAnswerPlan(r, rest, []string{"u", "p"})...)
			if r.Intn(3) == 0 {
				plan = append(plan, "u", "W", "=")
			}
			if r.Intn(3) == 0 {
				// a reconnection, then one more round by the first wave
				plan = append(plan, "j", "close", "g"+rsJoinInts("", w1, "+"), fmt.Sprintf("w%d", k1+k2+k1))
				plan = append(plan, rsAnswerPlan(r, rsPerm(r, k1), []string{"u"})...)
			}
			if r.Intn(4) == 0 {
				plan = append([]string{fmt.Sprintf("K%d", 60+r.Intn(100000))}, plan...)
			}
			if r.Intn(4) == 0 {
				plan = append([]string{fmt.Sprintf("Q%d", []int{1073741820, 1073741823, 1073741824, 2147483640}[r.Intn(4)])}, plan...)
			}
			g.Emit(fmt.Sprintf("c10.run %s %s", strings.Join(kinds, ","), strings.Join(plan, ";")), "yield-two-waves", fmt.Sprintf("callers=%d", k1+k2))
			continue
		}
		k := 1 + r.Intn(g.N(10, 24))
		kinds := rsKinds(r, k, pool)
		all := make([]int, k)
		for j := range all {
			all[j] = j
		}
		if r.Intn(2) == 0 {
			// some callers send another request than ping
			for j := range kinds {
				if r.Intn(2) == 0 {
					kinds[j] += "@" + reqTypes[r.Intn(len(reqTypes))]
				}
			}
		}
		plan := []string{"g" + rsJoinInts("", all, "+"), fmt.Sprintf("w%d", k)}
		if r.Intn(6) == 0 {
			plan = append([]string{fmt.Sprintf("I%d", (r.U64()|1)%(1<<64-4096))}, plan...)
		}
		noise := []string{"u", "x", "p", "k", fmt.Sprintf("n%d", 100+r.Intn(900)), "e", "t"}
		for j := 0; j < r.Intn(4); j++ {
			plan = append(plan, noise[r.Intn(len(noise))])
		}
		plan = append(plan, rsAnswerPlan(r, rsPerm(r, k), noise)...)
		g.Emit(fmt.Sprintf("c10.run %s %s", strings.Join(kinds, ","), strings.Join(plan, ";")), "stream", fmt.Sprintf("callers=%d", k))
	}
}

func init() {
	register(&Prop{Name: "c10", Gen: c10Gen, Exec: rsExec("c10"), Judge: rsJudge("c10"), Teardown: rsTeardown})
}
