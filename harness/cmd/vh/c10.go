package main

// C10 — msg_id, seq_no and acknowledgement rules of the outgoing stream: the same runs as C09 with more
// content-related server traffic (updates, new_session_created, unknown objects, containers of them).

import (
	"fmt"
	"strings"
)

func c10Gen(g *G) {
	r := g.R
	pool := []string{"o", "b", "vl", "e"}
	g.Emit("c10.run o g0;w1;u;x;n42;c(u,p,x,a0)", "acks")
	n := g.N(60, 1500)
	for i := 0; i < n; i++ {
		k := 1 + r.Intn(g.N(10, 24))
		kinds := rsKinds(r, k, pool)
		all := make([]int, k)
		for j := range all {
			all[j] = j
		}
		plan := []string{"g" + rsJoinInts("", all, "+"), fmt.Sprintf("w%d", k)}
		noise := []string{"u", "x", "p", "k", fmt.Sprintf("n%d", 100+r.Intn(900)), "e", "t"}
		for j := 0; j < r.Intn(4); j++ {
			plan = append(plan, noise[r.Intn(len(noise))])
		}
		plan = append(plan, rsAnswerPlan(r, rsPerm(r, k), noise)...)
		g.Emit(fmt.Sprintf("c10.run %s %s", strings.Join(kinds, ","), strings.Join(plan, ";")), "stream", fmt.Sprintf("callers=%d", k))
	}
}

func init() {
	register(&Prop{Name: "c10", Gen: c10Gen, Exec: rsExec("c10"), Judge: rsJudge("c10")})
}
