package main

// C01, what the SCHEMA says (schemes/api_latest.tl of the working tree, read by the small reader below;
// nothing here looks at a struct tag or asks the registry which constructors exist):
//
//   * c01SchemaFields: which conditional fields of a constructor form a group and which booleans are bare
//     flag bits (`flags.N?true`). The generator builds its values canonical with respect to THESE groups
//     and the oracle judges every value that is canonical with respect to them - a struct tag that
//     disagrees with the schema line (another bit, a bit shared with another field) then fails the round
//     trip with a concrete value instead of defining the domain of the check.
//   * c01.sdec: for EVERY constructor and function the schema defines, bytes written from its schema line
//     by the writer below (smallest value; every conditional parameter present; random sets of flag bits)
//     are given to tl.DecodeUnknownObject: the result must be a value of that constructor that serialises
//     back to the same bytes. A constructor the registry lost (or lists under another id) is reached this
//     way although no walk over the registry generates it.
//   * c01.reg: the number of distinct ids in the registry equals the number of objects and enum members
//     handed to tl.RegisterObjects / tl.RegisterEnums in the sources of the working tree, and every struct
//     type handed over is the type of some id (an id registered twice, in whatever kinds, loses a type).

import (
	"bufio"
	"bytes"
	"encoding/binary"
	"fmt"
	"go/ast"
	"go/parser"
	"go/token"
	"math"
	"os"
	"path/filepath"
	"sort"
	"strconv"
	"strings"
	"sync"

	"github.com/xelaj/mtproto/internal/encoding/tl"

	"github.com/xelaj/mtproto/verifharness/internal/reg"
)

type c01Par struct {
	name string
	ty   string // type text without the condition
	cond bool
	fld  string // name of the flags parameter of a conditional parameter
	bit  int
}

type c01Def struct {
	name    string
	id      uint32
	pars    []c01Par
	res     string
	fn      bool
	generic bool
}

type c01Schema struct {
	defs    []*c01Def
	byID    map[uint32]*c01Def
	ctors   map[string][]*c01Def // result type -> constructors in file order (types only)
	dheight map[uint32]int       // minimal nesting of a value of the constructor (required parameters only)
	height  map[string]int
}

const c01Inf = 1 << 20

var (
	c01SchemaOnce sync.Once
	c01TheSchema  *c01Schema
	c01SchemaErr  error
)

func c01Repo() string {
	if r := os.Getenv("VERIF_REPO"); r != "" {
		return r
	}
	return "/repo"
}

func c01LoadSchema() (*c01Schema, error) {
	c01SchemaOnce.Do(func() {
		c01TheSchema, c01SchemaErr = c01ReadSchema(filepath.Join(c01Repo(), "schemes", "api_latest.tl"))
	})
	return c01TheSchema, c01SchemaErr
}

func c01ReadSchema(path string) (*c01Schema, error) {
	f, err := os.Open(path)
	if err != nil {
		return nil, err
	}
	defer f.Close()
	s := &c01Schema{byID: map[uint32]*c01Def{}, ctors: map[string][]*c01Def{}, dheight: map[uint32]int{}, height: map[string]int{}}
	sc := bufio.NewScanner(f)
	sc.Buffer(make([]byte, 1<<16), 1<<22)
	fn := false
	for sc.Scan() {
		l := strings.TrimSpace(sc.Text())
		switch {
		case l == "" || strings.HasPrefix(l, "//"):
			continue
		case l == "---functions---":
			fn = true
			continue
		case l == "---types---":
			fn = false
			continue
		}
		toks := strings.Fields(strings.TrimSuffix(l, ";"))
		h := strings.Index(toks[0], "#")
		if len(toks) < 3 || toks[len(toks)-2] != "=" || h < 1 {
			return nil, fmt.Errorf("schema line not understood: %s", l)
		}
		id, err := strconv.ParseUint(toks[0][h+1:], 16, 32)
		if err != nil {
			return nil, fmt.Errorf("schema line not understood: %s", l)
		}
		d := &c01Def{name: toks[0][:h], id: uint32(id), fn: fn, res: toks[len(toks)-1]}
		for _, t := range toks[1 : len(toks)-2] {
			if strings.HasPrefix(t, "{") {
				d.generic = true
				continue
			}
			c := strings.Index(t, ":")
			if c < 1 {
				return nil, fmt.Errorf("schema line not understood: %s", l)
			}
			p := c01Par{name: t[:c], ty: t[c+1:], bit: -1}
			if q := strings.Index(p.ty, "?"); q > 0 {
				dot := strings.Index(p.ty, ".")
				if dot < 1 || dot > q {
					return nil, fmt.Errorf("schema line not understood: %s", l)
				}
				b, err := strconv.Atoi(p.ty[dot+1 : q])
				if err != nil || b < 0 || b > 31 {
					return nil, fmt.Errorf("schema line not understood: %s", l)
				}
				p.cond, p.fld, p.bit, p.ty = true, p.ty[:dot], b, p.ty[q+1:]
			}
			d.pars = append(d.pars, p)
		}
		if s.byID[d.id] != nil {
			return nil, fmt.Errorf("the schema defines id %08x twice", d.id)
		}
		s.byID[d.id] = d
		s.defs = append(s.defs, d)
		if !fn {
			s.ctors[d.res] = append(s.ctors[d.res], d)
		}
	}
	for n := range s.ctors {
		s.height[n] = c01Inf
	}
	for _, d := range s.defs {
		s.dheight[d.id] = c01Inf
	}
	for changed := true; changed; {
		changed = false
		for _, d := range s.defs {
			h := 0
			for _, p := range d.pars {
				if p.cond {
					continue
				}
				if ph := s.tyHeight(p.ty); ph > h {
					h = ph
				}
			}
			if h < c01Inf && h+1 < s.dheight[d.id] {
				s.dheight[d.id] = h + 1
				changed = true
			}
			if !d.fn && s.dheight[d.id] < s.height[d.res] {
				s.height[d.res] = s.dheight[d.id]
				changed = true
			}
		}
	}
	return s, nil
}

func c01VecElem(t string) (string, bool) {
	if strings.HasPrefix(t, "Vector<") && strings.HasSuffix(t, ">") {
		return t[7 : len(t)-1], true
	}
	return "", false
}

func (s *c01Schema) tyHeight(t string) int {
	switch t {
	case "#", "int", "long", "double", "string", "bytes", "Bool", "true":
		return 0
	}
	if _, ok := c01VecElem(t); ok {
		return 0 // can be empty
	}
	if h, ok := s.height[t]; ok {
		return h
	}
	return c01Inf
}

func c01ValuePars(d *c01Def) []c01Par {
	var ps []c01Par
	for _, p := range d.pars {
		if p.ty != "#" {
			ps = append(ps, p)
		}
	}
	return ps
}

// ---- groups by the schema --------------------------------------------------------------------------------------

var (
	c01FieldsMu    sync.Mutex
	c01FieldsCache = map[uint32][]reg.Field{}
)

// c01SchemaFields: the field descriptors of a registered struct constructor with HasFlag / Bit / InBits
// taken from the schema line with the same id (parameters other than flags words correspond, in order, to
// the fields the codec does not ignore). nil when there is no schema (then the tags are all there is),
// when the schema does not define the id, or when the counts differ (C13's business).
func c01SchemaFields(c *reg.Ctor) []reg.Field {
	s, _ := c01LoadSchema()
	if s == nil || c == nil || c.Kind != "struct" {
		return nil
	}
	c01FieldsMu.Lock()
	defer c01FieldsMu.Unlock()
	if fs, ok := c01FieldsCache[c.ID]; ok {
		return fs
	}
	var out []reg.Field
	if d := s.byID[c.ID]; d != nil {
		ps := c01ValuePars(d)
		n := 0
		for _, f := range c.Fields {
			if !f.Ignore {
				n++
			}
		}
		if n == len(ps) {
			words := map[string]int{}
			for _, p := range d.pars {
				if p.ty == "#" {
					words[p.name] = len(words)
				}
			}
			out = append([]reg.Field{}, c.Fields...)
			k := 0
			for i := range out {
				if out[i].Ignore {
					continue
				}
				p := ps[k]
				k++
				out[i].HasFlag, out[i].Bit, out[i].InBits = p.cond, 0, false
				if p.cond {
					out[i].Bit = 32*words[p.fld] + p.bit
					out[i].InBits = p.ty == "true"
				}
			}
		}
	}
	c01FieldsCache[c.ID] = out
	return out
}

// ---- bytes written from a schema line ---------------------------------------------------------------------------

type c01Build struct {
	s *c01Schema
	r *Rand
	// mode at depth 0: 0 = no conditional parameter, 1 = all, 2 = a random set of flag bits; deeper: random when
	// rich, none otherwise
	mode int
	rich bool // scalars random and not zero, vectors with elements, constructors drawn at random near the top
}

func c01LE32(v uint32) []byte { b := make([]byte, 4); binary.LittleEndian.PutUint32(b, v); return b }
func c01LE64(v uint64) []byte { b := make([]byte, 8); binary.LittleEndian.PutUint64(b, v); return b }

func c01TLBytes(b []byte) []byte {
	var out []byte
	if len(b) < 254 {
		out = append([]byte{byte(len(b))}, b...)
	} else {
		out = append([]byte{0xfe, byte(len(b)), byte(len(b) >> 8), byte(len(b) >> 16)}, b...)
	}
	for len(out)%4 != 0 {
		out = append(out, 0)
	}
	return out
}

func (b *c01Build) def(d *c01Def, depth int, w *bytes.Buffer) error {
	if d.generic {
		return fmt.Errorf("%s is generic", d.name)
	}
	w.Write(c01LE32(d.id))
	// presence per flag bit
	on := map[string]bool{}
	for _, p := range d.pars {
		if !p.cond {
			continue
		}
		key := p.fld + "." + strconv.Itoa(p.bit)
		if _, seen := on[key]; seen {
			continue
		}
		switch {
		case depth == 0 && b.mode == 0:
			on[key] = false
		case depth == 0 && b.mode == 1:
			on[key] = true
		case depth == 0 || b.rich && depth < 2:
			on[key] = b.r.Bool()
		default:
			on[key] = false
		}
	}
	for _, p := range d.pars {
		if p.ty == "#" {
			var word uint32
			for _, q := range d.pars {
				if q.cond && q.fld == p.name && on[q.fld+"."+strconv.Itoa(q.bit)] {
					word |= 1 << uint(q.bit)
				}
			}
			w.Write(c01LE32(word))
			continue
		}
		if p.cond && !on[p.fld+"."+strconv.Itoa(p.bit)] {
			continue
		}
		if err := b.ty(p.ty, depth+1, p.cond, w); err != nil {
			return fmt.Errorf("%s.%s: %v", d.name, p.name, err)
		}
	}
	return nil
}

// ty writes a value of schema type t. nz: the value of a present conditional parameter - never the zero value
// of its Go type (a Go value cannot say "present and zero": the library writes it as absent; C02 covers that).
func (b *c01Build) ty(t string, depth int, nz bool, w *bytes.Buffer) error {
	some := b.rich || nz
	switch t {
	case "int":
		v := uint32(0)
		if some {
			v = uint32(b.r.U64())
			if v == 0 {
				v = 7
			}
		}
		w.Write(c01LE32(v))
		return nil
	case "long":
		v := uint64(0)
		if some {
			v = b.r.U64() | 1
		}
		w.Write(c01LE64(v))
		return nil
	case "double":
		v := uint64(0)
		if some {
			v = math.Float64bits(1.5 + float64(b.r.Intn(1000)))
		}
		w.Write(c01LE64(v))
		return nil
	case "string", "bytes":
		var x []byte
		if some {
			x = b.r.Bytes(1 + b.r.Intn(9))
		}
		w.Write(c01TLBytes(x))
		return nil
	case "Bool":
		if nz || b.rich && b.r.Bool() {
			w.Write(c01LE32(0x997275b5))
		} else {
			w.Write(c01LE32(0xbc799737))
		}
		return nil
	case "true":
		return nil
	}
	if e, ok := c01VecElem(t); ok {
		n := 0
		if b.rich && depth < 3 {
			n = b.r.Intn(3)
		}
		w.Write(c01LE32(0x1cb5c415))
		w.Write(c01LE32(uint32(n)))
		for i := 0; i < n; i++ {
			if err := b.ty(e, depth+1, false, w); err != nil {
				return err
			}
		}
		return nil
	}
	cs := b.s.ctors[t]
	var fit []*c01Def
	var smallest *c01Def
	for _, d := range cs {
		if b.s.dheight[d.id] >= c01Inf {
			continue
		}
		fit = append(fit, d)
		if smallest == nil || b.s.dheight[d.id] < b.s.dheight[smallest.id] ||
			b.s.dheight[d.id] == b.s.dheight[smallest.id] && len(d.pars) < len(smallest.pars) {
			smallest = d
		}
	}
	if smallest == nil {
		return fmt.Errorf("the schema has no constructor of %s", t)
	}
	pick := smallest
	if b.rich && depth < 2 {
		pick = fit[b.r.Intn(len(fit))]
		if b.s.dheight[pick.id] > b.s.dheight[smallest.id]+1 {
			pick = smallest
		}
	}
	return b.def(pick, depth, w)
}

// c01SchemaDecodeOps emits the c01.sdec operations.
func c01SchemaDecodeOps(g *G) {
	s, err := c01LoadSchema()
	if err != nil {
		g.Extra["schema"] = "unreadable: " + err.Error()
		return
	}
	built, skipped := 0, 0
	var skipSample []string
	for _, d := range s.defs {
		type variant struct {
			mode int
			rich bool
			tag  string
		}
		vs := []variant{{0, false, "schema-bytes:smallest"}}
		hasCond := false
		for _, p := range d.pars {
			hasCond = hasCond || p.cond
		}
		if hasCond {
			vs = append(vs, variant{1, false, "schema-bytes:all-present"})
		}
		for k := 0; k < g.N(1, 6); k++ {
			vs = append(vs, variant{2, true, "schema-bytes:random"})
		}
		for _, v := range vs {
			var w bytes.Buffer
			b := &c01Build{s: s, r: g.R, mode: v.mode, rich: v.rich}
			if err := b.def(d, 0, &w); err != nil {
				skipped++
				if len(skipSample) < 8 {
					skipSample = append(skipSample, err.Error())
				}
				break
			}
			built++
			g.Emit(fmt.Sprintf("c01.sdec %08x %s", d.id, hexD(w.Bytes())), "schema-bytes", v.tag)
		}
	}
	g.Extra["schema_definitions"] = len(s.defs)
	g.Extra["schema_bytes_operations"] = built
	g.Extra["schema_definitions_not_buildable"] = skipped
	g.Extra["schema_definitions_not_buildable_sample"] = skipSample
}

func c01SchemaDecode(idHex string, bs []byte) string {
	return tlOutcome2("dec=", func() (string, error) {
		o, err := tl.DecodeUnknownObject(bs)
		if err != nil {
			return "", err
		}
		re := "same"
		back, err := tl.Marshal(o)
		switch {
		case err != nil:
			re = "err"
		case !bytes.Equal(back, bs):
			re = "diff"
		}
		return dumpAny(o) + " re=" + re, nil
	})
}

func tlOutcome2(prefix string, f func() (string, error)) string { return prefix + tlOutcome(f) }

func c01JudgeSchemaDecode(op []string, out string) string {
	s, err := c01LoadSchema()
	if err != nil {
		return "the schema of the working tree cannot be read: " + err.Error()
	}
	var id uint32
	if _, err := fmt.Sscanf(op[1], "%x", &id); err != nil {
		return ""
	}
	d := s.byID[id]
	bs := parseBytes(op[2])
	if d == nil || len(bs) < 4 || binary.LittleEndian.Uint32(bs) != id {
		return "" // not bytes of a schema constructor: outside what this operation speaks about
	}
	what := fmt.Sprintf("%s#%08x", d.name, d.id)
	switch {
	case out == "dec=err":
		return "bytes written from the schema line of " + what + " are refused by DecodeUnknownObject: no value of this constructor can be decoded by its id"
	case !strings.HasPrefix(out, "dec=o"+op[1]+"("):
		return "bytes written from the schema line of " + what + " decode to a value of another constructor: " + clip(out)
	case !strings.HasSuffix(out, " re=same"):
		return "the value decoded from bytes written from the schema line of " + what + " does not serialise back to them: " + clip(out)
	}
	return ""
}

// ---- the registration sites --------------------------------------------------------------------------------------

// c01Declared: how many objects / enum members the sources of the working tree hand to tl.RegisterObjects
// and tl.RegisterEnums, and the struct types among them ("*pkg.Type", as reflect prints them).
func c01Declared(repo string) (n int, structs []string, err error) {
	fset := token.NewFileSet()
	err = filepath.Walk(repo, func(path string, info os.FileInfo, werr error) error {
		if werr != nil {
			return werr
		}
		if info.IsDir() {
			switch info.Name() {
			case ".git", "testdata", "vendor":
				return filepath.SkipDir
			}
			return nil
		}
		if !strings.HasSuffix(path, ".go") || strings.HasSuffix(path, "_test.go") {
			return nil
		}
		src, rerr := os.ReadFile(path)
		if rerr != nil {
			return rerr
		}
		if !bytes.Contains(src, []byte("RegisterObjects(")) && !bytes.Contains(src, []byte("RegisterEnums(")) {
			return nil
		}
		file, perr := parser.ParseFile(fset, path, src, 0)
		if perr != nil {
			return perr
		}
		// the name under which this file knows the tl package
		tlName := ""
		for _, im := range file.Imports {
			if strings.HasSuffix(strings.Trim(im.Path.Value, "\""), "/internal/encoding/tl") {
				tlName = "tl"
				if im.Name != nil {
					tlName = im.Name.Name
				}
			}
		}
		if tlName == "" || tlName == "_" || tlName == "." {
			return nil
		}
		ast.Inspect(file, func(nd ast.Node) bool {
			call, ok := nd.(*ast.CallExpr)
			if !ok {
				return true
			}
			sel, ok := call.Fun.(*ast.SelectorExpr)
			if !ok || (sel.Sel.Name != "RegisterObjects" && sel.Sel.Name != "RegisterEnums") {
				return true
			}
			if x, ok := sel.X.(*ast.Ident); !ok || x.Name != tlName {
				return true
			}
			n += len(call.Args)
			for _, a := range call.Args {
				u, ok := a.(*ast.UnaryExpr)
				if !ok || u.Op != token.AND {
					continue
				}
				cl, ok := u.X.(*ast.CompositeLit)
				if !ok {
					continue
				}
				switch t := cl.Type.(type) {
				case *ast.Ident:
					structs = append(structs, "*"+file.Name.Name+"."+t.Name)
				case *ast.SelectorExpr:
					if x, ok := t.X.(*ast.Ident); ok {
						structs = append(structs, "*"+x.Name+"."+t.Sel.Name)
					}
				}
			}
			return true
		})
		return nil
	})
	return n, structs, err
}

func c01RegistryCount() string {
	objs, _ := tl.VerifRegistry()
	n, structs, err := c01Declared(c01Repo())
	if err != nil {
		return fmt.Sprintf("registered=%d declared=unreadable lost=-", len(objs))
	}
	have := map[string]bool{}
	for _, t := range objs {
		have[t.String()] = true
	}
	var lost []string
	for _, s := range structs {
		if !have[s] {
			lost = append(lost, strings.TrimPrefix(s, "*"))
		}
	}
	sort.Strings(lost)
	return fmt.Sprintf("registered=%d declared=%d lost=%s", len(objs), n, showList(lost))
}

func c01JudgeRegistryCount(out string) string {
	var nreg, decl int
	var lost string
	if _, err := fmt.Sscanf(out, "registered=%d declared=%d lost=%s", &nreg, &decl, &lost); err != nil {
		return "the registration sites of the working tree cannot be read: " + clip(out)
	}
	if lost != "-" {
		return "handed to tl.RegisterObjects but the type of no id in the registry (its id is registered a second time and the entry was overwritten; values of this type cannot be decoded by id): " + lost
	}
	if nreg != decl {
		return fmt.Sprintf("%d objects and enum members are handed to tl.RegisterObjects / tl.RegisterEnums but the registry holds %d distinct ids: an id is registered twice and one entry was overwritten", decl, nreg)
	}
	return ""
}
