package main

// C02, the inverse direction THROUGH gzip_packed: `gzip_packed#3072cfa1 packed_data:bytes = Object` is a
// wire-used definition; schema bytes of an object reach the decoder inside it - alone, and as the result of
// an `rpc_result#f35c6d01 req_msg_id:long result:Object` - and must decode to the object that was packed,
// whatever its size: the 2^24 limit of a TL byte string applies to packed_data, not to what it unpacks to.
//
//   c02.gz <wrap> <id> <value> <big>
//     wrap   gz = gzip_packed alone | rpc = rpc_result{gzip_packed}
//     value  the object that is packed (text form of x_tlval.go)
//     big    - | k:n[,k:n]  - value parameter k (string or bytes) of the top-level object holds n bytes (i%251)
//            instead of what the text says, so that no 16 MiB line crosses a pipe; k.j:n - element j of the
//            Vector<string> / Vector<bytes> that value parameter k holds (c02.big, c02big.go)
//
// Go side: tl.Marshal of the value (the line carries length and digest of these bytes; the Lean side answers
// with those of the schema-defined serialisation), packed by compress/gzip and wrapped by hand from the two
// schema lines, then tl.DecodeUnknownObject; the object that comes out of the gzip_packed is compared with the
// value as c02.dec compares (nil-sensitively where the wire says something about it). Lean side: the decoder
// model on the same wrapping, its gunzip parameter answering the schema-defined bytes of the value.

import (
	"bytes"
	"compress/gzip"
	"encoding/binary"
	"fmt"
	"reflect"
	"sort"
	"strconv"
	"strings"

	"github.com/xelaj/mtproto/internal/encoding/tl"
	"github.com/xelaj/mtproto/internal/mtproto/objects"

	"github.com/xelaj/mtproto/verifharness/internal/reg"
)

const c02GzReqID = 0x5e0b700a00000001

// c02GzValue parses the value and puts the big byte strings in place.
func c02GzValue(val, big string) (v reflect.Value, ok bool) {
	v = parseTLValue(tObject, val)
	if big == "-" {
		return v, true
	}
	obj := v
	for obj.Kind() == reflect.Interface {
		obj = obj.Elem()
	}
	if obj.Kind() != reflect.Ptr || obj.IsNil() || obj.Elem().Kind() != reflect.Struct {
		return v, false
	}
	st := obj.Elem()
	var idx []int
	for i := 0; i < st.NumField(); i++ {
		if tag, ok := st.Type().Field(i).Tag.Lookup("tl"); ok && strings.HasPrefix(tag, "-") {
			continue
		}
		idx = append(idx, i)
	}
	for _, kn := range strings.Split(big, ",") {
		c := strings.Index(kn, ":")
		if c < 1 {
			return v, false
		}
		// k:n = value parameter k; k.j:n = element j of the vector that value parameter k holds
		ks, j := kn[:c], -1
		if dot := strings.Index(ks, "."); dot > 0 {
			jj, err := strconv.Atoi(ks[dot+1:])
			if err != nil || jj < 0 {
				return v, false
			}
			ks, j = ks[:dot], jj
		}
		k, err1 := strconv.Atoi(ks)
		n, err2 := strconv.Atoi(kn[c+1:])
		if err1 != nil || err2 != nil || k < 0 || k >= len(idx) || n < 0 || n > 1<<25 {
			return v, false
		}
		f := st.Field(idx[k])
		if j >= 0 {
			if f.Kind() != reflect.Slice || f.Type() == tBytes || j >= f.Len() {
				return v, false
			}
			f = f.Index(j)
		}
		pat := parseBytes("p" + strconv.Itoa(n))
		switch {
		case f.Kind() == reflect.String:
			f.SetString(string(pat))
		case f.Type() == tBytes:
			f.SetBytes(pat)
		default:
			return v, false
		}
	}
	return v, true
}

func c02TLBytes(b []byte) []byte {
	var out []byte
	if len(b) < 254 {
		out = append([]byte{byte(len(b))}, b...)
	} else {
		out = append([]byte{0xfe, byte(len(b)), byte(len(b) >> 8), byte(len(b) >> 16)}, b...)
	}
	for len(out)%4 != 0 {
		out = append(out, 0)
	}
	return out
}

func c02GzExec(op []string) string {
	if len(op) != 5 || (op[1] != "gz" && op[1] != "rpc") {
		return "bad-op"
	}
	v, ok := c02GzValue(op[3], op[4])
	if !ok {
		return "bad-op"
	}
	var inner []byte
	encS := tlOutcome(func() (string, error) {
		b, err := tl.Marshal(v.Interface())
		inner = b
		return showBytes(b), err
	})
	if encS == "err" || encS == "panic" {
		return "enc=" + encS
	}
	var z bytes.Buffer
	zw := gzip.NewWriter(&z)
	_, _ = zw.Write(inner)
	_ = zw.Close()
	if z.Len() >= 1<<24 {
		return "bad-op" // packed_data itself would not be a TL byte string
	}
	le := func(x uint32) []byte { b := make([]byte, 4); binary.LittleEndian.PutUint32(b, x); return b }
	outer := append(le(0x3072cfa1), c02TLBytes(z.Bytes())...)
	if op[1] == "rpc" {
		req := make([]byte, 8)
		binary.LittleEndian.PutUint64(req, c02GzReqID)
		outer = append(append(le(0xf35c6d01), req...), outer...)
	}
	wv := reflect.New(tObject).Elem()
	wv.Set(v)
	c02Wire(wv, -1, false)
	want := dumpAny(wv.Interface())
	dec := tlOutcome(func() (string, error) {
		o, err := tl.DecodeUnknownObject(outer)
		if err != nil {
			return "", err
		}
		if op[1] == "rpc" {
			r, ok := o.(*objects.RpcResult)
			if !ok || uint64(r.ReqMsgID) != c02GzReqID {
				return "diff", nil
			}
			o = r.Obj
		}
		gzp, ok := o.(*objects.GzipPacked)
		if !ok || gzp.Obj == nil {
			return "diff", nil
		}
		if ov := reflect.ValueOf(gzp.Obj); ov.Kind() == reflect.Ptr {
			c02Wire(ov, -1, true)
		}
		got := dumpAny(gzp.Obj)
		switch {
		case got == want:
			return "ok", nil
		case eraseNil(got) == eraseNil(want):
			return "diff-nil", nil
		}
		return "diff", nil
	})
	return "enc=" + encS + " dec=" + dec
}

func c02GzJudge(op []string, out string) string {
	if out == "bad-op" || out == "enc=err" {
		return "" // not a value the library serialises
	}
	if !strings.HasSuffix(out, " dec=ok") {
		return "the serialisation of the value, packed into a gzip_packed" + map[string]string{"gz": "", "rpc": " inside an rpc_result"}[op[1]] +
			", does not decode to the value that was packed: " + clip(out)
	}
	return ""
}

// c02GzGen: constructors that have a string / bytes parameter, drawn at random among those of the registry
// (service and API types alike), with that parameter holding 0, a few hundred, 64 KiB and - the reason this
// class exists - so many bytes that the object unpacks to just under, exactly around and beyond 2^24 bytes:
// one parameter of the largest legal length 2^24-1, and two parameters of more than 2^23 bytes each.
func c02GzGen(g *G, tg *tlGen, all []reg.Ctor) {
	type cand struct {
		c   *reg.Ctor
		pos []int // positions (among the dumped fields) of the unconditional string / bytes fields
		fis []int
	}
	var one, two []cand
	for i := range all {
		c := &all[i]
		if c.Kind != "struct" || !marshalable(c) {
			continue
		}
		var cd cand
		cd.c = c
		k := 0
		for fi, f := range c.Fields {
			if f.Ignore {
				continue
			}
			if !f.HasFlag && (f.Type.Kind() == reflect.String || f.Type == tBytes) {
				cd.pos = append(cd.pos, k)
				cd.fis = append(cd.fis, fi)
			}
			k++
		}
		if len(cd.pos) >= 1 {
			one = append(one, cd)
		}
		if len(cd.pos) >= 2 {
			two = append(two, cd)
		}
	}
	if len(one) == 0 {
		return
	}
	sort.Slice(one, func(i, j int) bool { return one[i].c.ID < one[j].c.ID })
	sort.Slice(two, func(i, j int) bool { return two[i].c.ID < two[j].c.ID })
	saveCanon, saveBig := tg.alwaysCanon, tg.bigStrings
	tg.alwaysCanon, tg.bigStrings = true, false
	defer func() { tg.alwaysCanon, tg.bigStrings = saveCanon, saveBig }()
	emitted := 0
	emit := func(wrap string, cd cand, sizes map[int]int, tag string) {
		var obj reflect.Value
		for tries := 0; tries < 20; tries++ {
			obj = tg.object(cd.c, tg.maxDepth)
			for j, fi := range cd.fis {
				if _, big := sizes[cd.pos[j]]; big { // placeholder: the op's last token says what is there
					obj.Elem().Field(fi).Set(reflect.Zero(cd.c.Fields[fi].Type))
					if cd.c.Fields[fi].Type == tBytes {
						obj.Elem().Field(fi).SetBytes([]byte{})
					}
				}
			}
			if isCanonical(obj) && len(dumpDyn(obj)) < 20000 {
				break
			}
		}
		var ks []int
		for k := range sizes {
			ks = append(ks, k)
		}
		sort.Ints(ks)
		var parts []string
		for _, k := range ks {
			parts = append(parts, fmt.Sprintf("%d:%d", k, sizes[k]))
		}
		g.Emit(fmt.Sprintf("c02.gz %s %08x %s %s", wrap, cd.c.ID, dumpDyn(obj), showList(parts)), "gzip-packed", tag)
		emitted++
	}
	wraps := []string{"gz", "rpc"}
	// small and medium: every wrap, several constructors
	for r := 0; r < g.N(6, 40); r++ {
		cd := one[g.R.Intn(len(one))]
		emit(wraps[r%2], cd, map[int]int{}, "gzip-packed:as-generated")
		n := []int{0, 1, 253, 254, 300, 4095, 4096, 4097, 65536, 70000}[g.R.Intn(10)]
		emit(wraps[(r+1)%2], cd, map[int]int{cd.pos[g.R.Intn(len(cd.pos))]: n}, "gzip-packed:up-to-64KiB")
	}
	// the object unpacks to more than 2^24 bytes: one parameter of the largest legal length ...
	for _, wrap := range wraps {
		cd := one[g.R.Intn(len(one))]
		emit(wrap, cd, map[int]int{cd.pos[g.R.Intn(len(cd.pos))]: 1<<24 - 1}, "gzip-packed:beyond-2^24")
	}
	// ... two parameters of more than 2^23 bytes each
	if len(two) > 0 {
		cd := two[g.R.Intn(len(two))]
		p := g.R.Intn(len(cd.pos) - 1)
		emit(wraps[g.R.Intn(2)], cd, map[int]int{cd.pos[p]: 1<<23 + 1 + g.R.Intn(8192), cd.pos[p+1]: 1<<23 + 1 + g.R.Intn(8192)}, "gzip-packed:beyond-2^24")
	}
	// just under 2^24 (one read block of the unpacking loop and less), quick: one, thorough: around every block edge
	near := []int{1<<24 - 4200}
	if g.Thorough() {
		near = []int{1<<24 - 8300, 1<<24 - 4200, 1<<24 - 4096, 1<<24 - 300, 1<<24 - 64, 1<<24 - 24, 1<<24 - 16, 1<<24 - 12, 1<<24 - 8, 1<<24 - 2}
	}
	for i, n := range near {
		cd := one[g.R.Intn(len(one))]
		emit(wraps[i%2], cd, map[int]int{cd.pos[g.R.Intn(len(cd.pos))]: n}, "gzip-packed:around-2^24")
	}
	g.Extra["gzip_packed_operations"] = emitted
}
