package main

// C15 — decoding arbitrary bytes never panics, loops or over-allocates. Real code:
// tl.DecodeUnknownObject (with and without vector hints) and tl.Decode on structure-aware mutants of
// valid encodings of every registered constructor, and on hand-made hostile inputs.

import (
	"bytes"
	"compress/gzip"
	"encoding/binary"
	"encoding/hex"
	"fmt"
	"reflect"
	"runtime"
	"strings"
	"time"

	"github.com/xelaj/mtproto/internal/encoding/tl"

	"github.com/xelaj/mtproto/verifharness/internal/reg"
)

var (
	c15LastAlloc  uint64
	c15LastDur    time.Duration
	c15LastLen    int
	c15IfaceTypes map[string]reflect.Type
)

func c15ElemType(s string) reflect.Type {
	switch s {
	case "i32":
		return reflect.TypeOf(int32(0))
	case "u32":
		return reflect.TypeOf(uint32(0))
	case "i64":
		return reflect.TypeOf(int64(0))
	case "f64":
		return reflect.TypeOf(float64(0))
	case "bool":
		return reflect.TypeOf(false)
	case "str":
		return reflect.TypeOf("")
	case "bytes":
		return reflect.TypeOf([]byte(nil))
	}
	switch s[0] {
	case 'p':
		var id uint32
		fmt.Sscanf(s[1:], "%x", &id)
		if c := reg.ByID()[id]; c != nil {
			return c.Type
		}
	case 'f':
		if c15IfaceTypes == nil {
			c15IfaceTypes = map[string]reflect.Type{"tl.Object": tObject}
			var walk func(t reflect.Type)
			walk = func(t reflect.Type) {
				switch t.Kind() {
				case reflect.Interface:
					c15IfaceTypes[t.String()] = t
				case reflect.Slice:
					walk(t.Elem())
				}
			}
			for _, c := range reg.All() {
				for _, f := range c.Fields {
					walk(f.Type)
				}
			}
		}
		if t, ok := c15IfaceTypes[s[1:]]; ok {
			return t
		}
	}
	panic("bad hint token " + s)
}

func c15Hints(s string) []reflect.Type {
	if s == "-" {
		return nil
	}
	var out []reflect.Type
	for _, t := range strings.Split(s, ",") {
		out = append(out, reflect.SliceOf(c15ElemType(t)))
	}
	return out
}

// c15Measured runs one decode under recover with what it allocated and how long it took recorded.
func c15Measured(inputLen int, f func() (string, error)) string {
	var m0, m1 runtime.MemStats
	runtime.ReadMemStats(&m0)
	t0 := time.Now()
	out := tlOutcome(f)
	c15LastDur = time.Since(t0)
	runtime.ReadMemStats(&m1)
	c15LastAlloc = m1.TotalAlloc - m0.TotalAlloc
	c15LastLen = inputLen
	return out
}

func c15DecodeUnknown(bs []byte, hints []reflect.Type) string {
	dec := func() string {
		return c15Measured(len(bs), func() (string, error) {
			o, err := tl.DecodeUnknownObject(bs, hints...)
			if err != nil {
				return "", err
			}
			return dumpAny(o), nil
		})
	}
	if len(hints) == 0 {
		return dec()
	}
	// The hint list is the CALLER's: `hints...` hands the library the caller's own slice (the client keeps one per
	// request and decodes every message that names the request with it — a broken-off answer, then the complete one).
	// It must come back as it was, and a second decoding with the same slice must end like the first (seed C15-m18:
	// used hints struck out in place; the second use dereferenced nil).
	before := append([]reflect.Type(nil), hints...)
	out := dec()
	for i := range before {
		if hints[i] != before[i] {
			return fmt.Sprintf("panic:caller-hints-modified (hint %d of %d is %v after the call, was %v; first result %s)", i, len(before), hints[i], before[i], c15Clip(out, 60))
		}
	}
	if again := dec(); again != out {
		if strings.HasPrefix(again, "panic") {
			return again + " (second decoding with the same hint slice; first result " + c15Clip(out, 60) + ")"
		}
		return "panic:second-decoding-differs (same bytes, same hint slice: first " + c15Clip(out, 60) + ", then " + c15Clip(again, 60) + ")"
	}
	return out
}

func c15Clip(s string, n int) string {
	if len(s) > n {
		return s[:n] + "…"
	}
	return s
}

func c15DecodeNamed(id uint32, bs []byte) string {
	c := reg.ByID()[id]
	if c == nil || c.Kind != "struct" {
		return "bad-op"
	}
	return c15Measured(len(bs), func() (string, error) {
		res := reflect.New(c.Type.Elem())
		err := tl.Decode(bs, res.Interface())
		return dumpVal(res), err
	})
}

func c15Exec(op []string) string {
	switch op[0] {
	case "c15.par":
		return c15ParExec(op)
	case "c15.cost":
		return c15CostExec(op)
	case "c15.stack":
		return c15StackExec(op)
	case "c15.unk":
		return c15DecodeUnknown(parseBytes(op[1]), c15Hints(op[2]))
	case "c15.named":
		var id uint32
		fmt.Sscanf(op[1], "%x", &id)
		return c15DecodeNamed(id, parseBytes(op[2]))
	case "c15.nest", "c15.rep":
		bs, hints, named, ok := c15DeepInput(op)
		if !ok {
			return "bad-op"
		}
		if op[0] == "c15.nest" && !c15NestSelfCheck(op) {
			return "bad-op:compress/gzip does not read the stored members back"
		}
		if named != 0 {
			return c15DecodeNamed(named, bs)
		}
		return c15DecodeUnknown(bs, c15Hints(hints))
	}
	return "bad-op"
}

// c15Inflated: the sum of the lengths of what the packed objects of a gzip table (`comp:plain;…`, hex)
// inflate to - recorded by the generator with compress/gzip, not by the code under test.
func c15Inflated(gz string) int {
	if gz == "-" {
		return 0
	}
	total := 0
	for _, e := range strings.Split(gz, ";") {
		if i := strings.IndexByte(e, ':'); i >= 0 && e[i+1:] != "-" {
			total += len(e[i+1:]) / 2
		}
	}
	return total
}

func c15Judge(op []string, out string) string {
	if op[0] == "c15.par" {
		return c15ParJudge(op, out)
	}
	if op[0] == "c15.cost" {
		return c15CostJudge(op, out)
	}
	if op[0] == "c15.stack" {
		return c15StackJudge(op, out)
	}
	if strings.HasPrefix(out, "panic") {
		return "decoding panicked"
	}
	if strings.HasPrefix(out, "bad-op") {
		return ""
	}
	inflated := 0
	switch op[0] {
	case "c15.unk", "c15.named":
		inflated = c15Inflated(op[len(op)-1])
	case "c15.nest":
		// stored blocks: no level inflates to more than it holds; what the decoder may open is a few levels
		// of at most the length of the input each - paid for by the factor of the input length
	}
	if c15LastDur > c15MaxDur {
		return fmt.Sprintf("decoding %d bytes took %v", c15LastLen, c15LastDur.Round(time.Millisecond))
	}
	// allocation in proportion to the input and to what its packed objects really inflate to
	if bound := c15AllocBound(c15LastLen, inflated); c15LastAlloc > bound {
		return fmt.Sprintf("decoding %d bytes (packed objects in it inflate to %d bytes) allocated %d bytes (bound %d)",
			c15LastLen, inflated, c15LastAlloc, bound)
	}
	return ""
}

func b2i(b bool) int {
	if b {
		return 1
	}
	return 0
}

// ---- gzip environment ---------------------------------------------------------------------------------

// goGunzip is what objects.GzipPacked.popMessageAsBytes does with compress/gzip: read errors are
// ignored, whatever was decompressed before an error is kept; a bad header is an error.
func goGunzip(packed []byte) ([]byte, bool) {
	gz, err := gzip.NewReader(bytes.NewReader(packed))
	if err != nil {
		return nil, false
	}
	out := make([]byte, 0, 4096)
	b := make([]byte, 4096)
	for {
		n, _ := gz.Read(b)
		out = append(out, b[0:n]...)
		if n <= 0 {
			break
		}
	}
	return out, true
}

func goGzip(plain []byte) []byte {
	var buf bytes.Buffer
	w := gzip.NewWriter(&buf)
	_, _ = w.Write(plain)
	_ = w.Close()
	return buf.Bytes()
}

// popTLString reads a TL string at off (the harness's own reader), returns content or nil.
func popTLString(b []byte, off int) []byte {
	if off >= len(b) {
		return nil
	}
	n, hdr := int(b[off]), 1
	if b[off] == 0xfe {
		if off+4 > len(b) {
			return nil
		}
		n, hdr = int(b[off+1])|int(b[off+2])<<8|int(b[off+3])<<16, 4
	}
	if off+hdr+n > len(b) {
		return nil
	}
	return b[off+hdr : off+hdr+n]
}

// gzTable finds every place where the gzip_packed id occurs (4-byte aligned) followed by a TL string,
// and records what compress/gzip makes of that string — recursively in the decompressed data.
func gzTable(b []byte) string {
	tbl := map[string]string{}
	var scan func(b []byte, depth int)
	scan = func(b []byte, depth int) {
		// a decoder opens at most maxNestedDecoders = 4 levels and unpacks (then refuses) a fifth
		if depth > 4 {
			return
		}
		for off := 0; off+4 <= len(b); off += 4 {
			if binary.LittleEndian.Uint32(b[off:]) != 0x3072cfa1 {
				continue
			}
			packed := popTLString(b, off+4)
			if packed == nil {
				continue
			}
			k := hex.EncodeToString(packed)
			if _, seen := tbl[k]; seen || len(packed) == 0 {
				continue
			}
			plain, ok := goGunzip(packed)
			if !ok {
				continue
			}
			tbl[k] = hex.EncodeToString(plain)
			scan(plain, depth+1)
		}
	}
	scan(b, 0)
	if len(tbl) == 0 {
		return "-"
	}
	var parts []string
	for k, v := range tbl {
		parts = append(parts, k+":"+v)
	}
	sortStrings(parts)
	return strings.Join(parts, ";")
}

func sortStrings(a []string) {
	for i := 1; i < len(a); i++ {
		for j := i; j > 0 && a[j-1] > a[j]; j-- {
			a[j-1], a[j] = a[j], a[j-1]
		}
	}
}

func tlString(b []byte) []byte {
	var buf bytes.Buffer
	e := tl.NewEncoder(&buf)
	e.PutMessage(b)
	return buf.Bytes()
}

func le32(v uint32) []byte { b := make([]byte, 4); binary.LittleEndian.PutUint32(b, v); return b }
func le64(v uint64) []byte { b := make([]byte, 8); binary.LittleEndian.PutUint64(b, v); return b }

func c15cat(parts ...[]byte) []byte {
	var out []byte
	for _, p := range parts {
		out = append(out, p...)
	}
	return out
}

// ---- generation ---------------------------------------------------------------------------------------

func c15Gen(g *G) {
	r := g.R
	tg := newTLGen(r)
	tg.maxDepth = 2
	all := reg.All()
	var structIDs, enumIDs, allIDs []uint32
	for _, c := range all {
		allIDs = append(allIDs, c.ID)
		if c.Kind == "enum" {
			enumIDs = append(enumIDs, c.ID)
		} else if c.Kind == "struct" {
			structIDs = append(structIDs, c.ID)
		}
	}
	// every fourth input, and every input with a packed object in it, is also decoded with the model's cost
	// next to the result and the real allocation measured against it (c15cost.go)
	costN := 0
	emitUnk := func(b []byte, hints string, tag string) {
		gz := gzTable(b)
		g.Emit(fmt.Sprintf("c15.unk %s %s %s", hexD(b), hints, gz), tag)
		if costN++; costN%4 == 0 || gz != "-" {
			g.Emit(fmt.Sprintf("c15.cost u %s %s %s", hexD(b), hints, gz), "cost:"+tag)
		}
	}
	emitNamed := func(id uint32, b []byte, tag string) {
		gz := gzTable(b)
		g.Emit(fmt.Sprintf("c15.named %08x %s %s", id, hexD(b), gz), tag)
		if costN++; costN%4 == 0 || gz != "-" {
			g.Emit(fmt.Sprintf("c15.cost n %08x %s %s", id, hexD(b), gz), "cost:"+tag)
		}
	}
	// (0) before anything else of this run has been decoded: batches over every registered struct constructor,
	// decoded by several goroutines at once, each batch in a new process (c15par.go)
	var parMembers []string
	{
		pg := newTLGen(NewRand(g.Seed ^ 0xc15c15))
		pg.maxDepth = 1
		for ci := range all {
			c := &all[ci]
			if c.Kind != "struct" || !marshalable(c) {
				continue
			}
			base, err := tl.Marshal(pg.object(c, 0).Interface())
			if err != nil {
				continue
			}
			if len(base) > 64 {
				base = base[:64]
			}
			if gzTable(base) != "-" {
				continue
			}
			if ci%3 == 0 {
				parMembers = append(parMembers, fmt.Sprintf("n/%08x/%s", c.ID, hexD(base)))
			} else {
				parMembers = append(parMembers, fmt.Sprintf("u/%s/-", hexD(base)))
			}
		}
		for i, id := range enumIDs {
			if i%8 == 0 {
				parMembers = append(parMembers, fmt.Sprintf("u/%s/-", hexD(le32(id))))
			}
		}
		c15ParGen(g, parMembers, "fresh", g.N(1, 4), "concurrent-new-process")
	}
	// (0b) inputs built from the schema for every constructor with a flags word (c15schema.go)
	c15SchemaInputs(g, func(id uint32, b []byte, tag string) {
		emitUnk(b, "-", tag)
		emitNamed(id, b, tag+"-named")
	})
	specials := []uint32{0, 0xffffffff, 0x7fffffff, 0x80000000, 1, 0x1cb5c415, 0xbc799737, 0x997275b5, 0x56730bcc, 0x3072cfa1, 0x73f1f8dc, 0xe06046b2, 0xf35c6d01, 0xfe000000, 0x000000fe}
	perCtor := g.N(1, 6)
	for ci := range all {
		c := &all[ci]
		if c.Kind != "struct" || !marshalable(c) {
			continue
		}
		for k := 0; k < perCtor; k++ {
			obj := tg.object(c, 0)
			base, err := tl.Marshal(obj.Interface())
			if err != nil {
				continue
			}
			if len(base) > 600 {
				base = base[:600]
			}
			emitUnk(base, "-", "valid")
			emitNamed(c.ID, base, "valid-named")
			// prefix truncations
			nTr := g.N(6, 20)
			for t := 0; t < nTr; t++ {
				cut := r.Intn(len(base) + 1)
				if t%2 == 0 {
					cut &^= 3
				}
				emitUnk(base[:cut], "-", "truncated")
				if t%3 == 0 {
					emitNamed(c.ID, base[:cut], "truncated-named")
				}
			}
			// word replacement
			nW := g.N(10, 40)
			for t := 0; t < nW; t++ {
				m := append([]byte{}, base...)
				pos := 4 * r.Intn(len(m)/4)
				var w uint32
				switch r.Intn(4) {
				case 0:
					w = specials[r.Intn(len(specials))]
				case 1:
					w = structIDs[r.Intn(len(structIDs))]
				case 2:
					w = enumIDs[r.Intn(len(enumIDs))]
				default:
					w = uint32(r.U64())
					if r.Bool() {
						w &= 0xff
					}
				}
				binary.LittleEndian.PutUint32(m[pos:], w)
				if pos == 0 || r.Intn(3) != 0 {
					emitUnk(m, "-", "word-replaced")
				} else {
					emitNamed(c.ID, m, "word-replaced-named")
				}
			}
			// byte flips
			for t := 0; t < g.N(3, 10); t++ {
				m := append([]byte{}, base...)
				m[r.Intn(len(m))] ^= byte(1 << uint(r.Intn(8)))
				emitUnk(m, "-", "bit-flipped")
			}
		}
	}
	// every enum id: alone, followed by data, in an interface position of some object
	for _, id := range enumIDs {
		emitUnk(le32(id), "-", "enum-id")
		emitUnk(c15cat(le32(id), r.Bytes(8)), "-", "enum-id")
		emitUnk(c15cat(le32(0xf35c6d01), le64(r.U64()), le32(id)), "-", "enum-in-rpc-result")
	}
	// root ids the decoder treats specially, vectors with and without hints, huge counts
	hintSets := []string{"-", "i64", "i32", "str", "bytes", "bool", "f64", "ftl.Object", "i64,i64", "i32,str"}
	for _, c := range all {
		if c.Name == "telegram.UserObj" || c.Name == "objects.FutureSalt" {
			hintSets = append(hintSets, fmt.Sprintf("p%08x", c.ID))
		}
	}
	hintSets = append(hintSets, "ftelegram.User", "ftelegram.MessageEntity")
	counts := []uint32{0, 1, 2, 3, 0x7fffffff, 0x80000000, 0xffffffff, 1000, 65536}
	for _, hs := range hintSets {
		for _, cnt := range counts {
			body := r.Bytes(4 * r.Intn(12))
			emitUnk(c15cat(le32(0x1cb5c415), le32(cnt), body), hs, "vector-root")
			emitUnk(c15cat(le32(0xf35c6d01), le64(r.U64()), le32(0x1cb5c415), le32(cnt), body), hs, "vector-in-rpc-result")
		}
		// well-formed vectors of longs / strings
		emitUnk(c15cat(le32(0x1cb5c415), le32(3), le64(1), le64(2), le64(3)), hs, "vector-root-valid")
		emitUnk(c15cat(le32(0xf35c6d01), le64(7), le32(0x1cb5c415), le32(2), tlString([]byte("ab")), tlString([]byte("cdef"))), hs, "vector-in-rpc-result-valid")
	}
	// vectors nested in element / object position: every vector id consumes one hint, so inputs with
	// more vector ids than hints (and with exactly as many) must be refused or decoded, never crash
	vec := func(elems ...[]byte) []byte {
		b := c15cat(le32(0x1cb5c415), le32(uint32(len(elems))))
		for _, e := range elems {
			b = c15cat(b, e)
		}
		return b
	}
	nestHints := []string{"-", "ftl.Object", "ftl.Object,ftl.Object", "ftl.Object,i64", "i64,ftl.Object", "ftl.Object,ftl.Object,ftl.Object", "ftelegram.User"}
	for _, c := range all {
		if c.Name == "objects.RpcResult" {
			nestHints = append(nestHints, fmt.Sprintf("p%08x", c.ID), fmt.Sprintf("p%08x,i64", c.ID))
		}
	}
	pongB := c15cat(le32(0x347773c5), le64(5), le64(6))
	nested := [][]byte{
		vec(vec()), vec(vec(), vec()), vec(vec(vec())), vec(vec(vec(vec()))), vec(pongB, vec()), vec(vec(pongB), pongB),
		vec(vec(le64(1), le64(2))), vec(c15cat(le32(0xf35c6d01), le64(3), vec())), vec(c15cat(le32(0xf35c6d01), le64(3), vec(vec()))),
		vec(c15cat(le32(0xf35c6d01), le64(3), pongB), c15cat(le32(0xf35c6d01), le64(4), vec(le64(9)))),
	}
	for _, hs := range nestHints {
		for _, b := range nested {
			emitUnk(b, hs, "vector-nested")
			emitUnk(c15cat(le32(0xf35c6d01), le64(r.U64()), b), hs, "vector-nested-in-rpc-result")
			emitUnk(c15cat(le32(0x3072cfa1), tlString(goGzip(b))), hs, "vector-nested-in-gzip")
		}
	}
	for _, id := range []uint32{0xbc799737, 0x997275b5, 0x56730bcc, 0xe06046b2, 0x12345678, 0} {
		emitUnk(le32(id), "-", "special-root")
		emitUnk(c15cat(le32(id), r.Bytes(24)), "-", "special-root")
		emitUnk(c15cat(le32(0xf35c6d01), le64(9), le32(id), r.Bytes(16)), "-", "special-in-rpc-result")
	}
	// containers: counts and sizes of every sign and magnitude
	for _, cnt := range []uint32{0, 1, 2, 0xffffffff, 0x80000000, 0x7fffffff, 100} {
		for _, size := range []uint32{0, 4, 8, 0xffffffff, 0x80000000, 0x7fffffff, 5, 1 << 20} {
			inner := c15cat(le32(0x347773c5), le64(1), le64(2)) // pong
			b := c15cat(le32(0x73f1f8dc), le32(cnt), le64(r.U64()|1), le32(uint32(r.Intn(9))), le32(size), inner)
			emitUnk(b, "-", "container-hostile")
		}
	}
	for n := 0; n <= 3; n++ {
		b := c15cat(le32(0x73f1f8dc), le32(uint32(n)))
		for i := 0; i < n; i++ {
			inner := c15cat(le32(0x347773c5), le64(uint64(i)), le64(2))
			b = c15cat(b, le64(r.U64()|1), le32(uint32(2*i+1)), le32(uint32(len(inner))), inner)
		}
		emitUnk(b, "-", "container-valid")
		for cut := 0; cut < len(b); cut += 4 {
			emitUnk(b[:cut], "-", "container-truncated")
		}
	}
	// gzip: valid, nested, corrupted, garbage, wrapped in rpc_result
	pong := c15cat(le32(0x347773c5), le64(5), le64(6))
	gzPong := c15cat(le32(0x3072cfa1), tlString(goGzip(pong)))
	emitUnk(gzPong, "-", "gzip-valid")
	emitUnk(c15cat(le32(0xf35c6d01), le64(11), gzPong), "-", "gzip-in-rpc-result")
	emitUnk(c15cat(le32(0x3072cfa1), tlString(goGzip(gzPong))), "-", "gzip-nested")
	emitUnk(c15cat(le32(0x3072cfa1), tlString(goGzip(c15cat(le32(0x1cb5c415), le32(2), le64(1), le64(2))))), "i64", "gzip-vector")
	emitUnk(c15cat(le32(0x3072cfa1), tlString(goGzip(r.Bytes(40)))), "-", "gzip-garbage-inside")
	emitUnk(c15cat(le32(0x3072cfa1), tlString(r.Bytes(40))), "-", "gzip-bad-header")
	emitUnk(c15cat(le32(0x3072cfa1), tlString(nil)), "-", "gzip-empty")
	for t := 0; t < g.N(30, 300); t++ {
		z := goGzip(pong)
		z[r.Intn(len(z))] ^= byte(1 << uint(r.Intn(8)))
		if r.Intn(3) == 0 {
			z = z[:r.Intn(len(z))]
		}
		emitUnk(c15cat(le32(0x3072cfa1), tlString(z)), "-", "gzip-corrupted")
	}
	// gzip members that no gzip writer makes: every header / trailer field changed (c15deep.go)
	c15GzipMutGen(g, emitUnk)
	// packed objects nested deeper (real compression; the stored-block variant of c15deep.go goes to thousands)
	{
		x := pong
		for n := 1; n <= 8; n++ {
			x = c15cat(le32(0x3072cfa1), tlString(goGzip(x)))
			emitUnk(x, "-", "gzip-nested-compressed")
			emitUnk(c15cat(le32(0xf35c6d01), le64(uint64(n)), x), "-", "gzip-nested-compressed-in-rpc-result")
		}
		// a packed object that really inflates: a long run of zero bytes inside an rpc_error message
		for _, n := range []int{1 << 12, 1 << 16, g.N(1<<18, 1<<21)} {
			big := c15cat(le32(0x2144ca19), le32(400), c15TLString(make([]byte, n)))
			emitUnk(c15cat(le32(0x3072cfa1), tlString(goGzip(big))), "-", "gzip-really-inflating")
		}
	}
	// deep and maximal-count inputs (c15deep.go)
	c15DeepGen(g)
	c15StackGen(g)
	// byte strings with hostile length headers inside rpc_error / msgs_state_info
	for _, hdr := range [][]byte{{0xfe, 0xff, 0xff, 0xff}, {0xfe, 0, 0, 0}, {0xff}, {0xfd}, {0xfe, 0xff, 0xff}, {0xfe}, {0x05, 1, 2}, {0x03, 1, 2, 3}, {0x02, 1, 2, 9}} {
		emitUnk(c15cat(le32(0x2144ca19), le32(400), hdr, r.Bytes(8)), "-", "string-header-hostile")
		emitUnk(c15cat(le32(0x04deb57d), le64(3), hdr), "-", "string-header-hostile")
	}
	// pure random
	for t := 0; t < g.N(300, 5000); t++ {
		b := r.Bytes(r.Intn(64))
		if len(b) >= 4 && r.Bool() {
			binary.LittleEndian.PutUint32(b, allIDs[r.Intn(len(allIDs))])
		}
		emitUnk(b, []string{"-", "i64", "str"}[r.Intn(3)], "random")
	}
	// concurrent decoding once more, in this process (every type has been met by now: what is left is state
	// shared between overlapping calls, not first-use initialisation)
	if len(parMembers) > 96 {
		c15ParGen(g, parMembers[:96], "here", 1, "concurrent-this-process")
	}
}

func init() {
	register(&Prop{Name: "c15", Stateless: true, Gen: c15Gen, Exec: c15Exec, Judge: c15Judge, OpTimeout: 20 * time.Second})
}
