package main

// C03, session 9 — what a REFUSED operation leaves behind for the next accepted one.
//
//   c03.mix <mode> <step> <step> …
//
// One process, one goroutine, one sequence of envelope operations of SEVERAL clients (every step carries its own
// auth key, salt, session id), refused and accepted operations mixed. The property is per operation: an accepted
// operation must come out exactly as if it had run alone, whatever was refused (or accepted) before it, for
// whichever client. Scratch memory kept between calls (a sync.Pool of plaintext buffers, a cached cipher, a
// reused decoder) that is cleaned only on the success path shows up here and nowhere else.
//
//   step = s,<key>,<salt>,<sid>,<msg_id>,<seq_no>,<ack>,<body>       real Encrypted.Serialize (refused: key < 128 bytes)
//        | o,<key>,<salt>,<sid>,<msg_id>,<seq_no>,<body>,<padding>   a packet the specification's server seals
//                                                                    (direction 8), opened by the real DeserializeEncrypted
//        | d,<key>,<packet>                                          these bytes given to the real DeserializeEncrypted
//                                                                    (refused packets of every refusal class)
//        | us,<msg_id>,<body>                                        real Unencrypted.Serialize
//        | ud,<bytes>                                                real DeserializeUnencrypted
//   <key> = a byte-string token, or "nil" (a nil slice: no key yet)
//   mode  = nogc   the garbage collector is switched off for the sequence (debug.SetGCPercent(-1)): a sync.Pool keeps
//                  what was put into it; the goroutine is locked to its thread (and so stays on its P: no step blocks)
//         | p1     the same with GOMAXPROCS(1): there is only one P, every pool access is that P's
//         | gc     runtime.GC() twice before every step (a pool's primary and victim caches are empty at every step)
//
// Results of the steps joined with " ; ". Lean: each step is the model's function of the step's arguments alone
// (Mtv.Envelope.seal_sequence_independent). Judge: every accepted step by the specification's server / opener of
// x_envelope.go, exactly as a c03.seal / c03.open of its own.

import (
	"bytes"
	"encoding/binary"
	"fmt"
	"runtime"
	"runtime/debug"
	"strings"

	"github.com/xelaj/mtproto/internal/mtproto/messages"
)

var c03MixLastOp string
var c03MixLastBytes [][]byte

func c03MixKey(t string) []byte {
	if t == "nil" {
		return nil
	}
	return envTok(t)
}

// c03MixStep runs one step against the real code; raw = the bytes the judge needs (packet sealed / body opened).
func c03MixStep(t string) (res string, raw []byte) {
	defer func() {
		if r := recover(); r != nil {
			res, raw = "panic:"+panicSite(), nil
		}
	}()
	p := strings.Split(t, ",")
	switch {
	case p[0] == "s" && len(p) == 8 && (p[6] == "0" || p[6] == "1"):
		key := c03MixKey(p[1])
		inf := envInformator{salt: int64(envU64(p[2])), sid: int64(envU64(p[3])), seq: int32(uint32(envU64(p[5]))), key: key}
		pkt, err := (&messages.Encrypted{Msg: envTok(p[7]), MsgID: int64(envU64(p[4]))}).Serialize(inf, p[6] == "1")
		if err != nil {
			return envOpenErr(err), nil
		}
		if len(pkt) < 24 {
			return "short:" + hexD(pkt), pkt
		}
		return fmt.Sprintf("keyid=%s msgkey=%s ct=%s", showBytes(pkt[:8]), showBytes(pkt[8:24]), showBytes(pkt[24:])), append([]byte{}, pkt...)
	case p[0] == "o" && len(p) == 8:
		key := c03MixKey(p[1])
		m := envMsg{Salt: envU64(p[2]), Sid: envU64(p[3]), Mid: envU64(p[4]), Seq: uint32(envU64(p[5])), Body: envTok(p[6])}
		e, err := messages.DeserializeEncrypted(envSeal(8, key, m, envTok(p[7])), key)
		if err != nil {
			return envOpenErr(err), nil
		}
		got := envOfEncrypted(e)
		return envShowMsg(got), append([]byte{}, got.Body...)
	case p[0] == "d" && len(p) == 3:
		key := c03MixKey(p[1])
		e, err := messages.DeserializeEncrypted(envTok(p[2]), key)
		if err != nil {
			return envOpenErr(err), nil
		}
		got := envOfEncrypted(e)
		return envShowMsg(got), append([]byte{}, got.Body...)
	case p[0] == "us" && len(p) == 3:
		b, err := (&messages.Unencrypted{Msg: envTok(p[2]), MsgID: int64(envU64(p[1]))}).Serialize(envInformator{})
		if err != nil {
			return "err:?", nil
		}
		return "bytes=" + showBytes(b), append([]byte{}, b...)
	case p[0] == "ud" && len(p) == 2:
		return c03Unenc(envTok(p[1])), nil
	}
	return "bad-step", nil
}

func c03MixGood(t string) bool {
	p := strings.Split(t, ",")
	switch p[0] {
	case "s", "o":
		return len(p) == 8
	case "d", "us":
		return len(p) == 3
	case "ud":
		return len(p) == 2
	}
	return false
}

func c03Mix(op []string) string {
	if len(op) < 3 || (op[1] != "nogc" && op[1] != "gc" && op[1] != "p1") {
		return "bad-op"
	}
	for _, t := range op[2:] {
		if !c03MixGood(t) {
			return "bad-op"
		}
	}
	// the tokens are expanded before the sequence starts (the expansion allocates; the sequence itself should be
	// the library's calls and little else) — envTok is cheap, so this is only a warm-up of the parser
	runtime.LockOSThread()
	defer runtime.UnlockOSThread()
	switch op[1] {
	case "nogc", "p1":
		defer debug.SetGCPercent(debug.SetGCPercent(-1))
		if op[1] == "p1" {
			defer runtime.GOMAXPROCS(runtime.GOMAXPROCS(1))
		}
	}
	outs := make([]string, 0, len(op)-2)
	raws := make([][]byte, 0, len(op)-2)
	for _, t := range op[2:] {
		if op[1] == "gc" {
			runtime.GC()
			runtime.GC()
		}
		res, raw := c03MixStep(t)
		outs = append(outs, res)
		raws = append(raws, raw)
	}
	c03MixLastOp, c03MixLastBytes = strings.Join(op, " "), raws
	return strings.Join(outs, " ; ")
}

// c03JudgeSealed: the packet the real Serialize produced, as the specification's server sees it (direction 0).
func c03JudgeSealed(key, pkt []byte, want envMsg) string {
	if len(pkt) < 24 || (len(pkt)-24)%16 != 0 {
		return fmt.Sprintf("packet of %d bytes is not key id + msg_key + whole blocks", len(pkt))
	}
	if padding := len(pkt) - 24 - 32 - len(want.Body); padding < 0 || padding >= 16 {
		return fmt.Sprintf("ciphertext carries %d bytes beyond header and body (want 0..15)", padding)
	}
	got, why := envOpen(0, key, pkt, true)
	if why != "" {
		return "a conformant server refuses the packet: " + why
	}
	if got.Salt != want.Salt || got.Sid != want.Sid || got.Mid != want.Mid || got.Seq != want.Seq || !bytes.Equal(got.Body, want.Body) {
		return fmt.Sprintf("a conformant server recovers salt=%d sid=%d mid=%d seq=%d body=%s, sealed were salt=%d sid=%d mid=%d seq=%d body=%s",
			got.Salt, got.Sid, got.Mid, got.Seq, showBytes(got.Body), want.Salt, want.Sid, want.Mid, want.Seq, showBytes(want.Body))
	}
	return ""
}

// c03MixHistory: what ran before step i in this process.
func c03MixHistory(op []string, outs []string, i int) string {
	steps := op[2:]
	refused, lastRef := 0, -1
	for j := 0; j < i; j++ {
		if strings.HasPrefix(outs[j], "err:") {
			refused++
			lastRef = j
		}
	}
	how := map[string]string{"nogc": "garbage collector off, goroutine locked to its thread",
		"p1": "garbage collector off, GOMAXPROCS(1)", "gc": "two garbage collections before every step"}[op[1]]
	s := fmt.Sprintf("step %d of %d in one process (%s)", i+1, len(steps), how)
	if refused == 0 {
		return s + ", no refused operation before it"
	}
	what := map[string]string{"s": "Serialize", "o": "DeserializeEncrypted", "d": "DeserializeEncrypted", "us": "Unencrypted.Serialize", "ud": "DeserializeUnencrypted"}[strings.SplitN(steps[lastRef], ",", 2)[0]]
	other := ""
	if a, b := strings.Split(steps[lastRef], ","), strings.Split(steps[i], ","); len(a) > 1 && len(b) > 1 && a[1] != b[1] {
		other = " of another client (another auth key)"
	}
	return s + fmt.Sprintf(", after %d refused operation(s), the last one step %d: %s%s answered %s", refused, lastRef+1, what, other, clip(outs[lastRef]))
}

func c03MixJudge(op []string, out string) string {
	if strings.Contains(out, "panic:") {
		return "an envelope operation panics: " + clip(out)
	}
	if out == "bad-op" {
		return ""
	}
	outs := strings.Split(out, " ; ")
	if len(outs) != len(op)-2 {
		return fmt.Sprintf("%d results for %d steps: %s", len(outs), len(op)-2, clip(out))
	}
	var raws [][]byte
	if c03MixLastOp == strings.Join(op, " ") {
		raws = c03MixLastBytes
	}
	for i, t := range op[2:] {
		p := strings.Split(t, ",")
		why := ""
		switch p[0] {
		case "s":
			key := c03MixKey(p[1])
			if len(key) != 256 {
				continue // the property speaks about 256-byte auth keys
			}
			want := envMsg{Salt: envU64(p[2]), Sid: envU64(p[3]), Mid: envU64(p[4]), Seq: uint32(envU64(p[5])), Body: envTok(p[7])}
			if p[6] == "1" {
				want.Seq |= 1
			}
			if !strings.HasPrefix(outs[i], "keyid=") {
				why = "sealing did not produce a packet: " + clip(outs[i])
				break
			}
			var pkt []byte
			if raws != nil {
				pkt = raws[i]
			}
			if pkt == nil {
				// no bytes kept (a replayed judgement): the printed line must be the one the specification's
				// client side gives — the packet is a function of the arguments (zero padding)
				exp := envSeal(0, key, want, make([]byte, (16-(32+len(want.Body))%16)%16))
				if e := fmt.Sprintf("keyid=%s msgkey=%s ct=%s", showBytes(exp[:8]), showBytes(exp[8:24]), showBytes(exp[24:])); outs[i] != e {
					why = "the packet is not the one the description gives for these arguments: want " + clip(e)
				}
				break
			}
			why = c03JudgeSealed(key, pkt, want)
		case "o", "d":
			key := c03MixKey(p[1])
			if len(key) != 256 {
				continue
			}
			var want envMsg
			if p[0] == "o" {
				if len(envTok(p[7])) >= 16 {
					continue
				}
				want = envMsg{Salt: envU64(p[2]), Sid: envU64(p[3]), Mid: envU64(p[4]), Seq: uint32(envU64(p[5])), Body: envTok(p[6])}
			} else {
				var no string
				if want, no = envOpen(8, key, envTok(p[2]), true); no != "" {
					continue // not a conformant server's packet: what the client answers is C04's subject
				}
			}
			if want.Mid%4 != 1 && want.Mid%4 != 3 {
				if strings.HasPrefix(outs[i], "ok ") {
					why = "a msg_id without server parity was accepted"
				}
				break
			}
			if outs[i] != envShowMsg(want) {
				why = "the packet a conformant server sealed is not opened to its content: got " + clip(outs[i]) + " want " + clip(envShowMsg(want))
			} else if raws != nil && raws[i] != nil && !bytes.Equal(raws[i], want.Body) {
				why = "body differs from the sealed body"
			}
		case "us":
			exp := c03SpecUnenc(envU64(p[1]), envTok(p[2]))
			if outs[i] != "bytes="+showBytes(exp) || (raws != nil && raws[i] != nil && !bytes.Equal(raws[i], exp)) {
				why = "unencrypted message is not 0(8) msg_id(8) length(4) body: got " + clip(outs[i])
			}
		case "ud":
			b := envTok(p[1])
			if len(b) < 20 || binary.LittleEndian.Uint64(b[:8]) != 0 || int(binary.LittleEndian.Uint32(b[16:20])) != len(b)-20 {
				continue
			}
			mid := binary.LittleEndian.Uint64(b[8:16])
			if mid%4 != 1 && mid%4 != 3 {
				if strings.HasPrefix(outs[i], "ok") {
					why = "an unencrypted msg_id without server parity was accepted"
				}
				break
			}
			if exp := fmt.Sprintf("ok mid=%d body=%s", mid, showBytes(b[20:])); outs[i] != exp {
				why = "the unencrypted message of a conformant server is not read: got " + clip(outs[i]) + " want " + clip(exp)
			}
		}
		if why != "" {
			return c03MixHistory(op, outs, i) + ": " + why
		}
	}
	return ""
}

// ---- generation -----------------------------------------------------------------------------------

// c03Client: one MessageInformator of the process.
type c03Client struct {
	key       string
	salt, sid uint64
}

func c03NewClient(g *G) c03Client { return c03Client{key: c03KeyTok(g), salt: c03U64(g), sid: c03U64(g)} }

func (c c03Client) seal(g *G, l int) string {
	return fmt.Sprintf("s,%s,%d,%d,%d,%d,%d,%s", c.key, c.salt, c.sid, c03U64(g), c03Seq(g), g.R.Intn(2), c03BodyTok(g, l))
}

func (c c03Client) open(g *G, l int) string {
	return fmt.Sprintf("o,%s,%d,%d,%d,%d,%s,%s", c.key, c.salt, c.sid, c03ServerMid(g), c03Seq(g), c03BodyTok(g, l), c03PadFor(g, l))
}

// c03BadKeys: auth keys ige.Encrypt refuses (shorter than 128 bytes) — no key yet, a damaged session file.
func c03BadKey(g *G) string {
	r := g.R
	switch r.Intn(8) {
	case 0:
		return "nil"
	case 1:
		return "-"
	case 2:
		return fmt.Sprintf("x127:%d", r.U64()>>1)
	case 3:
		return fmt.Sprintf("x%d:%d", r.Pick(1, 8, 32, 64, 96, 100, 126), r.U64()>>1)
	case 4:
		return fmt.Sprintf("z%d", r.Pick(16, 64, 96))
	}
	return fmt.Sprintf("x%d:%d", 1+r.Intn(127), r.U64()>>1)
}

// a send refused inside ige.Encrypt: the session's other fields are those of client c (a damaged key, same session)
// or of a client of its own
func c03RefusedSeal(g *G, c c03Client, l int) string {
	if g.R.Intn(3) == 0 {
		c = c03NewClient(g)
	}
	c.key = c03BadKey(g)
	return c.seal(g, l)
}

var c03RefusalClasses = []string{"wrongKey", "otherKey", "dataTooSmall", "notDivisible-1", "notDivisible+1", "notDivisible7", "lengthBeyond",
	"lengthNegative", "parity", "wrongMsgKey", "ctBitFlipped", "msgKeyBitFlipped", "shortKey", "noKey", "bytes<24", "empty", "clientDirection"}

// c03RefusedPacket: a `d` step of the named refusal class, made from a packet the specification's server seals for c.
func c03RefusedPacket(g *G, c c03Client, class string, l int) string {
	r := g.R
	key := envTok(c.key)
	m := envMsg{Salt: c.salt, Sid: c.sid, Mid: c03ServerMid(g), Seq: uint32(c03Seq(g)), Body: r.Bytes(l)}
	pad := r.Bytes((16 - (32+l)%16) % 16)
	pkt := envSeal(8, key, m, pad)
	openKey := c.key
	switch class {
	case "wrongKey":
		pkt[r.Intn(8)] ^= 1 << uint(r.Intn(8))
	case "otherKey":
		pkt = envSeal(8, envLCG(256, r.U64()), m, pad)
	case "dataTooSmall":
		pkt = pkt[:24]
	case "notDivisible-1":
		pkt = pkt[:len(pkt)-1]
	case "notDivisible+1":
		pkt = append(pkt, byte(r.Intn(256)))
	case "notDivisible7":
		pkt = pkt[:24+7]
	case "lengthBeyond":
		pt := append(envPlain(m, uint32(l+1+r.Intn(4096))), pad...)
		pkt = envSealRaw(8, key, pt, 32+l)
	case "lengthNegative":
		pt := append(envPlain(m, uint32(r.Pick(-1, -16, -2147483648))), pad...)
		pkt = envSealRaw(8, key, pt, 32+l)
	case "parity":
		m.Mid = m.Mid&^3 | uint64(r.Pick(0, 2))
		pkt = envSeal(8, key, m, pad)
	case "wrongMsgKey":
		pkt = envSealWithMsgKey(8, key, append(envPlain(m, uint32(l)), pad...), r.Bytes(16))
	case "ctBitFlipped":
		pkt[len(pkt)-1-r.Intn(16)] ^= 1 << uint(r.Intn(8))
	case "msgKeyBitFlipped":
		pkt[8+r.Intn(16)] ^= 1 << uint(r.Intn(8))
	case "shortKey":
		k := r.Bytes(r.Pick(100, 127, 128, 131, 135))
		openKey = hexD(k)
		pkt = append(append(append([]byte{}, envSha1(k)[12:20]...), r.Bytes(16)...), r.Bytes(16*(2+r.Intn(3)))...)
	case "noKey":
		openKey = []string{"nil", "-"}[r.Intn(2)]
		pkt = append(append(append([]byte{}, envSha1(nil)[12:20]...), r.Bytes(16)...), r.Bytes(16*(2+r.Intn(3)))...)
	case "bytes<24":
		pkt = pkt[:r.Pick(1, 7, 8, 9, 16, 23)]
	case "empty":
		pkt = nil
	case "clientDirection":
		pkt = envSeal(0, key, m, pad) // the client's own direction: the server never seals so
	}
	tok := hexD(pkt)
	if len(pkt) == 0 {
		tok = "-"
	}
	return fmt.Sprintf("d,%s,%s", openKey, tok)
}

func c03GenMix(g *G) {
	r := g.R
	emit := func(mode string, steps []string, tags ...string) {
		g.Emit("c03.mix "+mode+" "+strings.Join(steps, " "), append(tags, "mix", "mix-"+mode)...)
	}
	modes := []string{"nogc", "p1", "gc"}
	short := func() int { return r.Intn(48) }
	// -- the sealing side: refused sends (no key, damaged key) between the sends of two healthy clients
	for rep := 0; rep < g.N(4, 24); rep++ {
		a, b := c03NewClient(g), c03NewClient(g)
		for _, mode := range modes {
			emit(mode, []string{a.seal(g, short()), c03RefusedSeal(g, a, short()), a.seal(g, short()), a.seal(g, short())}, "mix-seal-after-refused")
			emit(mode, []string{c03RefusedSeal(g, b, short()), a.seal(g, short()), b.seal(g, short())}, "mix-seal-after-refused", "mix-first-op-refused")
			emit(mode, []string{c03RefusedSeal(g, b, short()), c03RefusedSeal(g, a, short()), c03RefusedSeal(g, b, 200+r.Intn(400)), b.seal(g, short()), a.seal(g, short()), b.seal(g, short())},
				"mix-seal-after-refused", "mix-several-refused-in-a-row")
			// refused long, accepted short; refused short, accepted long; around the 64 KB of a transport frame
			long := r.Pick(1008+r.Intn(16), 4096, 65536-r.Intn(20))
			emit(mode, []string{c03RefusedSeal(g, a, long), b.seal(g, short()), a.seal(g, 0), a.seal(g, short())}, "mix-seal-after-refused", "mix-long-body")
			emit(mode, []string{c03RefusedSeal(g, a, short()), b.seal(g, long), a.seal(g, short())}, "mix-seal-after-refused", "mix-long-body")
			emit(mode, []string{c03RefusedSeal(g, a, 0), a.seal(g, 0), c03RefusedSeal(g, a, 0), b.seal(g, 16*r.Intn(4))}, "mix-seal-after-refused", "mix-empty-body")
			// the two sides interleaved: a refused send, then a packet of the server opened, then a send
			emit(mode, []string{c03RefusedSeal(g, a, short()), a.open(g, short()), a.seal(g, short()), b.open(g, short()), b.seal(g, short())}, "mix-seal-after-refused", "mix-both-sides")
		}
		// every residue of the accepted body mod 16 right after a refused send
		for d := 0; d < 16; d++ {
			mode := modes[(rep+d)%3]
			emit(mode, []string{c03RefusedSeal(g, a, r.Intn(33)), a.seal(g, 16*r.Intn(3)+d), b.seal(g, r.Intn(33))}, "mix-seal-after-refused", fmt.Sprintf("mix-seal-residue=%d", d))
		}
	}
	// -- the opening side: a refused packet of every refusal class, then conformant packets (the same client, another one)
	for rep := 0; rep < g.N(1, 8); rep++ {
		a, b := c03NewClient(g), c03NewClient(g)
		for ci, class := range c03RefusalClasses {
			mode := modes[(rep+ci)%3]
			emit(mode, []string{c03RefusedPacket(g, a, class, short()), a.open(g, short()), b.open(g, short())}, "mix-open-after-refused", "mix-refusal="+class)
			emit(modes[(rep+ci+1)%3], []string{a.open(g, short()), c03RefusedPacket(g, b, class, short()), c03RefusedPacket(g, a, class, 100+r.Intn(200)), b.open(g, short()), a.seal(g, short()), a.open(g, short())},
				"mix-open-after-refused", "mix-refusal="+class, "mix-both-sides")
		}
	}
	// -- unencrypted messages refused and accepted between the encrypted ones
	for rep := 0; rep < g.N(3, 20); rep++ {
		a := c03NewClient(g)
		okU := "ud," + hexD(c03SpecUnenc(c03ServerMid(g), r.Bytes(1+r.Intn(40))))
		badParity := "ud," + hexD(c03SpecUnenc(c03U64(g)&^3|uint64(r.Pick(0, 2)), r.Bytes(1+r.Intn(40))))
		bl := c03SpecUnenc(c03ServerMid(g), r.Bytes(4+r.Intn(40)))
		badLen := "ud," + hexD(bl[:len(bl)-1-r.Intn(3)])
		us := fmt.Sprintf("us,%d,%s", c03U64(g), c03BodyTok(g, 1+r.Intn(40)))
		emit(modes[rep%3], []string{badParity, okU, badLen, okU, us, c03RefusedSeal(g, a, short()), us, okU, a.seal(g, short())}, "mix-unencrypted")
	}
	// -- random walks: 2..12 operations of up to three clients, 0–70 % of them refused, both sides
	for i := 0; i < g.N(90, 1500); i++ {
		cl := []c03Client{c03NewClient(g), c03NewClient(g), c03NewClient(g)}[:2+r.Intn(2)]
		pRef := r.Pick(1, 3, 5, 7)
		n := 2 + r.Intn(11)
		var steps []string
		for k := 0; k < n; k++ {
			c := cl[r.Intn(len(cl))]
			l := short()
			if r.Intn(10) == 0 {
				l = r.Intn(1200)
			}
			refused := r.Intn(10) < pRef && k < n-1
			switch side := r.Intn(10); {
			case side < 5 && refused:
				steps = append(steps, c03RefusedSeal(g, c, l))
			case side < 5:
				steps = append(steps, c.seal(g, l))
			case side < 9 && refused:
				steps = append(steps, c03RefusedPacket(g, c, c03RefusalClasses[r.Intn(len(c03RefusalClasses))], l%300))
			case side < 9:
				steps = append(steps, c.open(g, l))
			case refused:
				steps = append(steps, "ud,"+hexD(c03SpecUnenc(c03U64(g)&^3|uint64(r.Pick(0, 2)), r.Bytes(1+r.Intn(40)))))
			default:
				steps = append(steps, "ud,"+hexD(c03SpecUnenc(c03ServerMid(g), r.Bytes(1+r.Intn(40)))))
			}
		}
		// every walk ends with an accepted send and an accepted packet of each client
		for _, c := range cl {
			steps = append(steps, c.seal(g, short()), c.open(g, short()))
		}
		emit(modes[r.Intn(3)], steps, "mix-random")
	}
}

// c03GenRefusedOnTransport: c03.session lines whose peer sends packets the client must refuse (every refusal class of
// DeserializeEncrypted that a frame of 8 bytes or more can carry) and conformant packets after them: the opening
// side's entry point as the client has it, transport.ReadMsg, after a refusal.
func c03GenRefusedOnTransport(g *G) {
	r := g.R
	for rep := 0; rep < g.N(1, 6); rep++ {
		for _, class := range c03RefusalClasses {
			if class == "empty" || class == "shortKey" || class == "noKey" {
				continue // need another key on the client's side / a frame without content
			}
			c := c03NewClient(g)
			raw := func(l int) string {
				p := strings.Split(c03RefusedPacket(g, c, class, l), ",")
				if b := envTok(p[2]); len(b) < 9 {
					p[2] = hexD(append(b, make([]byte, 9-len(b))...))
				}
				return "r:" + p[2]
			}
			a, b := c03EncStep(g, c03ServerMid(g)), c03EncStep(g, c03ServerMid(g))
			u := fmt.Sprintf("u:%d:%s", c03ServerMid(g), c03BodyTok(g, 1+r.Intn(40)))
			g.Emit("c03.session "+c.key+" "+strings.Join([]string{raw(r.Intn(48)), a, raw(r.Intn(300)), raw(r.Intn(48)), a, b, u, raw(r.Intn(48)), u, b}, " "),
				"session", "session-after-refused-packet", "session-refusal="+class)
		}
	}
}
