package main

// C01, the hand-written wrappers of telegram/methods_special.go: InitConnectionParams, InvokeWithLayerParams,
// InvokeWithTakeoutParams ("API layer, MTProto service objects, hand-written wrappers" in the property). They are
// request-only types: nobody hands them to tl.RegisterObjects, so the registry - and with it the generator of
// c01.rt, the text parser and the Lean registry - does not know them.
//
//   c01.wrap <descs> <value>
//     descs   the descriptors of the three wrapper structs, read by reflection from the working tree and handed to
//             the Lean driver in the operation (it extends its registry with them):
//             <hexid>:<FlagIndex()|->:<field>/<field>/... , field = <type>[@<bit>[b]],
//             type = i32 u32 i64 f64 bool str bytes p<hexid> f<interface> , a leading v = vector of
//     value   o<wrapper id>(fields...;<query>) - the query a registered object or another wrapper
//
// Real code: tl.Marshal twice; tl.Decode into a new value of the wrapper type (naming the type);
// tl.DecodeUnknownObject on the same bytes (reported, not judged: decoding by id is for registered constructors).
// Independent oracle: the bytes the SCHEMA line of the wrapper (schemes/api_latest.tl, c01schema.go's reader)
// defines for the value - id, flags word from the conditional parameters that are not Go-zero, parameters in
// order, `!X` = the bytes of the query (tl.Marshal of a registered object, this writer again for a wrapper).
//
// Result line: enc=<bytes> again=same|diff spec=same|diff|err named=<value|err|panic> unknown=<value|err|panic>

import (
	"bytes"
	"fmt"
	"reflect"
	"strconv"
	"strings"

	"github.com/xelaj/mtproto/internal/encoding/tl"
	"github.com/xelaj/mtproto/telegram"

	"github.com/xelaj/mtproto/verifharness/internal/reg"
)

var c01WrapTypes = []reflect.Type{
	reflect.TypeOf((*telegram.InitConnectionParams)(nil)),
	reflect.TypeOf((*telegram.InvokeWithLayerParams)(nil)),
	reflect.TypeOf((*telegram.InvokeWithTakeoutParams)(nil)),
}

func c01WrapByID() map[uint32]reflect.Type {
	m := map[uint32]reflect.Type{}
	for _, t := range c01WrapTypes {
		if id, ok := reg.CrcOf(t); ok {
			m[id] = t
		}
	}
	return m
}

func c01TyTok(t reflect.Type) string {
	switch {
	case t == tBytes:
		return "bytes"
	case t == tInt128 || t == tInt256:
		return "?"
	}
	switch t.Kind() {
	case reflect.Int32:
		return "i32"
	case reflect.Uint32:
		return "u32"
	case reflect.Int64:
		return "i64"
	case reflect.Float64:
		return "f64"
	case reflect.Bool:
		return "bool"
	case reflect.String:
		return "str"
	case reflect.Slice:
		return "v" + c01TyTok(t.Elem())
	case reflect.Interface:
		return "f" + t.String()
	case reflect.Ptr:
		if id, ok := reg.CrcOf(t); ok {
			return fmt.Sprintf("p%08x", id)
		}
	}
	return "?"
}

// c01WrapDescs: the descriptors of the wrapper structs as the codec sees them through reflection
func c01WrapDescs() string {
	var ds []string
	for _, t := range c01WrapTypes {
		id, _ := reg.CrcOf(t)
		fi := "-"
		if g, ok := reflect.New(t.Elem()).Interface().(tl.FlagIndexGetter); ok {
			fi = strconv.Itoa(g.FlagIndex())
		}
		var fs []string
		for i := 0; i < t.Elem().NumField(); i++ {
			f := t.Elem().Field(i)
			s := c01TyTok(f.Type)
			if tag, ok := f.Tag.Lookup("tl"); ok {
				for k, part := range strings.Split(tag, ",") {
					part = strings.TrimSpace(part)
					if k == 0 && strings.HasPrefix(part, "flag:") {
						s += "@" + strings.TrimPrefix(part, "flag:")
					} else if part == "encoded_in_bitflags" {
						s += "b"
					} else {
						s += "?"
					}
				}
			}
			fs = append(fs, s)
		}
		ds = append(ds, fmt.Sprintf("%08x:%s:%s", id, fi, strings.Join(fs, "/")))
	}
	return strings.Join(ds, ",")
}

// c01SplitTop: o<id>(a;b;c) -> id, [a b c] (separators at nesting depth 0 only)
func c01SplitTop(s string) (uint32, []string, bool) {
	if len(s) < 11 || s[0] != 'o' || s[9] != '(' || s[len(s)-1] != ')' {
		return 0, nil, false
	}
	id, err := strconv.ParseUint(s[1:9], 16, 32)
	if err != nil {
		return 0, nil, false
	}
	body := s[10 : len(s)-1]
	var parts []string
	depth, start := 0, 0
	for i := 0; i < len(body); i++ {
		switch body[i] {
		case '(':
			depth++
		case ')':
			depth--
		case ';':
			if depth == 0 {
				parts = append(parts, body[start:i])
				start = i + 1
			}
		}
	}
	if len(body) > 0 {
		parts = append(parts, body[start:])
	}
	return uint32(id), parts, true
}

// c01ParseWrap: the text of a wrapper (or of a registered object) as a Go value
func c01ParseWrap(s string) reflect.Value {
	id, parts, ok := c01SplitTop(s)
	t := c01WrapByID()[id]
	if !ok || t == nil {
		return parseTLValue(tObject, s).Elem()
	}
	obj := reflect.New(t.Elem())
	st := obj.Elem()
	if len(parts) != st.NumField() {
		panic("wrapper with the wrong number of fields")
	}
	for i := 0; i < st.NumField(); i++ {
		ft := st.Type().Field(i).Type
		if ft == tObject && strings.HasPrefix(parts[i], "o") {
			st.Field(i).Set(c01ParseWrap(parts[i]))
		} else {
			st.Field(i).Set(parseTLValue(ft, parts[i]))
		}
	}
	return obj
}

// c01WrapNested: a wrapper below the top of the value
func c01WrapNested(s string) bool {
	for id := range c01WrapByID() {
		if strings.Contains(s[1:], fmt.Sprintf("o%08x(", id)) {
			return true
		}
	}
	return false
}

// c01WrapSpec: the bytes the schema line defines for a wrapper value (see the head of the file)
func c01WrapSpec(v reflect.Value) ([]byte, error) {
	id, _ := reg.CrcOf(v.Type())
	if c01WrapByID()[id] != v.Type() {
		return tl.Marshal(v.Interface())
	}
	s, err := c01LoadSchema()
	if s == nil {
		return nil, fmt.Errorf("no schema: %v", err)
	}
	d := s.byID[id]
	if d == nil || !d.generic {
		return nil, fmt.Errorf("the schema has no generic function %08x", id)
	}
	st := v.Elem()
	vp := c01ValuePars(d)
	if len(vp) != st.NumField() {
		return nil, fmt.Errorf("%d parameters, %d fields", len(vp), st.NumField())
	}
	var flags uint32
	for i, p := range vp {
		if p.cond && !st.Field(i).IsZero() {
			flags |= 1 << uint(p.bit)
		}
	}
	w := bytes.NewBuffer(nil)
	w.Write(c01LE32(id))
	fi := 0
	for _, p := range d.pars {
		if p.ty == "#" {
			w.Write(c01LE32(flags))
			continue
		}
		f := st.Field(fi)
		fi++
		if p.cond && flags&(1<<uint(p.bit)) == 0 {
			continue
		}
		ty := p.ty
		if q := strings.Index(ty, "?"); q >= 0 {
			ty = ty[q+1:]
		}
		switch {
		case ty == "int" && f.Kind() == reflect.Int32:
			w.Write(c01LE32(uint32(f.Int())))
		case ty == "long" && f.Kind() == reflect.Int64:
			w.Write(c01LE64(uint64(f.Int())))
		case ty == "string" && f.Kind() == reflect.String:
			w.Write(c01TLBytes([]byte(f.String())))
		case ty == "!X" && f.Kind() == reflect.Interface && !f.IsNil():
			b, err := c01WrapSpec(f.Elem())
			if err != nil {
				return nil, err
			}
			w.Write(b)
		case ty != "" && ty[0] >= 'A' && ty[0] <= 'Z' && (f.Kind() == reflect.Interface || f.Kind() == reflect.Ptr) && !f.IsNil():
			b, err := tl.Marshal(f.Interface())
			if err != nil {
				return nil, err
			}
			w.Write(b)
		default:
			return nil, fmt.Errorf("parameter %s:%s against a field of kind %v", p.name, p.ty, f.Kind())
		}
	}
	return w.Bytes(), nil
}

func c01WrapExec(op []string) string {
	if len(op) != 3 || op[1] != c01WrapDescs() {
		return "bad-op" // the descriptors of another tree
	}
	id, _, ok := c01SplitTop(op[2])
	t := c01WrapByID()[id]
	if !ok || t == nil {
		return "bad-op"
	}
	x := c01ParseWrap(op[2])
	var enc []byte
	encS := tlOutcome(func() (string, error) {
		b, err := tl.Marshal(x.Interface())
		enc = b
		return showBytes(b), err
	})
	if encS == "err" || encS == "panic" {
		return "enc=" + encS
	}
	enc2, err2 := tl.Marshal(x.Interface())
	again := "same"
	if err2 != nil || !bytes.Equal(enc, enc2) {
		again = "diff"
	}
	spec := tlOutcome(func() (string, error) {
		b, err := c01WrapSpec(x)
		if err != nil {
			return "", err
		}
		if bytes.Equal(b, enc) {
			return "same", nil
		}
		return "diff", nil
	})
	named := tlOutcome(func() (string, error) {
		res := reflect.New(t.Elem())
		err := tl.Decode(enc, res.Interface())
		return dumpVal(res), err
	})
	unk := tlOutcome(func() (string, error) {
		o, err := tl.DecodeUnknownObject(enc)
		if err != nil {
			return "", err
		}
		return dumpAny(o), nil
	})
	return fmt.Sprintf("enc=%s again=%s spec=%s named=%s unknown=%s", encS, again, spec, named, unk)
}

func c01WrapJudge(op []string, out string) string {
	if len(op) != 3 || out == "bad-op" || out == "enc=err" {
		return ""
	}
	f := map[string]string{}
	for _, part := range strings.Fields(out) {
		if kv := strings.SplitN(part, "=", 2); len(kv) == 2 {
			f[kv[0]] = kv[1]
		}
	}
	if f["again"] != "same" {
		return "serialising the same wrapper value twice gave different bytes"
	}
	if f["spec"] != "same" {
		return "the bytes of the wrapper are not what its schema line defines (id, flags word, parameters in order, the query last): spec=" + f["spec"]
	}
	// naming the type: the wrapper itself is decoded as named; what it wraps is decoded by constructor id, which
	// is for registered constructors - a wrapper INSIDE a wrapper is not one (observation, docs/C01.md)
	if c01WrapNested(op[2]) {
		return ""
	}
	if eraseNil(f["named"]) != eraseNil(op[2]) {
		return "decoding (naming the wrapper type) the encoded wrapper does not return the original: got " + clip(f["named"])
	}
	return ""
}

// c01WrapOps: every wrapper around registered method-parameter objects of many shapes (drawn at random among the
// registered constructors named ...Params, plus other registered objects), InitConnection with Proxy / Params
// present and absent in all four combinations, strings around the header switch, wrappers inside wrappers.
func c01WrapOps(g *G, tg *tlGen) {
	saveCanon, saveBig := tg.alwaysCanon, tg.bigStrings
	tg.alwaysCanon, tg.bigStrings = true, false
	defer func() { tg.alwaysCanon, tg.bigStrings = saveCanon, saveBig }()
	var methods []*reg.Ctor
	all := reg.All()
	for i := range all {
		if all[i].Kind == "struct" && marshalable(&all[i]) && strings.HasSuffix(all[i].Name, "Params") {
			methods = append(methods, &all[i])
		}
	}
	if len(methods) == 0 {
		return
	}
	descs := c01WrapDescs()
	query := func() reflect.Value {
		for {
			c := methods[g.R.Intn(len(methods))]
			obj := tg.object(c, g.R.Intn(tg.maxDepth))
			if isCanonicalBy(obj, c01SchemaFields) && len(dumpDyn(obj)) < 4000 {
				return obj
			}
		}
	}
	// a wrapper of type t around q
	wrap := func(t reflect.Type, q reflect.Value, pattern int) reflect.Value {
		obj := reflect.New(t.Elem())
		st := obj.Elem()
		for i := 0; i < st.NumField(); i++ {
			f := st.Type().Field(i)
			_, tagged := f.Tag.Lookup("tl")
			switch {
			case f.Type == tObject:
				st.Field(i).Set(q)
			case tagged:
				if pattern&1 != 0 {
					st.Field(i).Set(tg.value(f.Type, tg.maxDepth-1, true))
				}
				pattern >>= 1
			default:
				st.Field(i).Set(tg.value(f.Type, tg.maxDepth, true))
			}
		}
		return obj
	}
	n := 0
	emit := func(v reflect.Value, tags ...string) {
		n++
		g.Emit(fmt.Sprintf("c01.wrap %s %s", descs, dumpDyn(v)), append([]string{"wrapper"}, tags...)...)
	}
	for k := 0; k < g.N(30, 300); k++ {
		for ti, t := range c01WrapTypes {
			nTagged := 0
			for i := 0; i < t.Elem().NumField(); i++ {
				if _, ok := t.Elem().Field(i).Tag.Lookup("tl"); ok {
					nTagged++
				}
			}
			for pattern := 0; pattern < 1<<uint(nTagged); pattern++ {
				emit(wrap(t, query(), pattern), fmt.Sprintf("wrapper:%d:pattern-%d", ti, pattern))
			}
		}
	}
	// wrappers inside wrappers: the way the client opens a connection - InvokeWithLayer(InitConnection(query)) - and
	// every other pair
	for k := 0; k < g.N(4, 40); k++ {
		for _, outer := range c01WrapTypes {
			for _, inner := range c01WrapTypes {
				emit(wrap(outer, wrap(inner, query(), g.R.Intn(4)), g.R.Intn(4)), "wrapper:nested")
			}
		}
	}
	g.Extra["wrapper_operations"] = n
}
