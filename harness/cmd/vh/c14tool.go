package main

// C14 — running the real generator: the tlgen binary is built from the working tree this harness was
// built against, run in scratch directories under the run's -dir, its output compiled offline in a
// scratch module together with a stub Client, and read back with go/ast.

import (
	"bytes"
	"fmt"
	"go/ast"
	"go/parser"
	"go/token"
	"os"
	"os/exec"
	"path/filepath"
	"reflect"
	"runtime"
	"sort"
	"strconv"
	"strings"

	"github.com/xelaj/mtproto/internal/cmd/tlgen/gen"
	"github.com/xelaj/mtproto/internal/cmd/tlgen/tlparser"
)

var (
	c14Root     string // repository working tree the harness was built against
	c14Scratch  string // <run dir>/c14-scratch, removed by Teardown
	c14Tlgen    string // path of the built generator ("" = not built yet)
	c14TlgenErr string
	c14Extra    map[string]interface{}
	c14Seq      int
)

func c14Setup(g *G) {
	// the tree the real packages were compiled from
	f := runtime.FuncForPC(reflect.ValueOf(tlparser.ParseSchema).Pointer())
	file, _ := f.FileLine(f.Entry())
	// …/internal/cmd/tlgen/tlparser/parser.go
	c14Root = filepath.Clean(filepath.Join(filepath.Dir(file), "..", "..", "..", ".."))
	dir := "."
	for i, a := range os.Args {
		if a == "-dir" && i+1 < len(os.Args) {
			dir = os.Args[i+1]
		}
	}
	abs, _ := filepath.Abs(dir)
	c14Scratch = filepath.Join(abs, "c14-scratch")
	c14Extra = g.Extra
	g.Extra["repo_root"] = c14Root
}

func c14Teardown() {
	if c14Scratch != "" {
		_ = os.RemoveAll(c14Scratch)
	}
}

func c14GoEnv() []string {
	env := os.Environ()
	env = append(env, "GOFLAGS=-mod=mod", "GOPROXY=off", "GOSUMDB=off", "GOTOOLCHAIN=local", "CGO_ENABLED=0")
	return env
}

func c14Run(dir string, name string, args ...string) (string, error) {
	cmd := exec.Command(name, args...)
	cmd.Dir = dir
	cmd.Env = c14GoEnv()
	var out bytes.Buffer
	cmd.Stdout, cmd.Stderr = &out, &out
	err := cmd.Run()
	return out.String(), err
}

func c14Note(key, val string) {
	if c14Extra == nil {
		return
	}
	if _, ok := c14Extra[key]; !ok {
		c14Extra[key] = clip(val)
	}
}

// c14BuildTlgen builds internal/cmd/tlgen of the working tree (its own module; a copy of its go.mod is
// used as -modfile so that nothing is written into the tree).
func c14BuildTlgen() bool {
	if c14Tlgen != "" {
		return true
	}
	if c14TlgenErr != "" {
		return false
	}
	mod := filepath.Join(c14Root, "internal", "cmd", "tlgen")
	bdir := filepath.Join(c14Scratch, "build")
	_ = os.MkdirAll(bdir, 0o755)
	for _, n := range []string{"go.mod", "go.sum"} {
		b, err := os.ReadFile(filepath.Join(mod, n))
		if err != nil {
			c14TlgenErr = err.Error()
			return false
		}
		_ = os.WriteFile(filepath.Join(bdir, n), b, 0o644)
	}
	bin := filepath.Join(bdir, "tlgen")
	out, err := c14Run(mod, "go", "build", "-modfile", filepath.Join(bdir, "go.mod"), "-o", bin, ".")
	if err != nil {
		c14TlgenErr = out
		c14Note("tlgen_build_error", out)
		return false
	}
	c14Tlgen = bin
	return true
}

var c14GenFiles = []string{"enums_gen.go", "init_gen.go", "interfaces_gen.go", "methods_gen.go", "types_gen.go"}

const c14Stub = `package telegram

import "github.com/xelaj/mtproto/internal/encoding/tl"

// Client stands in for the hand-written telegram.Client: the generated methods need nothing else of it.
type Client struct{}

func (c *Client) MakeRequest(msg tl.Object) (interface{}, error) { return nil, nil }
`

type c14GenResult struct {
	status string // "gen=ok same=1 build=ok vet=ok" or the failing prefix
	dir    string // first output directory
	ok     bool
}

// c14Generate: run the generator twice on schemaFile, compare, compile.
func c14Generate(schemaFile string) c14GenResult {
	if !c14BuildTlgen() {
		return c14GenResult{status: "gen=fail:tlgen-does-not-build"}
	}
	c14Seq++
	work := filepath.Join(c14Scratch, fmt.Sprintf("g%d", c14Seq))
	o1, o2 := filepath.Join(work, "out1"), filepath.Join(work, "out2")
	_ = os.MkdirAll(o1, 0o755)
	_ = os.MkdirAll(o2, 0o755)
	for i, o := range []string{o1, o2} {
		if i == 1 {
			// the second generation goes where `go generate` puts it: into a directory that already holds
			// generated files — here those of the first run followed by the tail of a longer, older
			// generation. The result must not depend on what was there before.
			for _, n := range c14GenFiles {
				if b, err := os.ReadFile(filepath.Join(o1, n)); err == nil {
					stale := append(b, []byte(strings.Repeat("\n// stale line of an earlier, longer generation\nfunc (", 40))...)
					_ = os.WriteFile(filepath.Join(o2, n), stale, 0o644)
				}
			}
		}
		out, err := c14Run(work, c14Tlgen, schemaFile, o)
		if err != nil {
			c14Note("tlgen_run_error", out)
			cls := "error"
			if strings.Contains(out, "panic:") {
				cls = "panic"
			} else if strings.Contains(out, "parse schema file") {
				cls = "parse"
			} else if strings.Contains(out, "while formatting source") {
				cls = "unformattable-output"
			}
			return c14GenResult{status: "gen=fail:" + cls, dir: o1}
		}
	}
	same := "1"
	for _, n := range c14GenFiles {
		a, e1 := os.ReadFile(filepath.Join(o1, n))
		b, e2 := os.ReadFile(filepath.Join(o2, n))
		if e1 != nil || e2 != nil || !bytes.Equal(a, b) {
			same = "0"
			c14Note("not_reproducible_file", n)
		}
	}
	// compile: a scratch module below the repository's module path (so that it may import internal/…)
	mod := filepath.Join(work, "mod")
	pkg := filepath.Join(mod, "telegram")
	_ = os.MkdirAll(pkg, 0o755)
	for _, n := range c14GenFiles {
		b, _ := os.ReadFile(filepath.Join(o1, n))
		_ = os.WriteFile(filepath.Join(pkg, n), b, 0o644)
	}
	_ = os.WriteFile(filepath.Join(pkg, "stub_client.go"), []byte(c14Stub), 0o644)
	gomod := "module github.com/xelaj/mtproto/verifgen\n\ngo 1.21\n\nrequire github.com/xelaj/mtproto v0.0.0\n\nreplace github.com/xelaj/mtproto => " + c14Root + "\n"
	_ = os.WriteFile(filepath.Join(mod, "go.mod"), []byte(gomod), 0o644)
	if b, err := os.ReadFile(filepath.Join(c14Root, "go.sum")); err == nil {
		_ = os.WriteFile(filepath.Join(mod, "go.sum"), b, 0o644)
	}
	build, vet := "ok", "ok"
	if out, err := c14Run(mod, "go", "build", "./telegram"); err != nil {
		build, vet = "fail", "skipped"
		c14Note("go_build_error", out)
	} else if out, err := c14Run(mod, "go", "vet", "./telegram"); err != nil {
		vet = "fail"
		c14Note("go_vet_error", out)
	}
	st := fmt.Sprintf("gen=ok same=%s build=%s vet=%s", same, build, vet)
	return c14GenResult{status: st, dir: o1, ok: true}
}

func c14GenOp(tag, text string) string {
	c14Seq++
	work := filepath.Join(c14Scratch, fmt.Sprintf("s%d", c14Seq))
	_ = os.MkdirAll(work, 0o755)
	sf := filepath.Join(work, "schema.tl")
	_ = os.WriteFile(sf, []byte(text), 0o644)
	res := c14Generate(sf)
	if !res.ok {
		return res.status
	}
	r, timedOut := c14RunParser(text)
	if timedOut || r.err != nil || r.s == nil {
		return res.status + " D=unparsed"
	}
	return res.status + " D=" + c14Show(c14ReadDecls(res.dir, r.s))
}

func c14Shipped(rel string) string {
	path := filepath.Join(c14Root, filepath.FromSlash(rel))
	b, err := os.ReadFile(path)
	if err != nil {
		return "parse=unreadable"
	}
	r, timedOut := c14RunParser(string(b))
	if timedOut {
		return "loop"
	}
	if r.panic != "" {
		return "panic:" + r.panic
	}
	if r.err != nil {
		c14Note("shipped_parse_error", r.err.Error())
		return "parse=fail:" + c14ErrClass(r.err)
	}
	res := c14Generate(path)
	if res.ok {
		// report (do not judge) how far the shipped generated files are from a fresh generation
		diff := map[string]string{}
		for _, n := range c14GenFiles {
			a, _ := os.ReadFile(filepath.Join(res.dir, n))
			s, err := os.ReadFile(filepath.Join(c14Root, "telegram", n))
			switch {
			case err != nil:
				diff[n] = "no shipped file"
			case bytes.Equal(a, s):
				diff[n] = "identical"
			default:
				diff[n] = fmt.Sprintf("differs (fresh %d lines, shipped %d lines)", bytes.Count(a, []byte("\n")), bytes.Count(s, []byte("\n")))
			}
		}
		if c14Extra != nil {
			c14Extra["shipped_vs_fresh_generation"] = diff
		}
	}
	return "parse=ok " + res.status
}

// ---- several generations from ONE parsed schema object, in this process -----------------------------------
//
// The tlgen binary parses, generates once and exits: whatever a generation leaves behind in the parsed
// schema (or in the generator) dies with the process. A program that uses tlparser + gen as libraries
// generates again from the same *tlparser.Schema. c14.regen parses ONCE, then generates from that same
// object: generator A; generator B; generator B once more (the same Generator object, over its own
// output); generator C — each into a fresh directory — and finally from a fresh parse of the same text.
// Demanded: every generation succeeds if the first did, all outputs are byte-identical to the first, and
// the parsed schema object (every slice up to its capacity, the comment map) is what it was before.

// c14DeepDump renders everything reachable from the schema, slices up to their capacity. sorted: the
// definition lines (within len) in lexical order, nothing beyond len — equal sorted dumps with unequal
// plain dumps mean "the same definitions, each intact, in another order".
func c14DeepDump(s *tlparser.Schema) string { return c14DeepDumpOrd(s, false) }

func c14DeepDumpOrd(s0 *tlparser.Schema, sorted bool) string {
	s := s0
	if sorted {
		c := *s0
		c.Objects = append([]tlparser.Object(nil), s0.Objects...)
		c.Methods = append([]tlparser.Method(nil), s0.Methods...)
		sort.SliceStable(c.Objects, func(i, j int) bool {
			return fmt.Sprintf("%#v", c.Objects[i]) < fmt.Sprintf("%#v", c.Objects[j])
		})
		sort.SliceStable(c.Methods, func(i, j int) bool {
			return fmt.Sprintf("%#v", c.Methods[i]) < fmt.Sprintf("%#v", c.Methods[j])
		})
		s = &c
	}
	var b strings.Builder
	ps := func(p []tlparser.Parameter) {
		fmt.Fprintf(&b, "[%d/%d", len(p), cap(p))
		for _, x := range p[:cap(p)] {
			fmt.Fprintf(&b, " %#v", x)
		}
		b.WriteString("]")
	}
	fmt.Fprintf(&b, "objects %d/%d\n", len(s.Objects), cap(s.Objects))
	for _, o := range s.Objects[:cap(s.Objects)] {
		fmt.Fprintf(&b, "o %q %q %d %q ", o.Name, o.Comment, o.CRC, o.Interface)
		ps(o.Parameters)
		b.WriteString("\n")
	}
	fmt.Fprintf(&b, "methods %d/%d\n", len(s.Methods), cap(s.Methods))
	for _, m := range s.Methods[:cap(s.Methods)] {
		fmt.Fprintf(&b, "m %q %q %d %#v ", m.Name, m.Comment, m.CRC, m.Response)
		ps(m.Parameters)
		b.WriteString("\n")
	}
	var keys []string
	for k := range s.TypeComments {
		keys = append(keys, k)
	}
	sort.Strings(keys)
	fmt.Fprintf(&b, "typecomments nil=%v\n", s.TypeComments == nil)
	for _, k := range keys {
		fmt.Fprintf(&b, "t %q %q\n", k, s.TypeComments[k])
	}
	return b.String()
}

// c14FirstDiffLine: the first line in which two dumps differ (for the run's notes).
func c14FirstDiffLine(a, b string) string {
	al, bl := strings.Split(a, "\n"), strings.Split(b, "\n")
	for i := 0; i < len(al) || i < len(bl); i++ {
		x, y := "<none>", "<none>"
		if i < len(al) {
			x = al[i]
		}
		if i < len(bl) {
			y = bl[i]
		}
		if x != y {
			return "before: " + x + " | after: " + y
		}
	}
	return ""
}

// c14GenInProcess: one Generate() of generator g (made from s into dir when g == nil); "ok", "err", "panic".
func c14GenInProcess(s *tlparser.Schema, g **gen.Generator, dir string) (status string) {
	defer func() {
		if r := recover(); r != nil {
			status = "panic"
			c14Note("regen_panic", fmt.Sprint(r))
		}
	}()
	if *g == nil {
		_ = os.MkdirAll(dir, 0o755)
		ng, err := gen.NewGenerator(s, "", dir)
		if err != nil {
			c14Note("regen_error", err.Error())
			return "err"
		}
		*g = ng
	}
	if err := (*g).Generate(); err != nil {
		c14Note("regen_error", err.Error())
		return "err"
	}
	return "ok"
}

func c14ReadGen(dir string) map[string][]byte {
	m := map[string][]byte{}
	for _, n := range c14GenFiles {
		if b, err := os.ReadFile(filepath.Join(dir, n)); err == nil {
			m[n] = b
		}
	}
	return m
}

func c14SameGen(a, b map[string][]byte) bool {
	if len(a) != len(c14GenFiles) || len(b) != len(c14GenFiles) {
		return false
	}
	for _, n := range c14GenFiles {
		if !bytes.Equal(a[n], b[n]) {
			return false
		}
	}
	return true
}

const c14RegenOK = "gens=ok,ok,ok,ok same=1 schema=unchanged fresh=1"

func c14Regen(text string) string {
	r, timedOut := c14RunParser(text)
	if timedOut || r.panic != "" || r.err != nil || r.s == nil {
		return "regen=unparsed"
	}
	s := r.s
	before, beforeSorted := c14DeepDump(s), c14DeepDumpOrd(s, true)
	c14Seq++
	work := filepath.Join(c14Scratch, fmt.Sprintf("r%d", c14Seq))
	defer os.RemoveAll(work)
	var gA, gB, gC, gF *gen.Generator
	type run struct {
		g   **gen.Generator
		dir string
	}
	runs := []run{{&gA, "a"}, {&gB, "b"}, {&gB, "b"}, {&gC, "c"}}
	var st []string
	var first map[string][]byte
	same := "1"
	for i, ru := range runs {
		dir := filepath.Join(work, ru.dir)
		status := c14GenInProcess(s, ru.g, dir)
		st = append(st, status)
		if i == 0 {
			if status != "ok" {
				return "gens=fail" // the schema is not one the generator accepts at all: nothing to repeat
			}
			first = c14ReadGen(dir)
			continue
		}
		if status != "ok" || !c14SameGen(first, c14ReadGen(dir)) {
			same = "0"
			c14Note("regen_generation_differs", fmt.Sprintf("generation %d of %d from the same parsed schema: %s", i+1, len(runs), status))
		}
	}
	schema := "unchanged"
	if after := c14DeepDump(s); after != before {
		schema = "changed"
		if c14DeepDumpOrd(s, true) == beforeSorted {
			schema = "reordered" // every definition intact, only the order of the caller's Objects / Methods differs
		}
		c14Note("regen_schema_"+schema, c14FirstDiffLine(before, after))
	}
	fresh := "0"
	if r2, t2 := c14RunParser(text); !t2 && r2.err == nil && r2.panic == "" && r2.s != nil {
		dir := filepath.Join(work, "f")
		if c14GenInProcess(r2.s, &gF, dir) == "ok" && c14SameGen(first, c14ReadGen(dir)) {
			fresh = "1"
		}
	}
	return fmt.Sprintf("gens=%s same=%s schema=%s fresh=%s", strings.Join(st, ","), same, schema, fresh)
}

// ---- reading the generated declarations back (go/ast) -------------------------------------------------------

type c14Struct struct {
	name      string
	file      string
	fields    []*ast.Field
	crc       int64 // -1: no CRC method
	flagIdx   string
	implement []string
}

func c14IntLit(e ast.Expr) (int64, bool) {
	if l, ok := e.(*ast.BasicLit); ok && l.Kind == token.INT {
		v, err := strconv.ParseInt(l.Value, 0, 64)
		return v, err == nil
	}
	return 0, false
}

func c14RetLit(fd *ast.FuncDecl) (int64, bool) {
	if fd.Body == nil || len(fd.Body.List) != 1 {
		return 0, false
	}
	rs, ok := fd.Body.List[0].(*ast.ReturnStmt)
	if !ok || len(rs.Results) != 1 {
		return 0, false
	}
	return c14IntLit(rs.Results[0])
}

func c14RecvName(fd *ast.FuncDecl) string {
	if fd.Recv == nil || len(fd.Recv.List) != 1 {
		return ""
	}
	t := fd.Recv.List[0].Type
	if s, ok := t.(*ast.StarExpr); ok {
		t = s.X
	}
	if id, ok := t.(*ast.Ident); ok {
		return id.Name
	}
	return ""
}

// c14ReadDecls describes the generated package in terms of the schema: one entry per constructor id.
func c14ReadDecls(dir string, s *tlparser.Schema) string {
	fset := token.NewFileSet()
	structs := map[string]*c14Struct{}
	enumTypes := map[string]bool{}  // Go names of `type X uint32`
	ifaceTypes := map[string]bool{} // Go names of interfaces
	type enumConst struct {
		name, typ string
		crc       int64
	}
	var consts []enumConst
	type method struct {
		name   string
		params []*ast.Field
		result ast.Expr
		arg    string // the Params type handed to MakeRequest
	}
	var methods []method
	for _, fn := range c14GenFiles {
		f, err := parser.ParseFile(fset, filepath.Join(dir, fn), nil, 0)
		if err != nil {
			return "unparsable:" + fn
		}
		for _, d := range f.Decls {
			switch d := d.(type) {
			case *ast.GenDecl:
				for _, sp := range d.Specs {
					switch sp := sp.(type) {
					case *ast.TypeSpec:
						switch t := sp.Type.(type) {
						case *ast.StructType:
							structs[sp.Name.Name] = &c14Struct{name: sp.Name.Name, file: fn, fields: t.Fields.List, crc: -1, flagIdx: "-"}
						case *ast.InterfaceType:
							ifaceTypes[sp.Name.Name] = true
						case *ast.Ident:
							if t.Name == "uint32" {
								enumTypes[sp.Name.Name] = true
							}
						}
					case *ast.ValueSpec:
						if d.Tok == token.CONST && len(sp.Names) == 1 && len(sp.Values) == 1 {
							if id, ok := sp.Type.(*ast.Ident); ok {
								if v, ok := c14IntLit(sp.Values[0]); ok {
									consts = append(consts, enumConst{sp.Names[0].Name, id.Name, v})
								}
							}
						}
					}
				}
			case *ast.FuncDecl:
				recv := c14RecvName(d)
				switch {
				case recv == "Client":
					m := method{name: d.Name.Name, params: d.Type.Params.List}
					if d.Type.Results != nil && len(d.Type.Results.List) > 0 {
						m.result = d.Type.Results.List[0].Type
					}
					// responseData, err := c.MakeRequest(&XParams{…}) | c.MakeRequest(params)
					ast.Inspect(d.Body, func(n ast.Node) bool {
						if ce, ok := n.(*ast.CallExpr); ok {
							if se, ok := ce.Fun.(*ast.SelectorExpr); ok && se.Sel.Name == "MakeRequest" && len(ce.Args) == 1 {
								switch a := ce.Args[0].(type) {
								case *ast.UnaryExpr:
									if cl, ok := a.X.(*ast.CompositeLit); ok {
										if id, ok := cl.Type.(*ast.Ident); ok {
											m.arg = id.Name
										}
									}
								case *ast.Ident:
									for _, p := range d.Type.Params.List {
										if len(p.Names) == 1 && p.Names[0].Name == a.Name {
											if st, ok := p.Type.(*ast.StarExpr); ok {
												if id, ok := st.X.(*ast.Ident); ok {
													m.arg = id.Name
												}
											}
										}
									}
								}
							}
						}
						return true
					})
					methods = append(methods, m)
				case recv != "" && structs[recv] != nil:
					st := structs[recv]
					switch {
					case d.Name.Name == "CRC":
						if v, ok := c14RetLit(d); ok {
							st.crc = v
						}
					case d.Name.Name == "FlagIndex":
						if v, ok := c14RetLit(d); ok {
							st.flagIdx = fmt.Sprint(v)
						}
					case strings.HasPrefix(d.Name.Name, "Implements"):
						st.implement = append(st.implement, strings.TrimPrefix(d.Name.Name, "Implements"))
					}
				}
			}
		}
	}
	// the schema's side: constructor id → definition
	type sdef struct {
		name, iface string
		fn          bool
	}
	byCRC := map[int64]sdef{}
	for _, o := range s.Objects {
		byCRC[int64(o.CRC)] = sdef{o.Name, o.Interface, false}
	}
	for _, m := range s.Methods {
		byCRC[int64(m.CRC)] = sdef{m.Name, "", true}
	}
	// Go type name → what it stands for in the schema
	goType := map[string]string{}
	for _, c := range consts {
		if d, ok := byCRC[c.crc]; ok && enumTypes[c.typ] {
			goType[c.typ] = "E:" + c14Esc(d.iface)
		}
	}
	for _, st := range structs {
		d, ok := byCRC[st.crc]
		if !ok {
			continue
		}
		goType["*"+st.name] = "S:" + c14Esc(d.name)
		for _, im := range st.implement {
			if ifaceTypes[im] {
				goType[im] = "I:" + c14Esc(d.iface)
			}
		}
	}
	var typeStr func(e ast.Expr) string
	typeStr = func(e ast.Expr) string {
		switch t := e.(type) {
		case *ast.Ident:
			switch t.Name {
			case "int32", "int64", "float64", "string", "bool":
				return t.Name
			}
			if v, ok := goType[t.Name]; ok {
				return v
			}
			return "?" + t.Name
		case *ast.StarExpr:
			if id, ok := t.X.(*ast.Ident); ok {
				if v, ok := goType["*"+id.Name]; ok {
					return v
				}
				return "?*" + id.Name
			}
		case *ast.ArrayType:
			if t.Len == nil {
				if id, ok := t.Elt.(*ast.Ident); ok && id.Name == "byte" {
					return "bytes"
				}
				return "[]" + typeStr(t.Elt)
			}
		}
		return "?"
	}
	objFlag := func(goName, tlName, suffix string) string {
		n := strings.ToLower(goName)
		switch n {
		case c14Norm(tlName) + suffix:
			return "0"
		case c14Norm(tlName) + "obj" + suffix:
			return "1"
		}
		return "?" + goName
	}
	var entries []struct {
		crc int64
		ord int
		txt string
	}
	add := func(crc int64, ord int, txt string) {
		entries = append(entries, struct {
			crc int64
			ord int
			txt string
		}{crc, ord, txt})
	}
	paramsType := map[string]int64{} // Go name of a …Params struct → its id
	for _, st := range structs {
		d, ok := byCRC[st.crc]
		if !ok {
			add(st.crc, 0, fmt.Sprintf("(d %d undeclared-in-schema:%s)", st.crc, st.name))
			continue
		}
		kind, obj := "", ""
		switch {
		case d.fn:
			kind, obj = "params", objFlag(st.name, d.name, "params")
			paramsType[st.name] = st.crc
			if st.file != "methods_gen.go" {
				kind += "@" + st.file
			}
		case st.file == "types_gen.go":
			kind, obj = "single", objFlag(st.name, d.name, "")
		case st.file == "interfaces_gen.go":
			kind, obj = "iface:"+c14Esc(d.iface), objFlag(st.name, d.name, "")
			if len(st.implement) != 1 || goType[st.implement[0]] != "I:"+c14Esc(d.iface) {
				kind += "!implements=" + strings.Join(st.implement, ",")
			}
		default:
			kind, obj = "struct@"+st.file, objFlag(st.name, d.name, "")
		}
		var fs strings.Builder
		for _, f := range st.fields {
			tag := "-"
			if f.Tag != nil {
				if v, err := strconv.Unquote(f.Tag.Value); err == nil {
					tag = reflect.StructTag(v).Get("tl")
				}
			}
			for _, nm := range f.Names {
				// a trailing underscore is how the generator keeps a field apart from a method of the struct
				// (CRC, FlagIndex, Implements…): field names are compared up to case and that escape, like arguments
				fmt.Fprintf(&fs, " (f %s %s %s)", strings.ToLower(strings.TrimSuffix(nm.Name, "_")), typeStr(f.Type), tag)
			}
		}
		add(st.crc, 0, fmt.Sprintf("(d %d %s %s %s%s)", st.crc, kind, obj, st.flagIdx, fs.String()))
	}
	for _, c := range consts {
		d, ok := byCRC[c.crc]
		if !ok || !enumTypes[c.typ] {
			add(c.crc, 0, fmt.Sprintf("(d %d undeclared-in-schema:%s)", c.crc, c.name))
			continue
		}
		add(c.crc, 0, fmt.Sprintf("(d %d enum:%s %s -)", c.crc, c14Esc(d.iface), objFlag(c.name, d.name, "")))
	}
	for _, m := range methods {
		crc, ok := paramsType[m.arg]
		if !ok {
			add(-1, 1, "(fn ?"+m.name+")")
			continue
		}
		d := byCRC[crc]
		res := "?"
		if m.result != nil {
			res = typeStr(m.result)
		}
		if f := objFlag(m.name, d.name, ""); f != "0" {
			res += "!name=" + m.name
		}
		var as strings.Builder
		for _, p := range m.params {
			for _, nm := range p.Names {
				t := typeStr(p.Type)
				if st, ok := p.Type.(*ast.StarExpr); ok {
					if id, ok := st.X.(*ast.Ident); ok && id.Name == m.arg {
						t = "P"
					}
				}
				// an argument named like a Go keyword or like an identifier of the method body carries a trailing "_"
				fmt.Fprintf(&as, " (a %s %s)", strings.ToLower(strings.TrimSuffix(nm.Name, "_")), t)
			}
		}
		add(crc, 1, fmt.Sprintf("(fn %d %s%s)", crc, res, as.String()))
	}
	sort.Slice(entries, func(i, j int) bool {
		if entries[i].crc != entries[j].crc {
			return entries[i].crc < entries[j].crc
		}
		if entries[i].ord != entries[j].ord {
			return entries[i].ord < entries[j].ord
		}
		return entries[i].txt < entries[j].txt
	})
	parts := make([]string, len(entries))
	for i, e := range entries {
		parts[i] = e.txt
	}
	return strings.Join(parts, " ")
}

// ---- classification as createInternalSchema computes it (read by reflection) -----------------------------

func c14Classify(text string) string {
	r, timedOut := c14RunParser(text)
	switch {
	case timedOut:
		return "loop"
	case r.panic != "":
		return "panic:" + r.panic
	case r.err != nil:
		return "err:" + c14ErrClass(r.err)
	}
	g, err := gen.NewGenerator(r.s, "", os.TempDir())
	if err != nil {
		return "err:generator"
	}
	is := reflect.ValueOf(g).Elem().FieldByName("schema").Elem()
	group := func(m reflect.Value) string { // map[string][]T with a Name field
		var keys []string
		for _, k := range m.MapKeys() {
			keys = append(keys, k.String())
		}
		sort.Strings(keys)
		var parts []string
		for _, k := range keys {
			v := m.MapIndex(reflect.ValueOf(k))
			var names []string
			for i := 0; i < v.Len(); i++ {
				names = append(names, c14Esc(v.Index(i).FieldByName("Name").String()))
			}
			parts = append(parts, c14Esc(k)+":"+strings.Join(names, ","))
		}
		if len(parts) == 0 {
			return "-"
		}
		return strings.Join(parts, ";")
	}
	singles := map[string][]string{}
	sv := is.FieldByName("SingleInterfaceTypes")
	for i := 0; i < sv.Len(); i++ {
		o := sv.Index(i)
		t := o.FieldByName("Interface").String()
		singles[t] = append(singles[t], c14Esc(o.FieldByName("Name").String()))
	}
	var keys []string
	for k := range singles {
		keys = append(keys, k)
	}
	sort.Strings(keys)
	var sp []string
	for _, k := range keys {
		sp = append(sp, c14Esc(k)+":"+strings.Join(singles[k], ","))
	}
	ss := "-"
	if len(sp) > 0 {
		ss = strings.Join(sp, ";")
	}
	return fmt.Sprintf("enums=%s singles=%s types=%s", group(is.FieldByName("Enums")), ss, group(is.FieldByName("Types")))
}

// ---- go/ast facts about map iteration in gen/ -----------------------------------------------------------------
//
// Supporting evidence for reproducibility only (map order is runtime behaviour; byte identity of two
// runs is what is observed): every `range` over a map in gen/ must be one of the known sites, and each
// sort that puts the derived data in order before emission must be present.

func c14SortFact() string {
	dir := filepath.Join(c14Root, "internal", "cmd", "tlgen", "gen")
	fset := token.NewFileSet()
	pkgs, err := parser.ParseDir(fset, dir, func(fi os.FileInfo) bool { return !strings.HasSuffix(fi.Name(), "_test.go") }, 0)
	if err != nil {
		return "maprange unparsable"
	}
	// names bound to a map: struct fields of map type, local variables made with make(map…)
	mapNames := map[string]bool{}
	var files []*ast.File
	for _, p := range pkgs {
		for _, f := range p.Files {
			files = append(files, f)
		}
	}
	for _, f := range files {
		ast.Inspect(f, func(n ast.Node) bool {
			switch n := n.(type) {
			case *ast.Field:
				if _, ok := n.Type.(*ast.MapType); ok {
					for _, nm := range n.Names {
						mapNames[nm.Name] = true
					}
				}
			case *ast.AssignStmt:
				for i, rhs := range n.Rhs {
					if ce, ok := rhs.(*ast.CallExpr); ok {
						if id, ok := ce.Fun.(*ast.Ident); ok && id.Name == "make" && len(ce.Args) > 0 {
							if _, ok := ce.Args[0].(*ast.MapType); ok && i < len(n.Lhs) {
								if l, ok := n.Lhs[i].(*ast.Ident); ok {
									mapNames[l.Name] = true
								}
							}
						}
					}
					if cl, ok := rhs.(*ast.CompositeLit); ok {
						if _, ok := cl.Type.(*ast.MapType); ok && i < len(n.Lhs) {
							if l, ok := n.Lhs[i].(*ast.Ident); ok {
								mapNames[l.Name] = true
							}
						}
					}
				}
			case *ast.ValueSpec:
				if _, ok := n.Type.(*ast.MapType); ok {
					for _, nm := range n.Names {
						mapNames[nm.Name] = true
					}
				}
			}
			return true
		})
	}
	exprText := func(e ast.Expr) string {
		var b bytes.Buffer
		var w func(e ast.Expr)
		w = func(e ast.Expr) {
			switch t := e.(type) {
			case *ast.Ident:
				b.WriteString(t.Name)
			case *ast.SelectorExpr:
				w(t.X)
				b.WriteString("." + t.Sel.Name)
			default:
				b.WriteString("?")
			}
		}
		w(e)
		return b.String()
	}
	lastName := func(e ast.Expr) string {
		switch t := e.(type) {
		case *ast.Ident:
			return t.Name
		case *ast.SelectorExpr:
			return t.Sel.Name
		}
		return ""
	}
	knownRanges := map[string]bool{
		"createInternalSchema:reversedObjects":   true, // fills maps and SingleInterfaceTypes (sorted in generateSpecificStructs)
		"getAllConstructors:g.schema.Types":      true, // sorted in createInitStructs
		"getAllConstructors:g.schema.Enums":      true, // sorted in createInitEnums
		"generateEnumDefinitions:g.schema.Enums": true, // keys sorted in place
		"generateInterfaces:g.schema.Types":      true, // keys sorted in place
	}
	wantSorts := map[string]bool{
		"generateSpecificStructs:sort.Slice(g.schema.SingleInterfaceTypes)": false,
		"createInitStructs:sort.Strings(itemNames)":                         false,
		"createInitEnums:sort.Strings(itemNames)":                           false,
		"generateEnumDefinitions:sort.Strings(enumTypes)":                   false,
		"generateEnumDefinitions:sort.Slice(values)":                        false,
		"generateInterfaces:sort.Strings(keys)":                             false,
		"generateInterfaces:sort.Slice(structs)":                            false,
		"generateMethods:sort.Slice(g.schema.Methods)":                      false,
	}
	var unknown []string
	nRanges := 0
	for _, f := range files {
		for _, d := range f.Decls {
			fd, ok := d.(*ast.FuncDecl)
			if !ok || fd.Body == nil {
				continue
			}
			ast.Inspect(fd.Body, func(n ast.Node) bool {
				switch n := n.(type) {
				case *ast.RangeStmt:
					if mapNames[lastName(n.X)] {
						nRanges++
						site := fd.Name.Name + ":" + exprText(n.X)
						if !knownRanges[site] {
							unknown = append(unknown, site)
						}
					}
				case *ast.CallExpr:
					if se, ok := n.Fun.(*ast.SelectorExpr); ok {
						if id, ok := se.X.(*ast.Ident); ok && id.Name == "sort" && len(n.Args) > 0 {
							key := fmt.Sprintf("%s:sort.%s(%s)", fd.Name.Name, se.Sel.Name, exprText(n.Args[0]))
							if _, ok := wantSorts[key]; ok {
								wantSorts[key] = true
							}
						}
					}
				}
				return true
			})
		}
	}
	var missing []string
	for k, seen := range wantSorts {
		if !seen {
			missing = append(missing, k)
		}
	}
	sort.Strings(unknown)
	sort.Strings(missing)
	if c14Extra != nil {
		c14Extra["map_ranges_in_gen"] = nRanges
	}
	return fmt.Sprintf("maprange unknown=%s missing-sort=%s", showList(unknown), showList(missing))
}
