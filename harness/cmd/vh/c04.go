package main

// C04 — forged or altered packets are refused, never accepted and never crash the client.
//
// Real code exercised: messages.DeserializeEncrypted, messages.DeserializeUnencrypted, and the same
// packets through transport.ReadMsg over a loopback connection (routing by isPacketEncrypted).
//
// Every operation carries the packet itself plus the generator's expectation, derived from what the
// harness's own specification server (x_envelope.go) sealed:
//   refuse               the packet is an alteration / forgery / inconsistent re-sealing: must be an error
//   ok:salt:sid:mid:seq:body   the packet is a valid sealing of exactly this message
//   alt:salt:sid:mid:seq:body  a ciphertext bit of a valid sealing of this message was flipped: must be an
//                        error — or, when the flip only reached padding as far as the msg_key can
//                        tell (MTProto 1.0's msg_key covers header+body, not the padding; the flipped
//                        block still decrypts to the same header/body bytes with probability 2^-8k, k =
//                        non-padding bytes in the last block), the very same message
//   any                  arbitrary bytes: no expectation beyond the two below
// and for every operation, independent of the expectation: never a panic; an accepted message must
// be what the specification's receiver (direction 8) recovers from those bytes.

import (
	"encoding/binary"
	"fmt"
	"strings"

	"github.com/xelaj/mtproto/internal/mtproto/messages"
)

func c04Open(key, pkt []byte) string {
	e, err := messages.DeserializeEncrypted(append([]byte{}, pkt...), key)
	if err != nil {
		return envOpenErr(err)
	}
	return envShowMsg(envOfEncrypted(e))
}

// distribution of result kinds per operation, reported in the evidence file
var c04Kinds = map[string]int{}
var c04SameMsg int // ciphertext flips that left header+body intact and were delivered as the same message
var c04G *G

func c04Kind(out string) string {
	out = strings.TrimPrefix(out, "enc ")
	if i := strings.IndexAny(out, " ("); i >= 0 {
		out = out[:i]
	}
	return out
}

func c04Exec(op []string) string {
	out := c04Exec1(op)
	c04Kinds[op[0]+" "+c04Kind(out)]++
	return out
}

func c04Exec1(op []string) string {
	switch op[0] {
	case "c04.open", "c04.openorig":
		// (c04.openorig: the same real call; the Lean side answers with the model of the code as found,
		// used to validate that model against an unrepaired tree — never generated)
		if len(op) != 4 {
			return "bad-op"
		}
		return c04Open(envTok(op[1]), envTok(op[2]))
	case "c04.route":
		if len(op) != 4 {
			return "bad-op"
		}
		return envRoute(envTok(op[1]), envTok(op[2]))
	case "c04.udeser":
		if len(op) != 3 {
			return "bad-op"
		}
		return c04Unenc(envTok(op[1]))
	}
	return "bad-op"
}

func c04Unenc(data []byte) string {
	m, err := messages.DeserializeUnencrypted(append([]byte{}, data...))
	if err != nil {
		return envUnencErr(err)
	}
	return fmt.Sprintf("ok mid=%d body=%s", uint64(m.MsgID), showBytes(m.Msg))
}

func c04Expect(m envMsg, bodyTok string) string {
	return fmt.Sprintf("ok:%d:%d:%d:%d:%s", m.Salt, m.Sid, m.Mid, m.Seq, bodyTok)
}

func c04ParseExpect(s string) (envMsg, bool) {
	p := strings.Split(s, ":")
	if len(p) < 6 || (p[0] != "ok" && p[0] != "alt") {
		return envMsg{}, false
	}
	return envMsg{Salt: envU64(p[1]), Sid: envU64(p[2]), Mid: envU64(p[3]), Seq: uint32(envU64(p[4])), Body: envTok(strings.Join(p[5:], ":"))}, true
}

// c04Judge: the property, on the real code's result.
func c04Judge(op []string, out string) string {
	if strings.Contains(out, "panic:") {
		return "the receive path panics: " + clip(out)
	}
	switch op[0] {
	case "c04.open", "c04.openorig", "c04.route":
		key, pkt, expect := envTok(op[1]), envTok(op[2]), op[3]
		res := out
		if op[0] == "c04.route" {
			if strings.HasPrefix(out, "dial-error") || strings.HasPrefix(out, "err:transport") {
				return "loopback transport failed: " + clip(out)
			}
			if strings.HasPrefix(out, "code:") || strings.HasPrefix(out, "unenc ") || strings.HasPrefix(out, "err:unenc") {
				// not routed to the encrypted path: fine only for a 4-byte packet or a zero key id
				if len(pkt) == 4 || len(pkt) < 8 || binary.LittleEndian.Uint64(pkt[:8]) == 0 {
					if expect == "refuse" && strings.HasPrefix(out, "unenc ") {
						return "a packet expected to be refused was delivered as an unencrypted message"
					}
					return ""
				}
				return "a packet with a non-zero key id was not given to the encrypted deserialiser: " + clip(out)
			}
			res = strings.TrimPrefix(out, "enc ")
		}
		accepted := strings.HasPrefix(res, "ok ")
		if !accepted && !strings.HasPrefix(res, "err:") {
			return "unclassified result: " + clip(out)
		}
		if accepted {
			// independent: what does the specification's receiver make of these bytes?
			if len(key) >= 136 {
				m, why := envOpen(8, key, pkt, false)
				if why != "" {
					return "accepted a packet that is not a valid sealing under this key: " + why
				}
				if m.Mid%4 != 1 && m.Mid%4 != 3 {
					return "accepted a msg_id without server parity"
				}
				if res != envShowMsg(m) {
					return "accepted message differs from the packet's content: packet holds " + clip(envShowMsg(m))
				}
			}
		}
		switch {
		case expect == "refuse":
			if accepted {
				return "an altered / forged / inconsistent packet was accepted: " + clip(res)
			}
		case strings.HasPrefix(expect, "alt:"):
			if accepted {
				m, _ := c04ParseExpect(expect)
				if res != envShowMsg(m) {
					return "an altered packet produced a message different from the one sealed: sealed was " + clip(envShowMsg(m))
				}
				c04SameMsg++ // the alteration is invisible to the msg_key: same header and body
			}
		case strings.HasPrefix(expect, "ok:"):
			m, _ := c04ParseExpect(expect)
			if res != envShowMsg(m) {
				return "a valid packet was not opened to what was sealed: want " + clip(envShowMsg(m))
			}
		}
	case "c04.udeser":
		data, expect := envTok(op[1]), op[2]
		accepted := strings.HasPrefix(out, "ok ")
		if accepted {
			// zero-key-id layout, exact length, server parity — read off the bytes directly
			if len(data) < 20 {
				return "accepted an unencrypted packet shorter than its header"
			}
			mid := binary.LittleEndian.Uint64(data[8:16])
			l := binary.LittleEndian.Uint32(data[16:20])
			if uint64(l) != uint64(len(data)-20) {
				return fmt.Sprintf("accepted an unencrypted packet declaring %d body bytes and carrying %d", l, len(data)-20)
			}
			if mid%4 != 1 && mid%4 != 3 {
				return "accepted an unencrypted msg_id without server parity"
			}
			if exp := fmt.Sprintf("ok mid=%d body=%s", mid, showBytes(data[20:])); out != exp {
				return "accepted unencrypted message differs from the packet's content: want " + exp
			}
		}
		if expect == "refuse" && accepted {
			return "an inconsistent unencrypted packet was accepted"
		}
		if expect == "ok" && !accepted {
			return "a valid unencrypted packet was refused: " + out
		}
	}
	return ""
}

// ---- generation -----------------------------------------------------------------------------------

type c04Base struct {
	keyTok  string
	key     []byte
	m       envMsg
	bodyTok string
	pkt     []byte
}

func c04NewBase(g *G, bodyLen int) *c04Base {
	r := g.R
	b := &c04Base{keyTok: fmt.Sprintf("x256:%d", r.U64()>>1)}
	b.key = envTok(b.keyTok)
	b.bodyTok = c04BodyTok(g, bodyLen)
	b.m = envMsg{Salt: r.U64(), Sid: r.U64(), Mid: r.U64()&^3 | uint64(r.Pick(1, 3)), Seq: uint32(r.U64()), Body: envTok(b.bodyTok)}
	b.pkt = envSeal(8, b.key, b.m, r.Bytes((16-(32+bodyLen)%16)%16))
	return b
}

func c04BodyTok(g *G, n int) string {
	switch {
	case n == 0:
		return "-"
	case n <= 40:
		return hexD(g.R.Bytes(n))
	}
	return fmt.Sprintf("x%d:%d", n, g.R.U64()>>1)
}

func c04Flip(pkt []byte, bit int) []byte {
	q := append([]byte{}, pkt...)
	q[bit/8] ^= 1 << uint(bit%8)
	return q
}

// c04Emit emits the packet through DeserializeEncrypted and, for a share of them, through ReadMsg.
func c04Emit(g *G, keyTok string, pkt []byte, expect string, routeEvery int, tags ...string) {
	g.Emit(fmt.Sprintf("c04.open %s %s %s", keyTok, hexD(pkt), expect), tags...)
	if routeEvery > 0 && len(pkt) > 0 && g.R.Intn(routeEvery) == 0 {
		g.Emit(fmt.Sprintf("c04.route %s %s %s", keyTok, hexD(pkt), expect), "route")
	}
}

// plaintext of total length total (multiple of 16) with the declared length field set to decl
func c04Plain(m envMsg, decl int64, total int, fill []byte) []byte {
	p := envPlain(envMsg{Salt: m.Salt, Sid: m.Sid, Mid: m.Mid, Seq: m.Seq}, uint32(int32(decl)))
	p = append(p, fill...)
	for len(p) < total {
		p = append(p, byte(len(p)*7+3))
	}
	return p[:total]
}

func c04Gen(g *G) {
	r := g.R
	th := g.Thorough()
	bodyLens := []int{0, 4, 20, 100}
	if th {
		bodyLens = []int{0, 1, 4, 15, 16, 20, 100, 1000}
	}
	for _, bl := range bodyLens {
		b := c04NewBase(g, bl)
		n := len(b.pkt)
		okExp := c04Expect(b.m, b.bodyTok)
		altExp := "alt" + strings.TrimPrefix(okExp, "ok")
		c04Emit(g, b.keyTok, b.pkt, okExp, 1, "valid")

		// (1) every single-bit flip of the 24-byte header; of the ciphertext: all (thorough) / sampled
		for bit := 0; bit < 24*8; bit++ {
			c04Emit(g, b.keyTok, c04Flip(b.pkt, bit), "refuse", 24, "bitflip", "bitflip-header")
		}
		if th && n <= 200 {
			for bit := 24 * 8; bit < n*8; bit++ {
				c04Emit(g, b.keyTok, c04Flip(b.pkt, bit), altExp, 60, "bitflip", "bitflip-ciphertext")
			}
		} else {
			for i := 0; i < g.N(256, 1500); i++ {
				bit := 24*8 + r.Intn((n-24)*8)
				if i < 32 { // the first two blocks hold the inner header: salt .. length
					bit = 24*8 + r.Intn(32*8)
				}
				c04Emit(g, b.keyTok, c04Flip(b.pkt, bit), altExp, 30, "bitflip", "bitflip-ciphertext")
			}
		}
		// (2) every truncation length 0..n-1 (also below the 24-byte header); extensions
		for cut := 0; cut < n; cut++ {
			if !th && n > 200 && cut > 64 && cut%16 != 0 && cut%16 != 8 && r.Intn(4) != 0 {
				continue
			}
			c04Emit(g, b.keyTok, b.pkt[:cut], "refuse", 12, "truncate", fmt.Sprintf("truncate-mod16=%d", cut%16))
		}
		// (2b) history: the deserialiser must be a function of the packet alone. Deliver the valid packet and
		// straight afterwards a block-aligned truncation / a bit flip of it (state left behind by the
		// accepted packet — a reused buffer, a cached digest — must not help the altered one through)
		for cut := 24; cut < n; cut += 16 {
			if !th && n > 200 && cut > 24+64 && r.Intn(4) != 0 {
				continue
			}
			g.Emit(fmt.Sprintf("c04.open %s %s %s", b.keyTok, hexD(b.pkt), okExp), "valid", "history-prime")
			g.Emit(fmt.Sprintf("c04.open %s %s refuse", b.keyTok, hexD(b.pkt[:cut])), "truncate", "history-truncate-after-delivery")
		}
		for i := 0; i < 8; i++ {
			g.Emit(fmt.Sprintf("c04.open %s %s %s", b.keyTok, hexD(b.pkt), okExp), "valid", "history-prime")
			g.Emit(fmt.Sprintf("c04.open %s %s refuse", b.keyTok, hexD(c04Flip(b.pkt, r.Intn(24*8)))), "bitflip", "history-flip-after-delivery")
		}
		for _, extra := range []int{1, 4, 8, 15, 17} {
			c04Emit(g, b.keyTok, append(append([]byte{}, b.pkt...), r.Bytes(extra)...), "refuse", 3, "extend-unaligned")
		}
		for _, extra := range []int{16, 32, 160} {
			// whole extra blocks decrypt to extra padding: the same message (msg_key covers header+body only)
			c04Emit(g, b.keyTok, append(append([]byte{}, b.pkt...), r.Bytes(extra)...), okExp, 2, "extend-blocks")
		}
		// (3) re-keyed: another key's sealing under this key's id; this key's sealing under another id;
		//     the client-direction sealing (x = 0) of the same message
		other := c04NewBase(g, bl)
		c04Emit(g, b.keyTok, other.pkt, "refuse", 2, "rekey", "rekey-foreign-packet")
		c04Emit(g, b.keyTok, append(append([]byte{}, b.pkt[:8]...), other.pkt[8:]...), "refuse", 2, "rekey", "rekey-spliced-id")
		c04Emit(g, b.keyTok, append(make([]byte, 8), b.pkt[8:]...), "refuse", 2, "rekey", "rekey-zero-id")
		c04Emit(g, b.keyTok, envSeal(0, b.key, b.m, b.pkt[:(16-(32+bl)%16)%16]), "refuse", 2, "rekey", "wrong-direction")
		// (4) wrong msg_id parity, honestly sealed
		for _, par := range []uint64{0, 2} {
			m := b.m
			m.Mid = m.Mid&^3 | par
			c04Emit(g, b.keyTok, envSeal(8, b.key, m, r.Bytes((16-(32+bl)%16)%16)), "refuse", 1, "parity")
		}
		// (5) holding the key: re-sealed with an inconsistent declared length and/or msg_key span
		total := (32 + bl + 15) / 16 * 16
		if total == 32+bl && r.Bool() {
			total += 16
		}
		decls := []int64{-1 << 31, -1<<31 + 1, -1 << 30, -65536, -33, -32, -31, -17, -16, -1, 1<<31 - 1, 1<<31 - 32, 1<<31 - 33, 1 << 30, 65536,
			int64(total) - 32, int64(total) - 31, int64(total), int64(total) + 32, int64(total) + 33, int64(total) + 31}
		for d := int64(bl) - 33; d <= int64(bl)+33; d++ {
			decls = append(decls, d)
		}
		for _, decl := range decls {
			plain := c04Plain(b.m, decl, total, b.m.Body)
			valid := decl >= 0 && 32+decl <= int64(total)
			spans := map[int]bool{total: true, 32 + bl: true, 32: true, 0: true}
			if valid {
				spans[int(32+decl)] = true
			}
			if decl < 0 && 32+decl >= 0 {
				spans[int(32+decl)] = true // the span the unrepaired slice expression would take
			}
			var spanList []int
			for span := range spans {
				spanList = append(spanList, span)
			}
			c04SortInts(spanList)
			for _, span := range spanList {
				exp := "refuse"
				if valid && span == int(32+decl) {
					exp = c04Expect(envMsg{Salt: b.m.Salt, Sid: b.m.Sid, Mid: b.m.Mid, Seq: b.m.Seq}, hexD(plain[32:32+decl]))
				}
				c04Emit(g, b.keyTok, envSealRaw(8, b.key, plain, span), exp, 10, "reseal", fmt.Sprintf("reseal-valid=%v", exp != "refuse"))
			}
		}
		// (5b) holding the key: the honest plaintext encrypted under the key/IV of a msg_key that differs
		//      from the true one in one bit (every byte of the msg_key is compared, not a prefix)
		{
			plain := append(envPlain(b.m, uint32(bl)), b.pkt[:(16-(32+bl)%16)%16]...)
			trueMk := envSha1(plain[:32+bl])[4:20]
			for pos := 0; pos < 16; pos++ {
				for _, bit := range []byte{1, 0x80} {
					mk := append([]byte{}, trueMk...)
					mk[pos] ^= bit
					c04Emit(g, b.keyTok, envSealWithMsgKey(8, b.key, plain, mk), "refuse", 16, "reseal", "reseal-msgkey-bit")
				}
			}
			c04Emit(g, b.keyTok, envSealWithMsgKey(8, b.key, plain, trueMk), okExp, 4, "reseal", "reseal-msgkey-true")
		}
		// (6) block-aligned garbage under the right key id
		keyID := envSha1(b.key)[12:20]
		for i := 0; i < g.N(500, 25000); i++ {
			blocks := 1 + r.Intn(6)
			if i%8 == 0 {
				blocks = 0
			}
			pkt := append(append([]byte{}, keyID...), r.Bytes(16+16*blocks)...)
			c04Emit(g, b.keyTok, pkt, "any", 20, "garbage-aligned", fmt.Sprintf("garbage-blocks=%d", blocks))
		}
		// short and odd sizes under the right key id (8..56 bytes)
		for l := 8; l <= 56; l++ {
			pkt := append(append([]byte{}, keyID...), r.Bytes(l-8)...)
			c04Emit(g, b.keyTok, pkt, "refuse", 6, "short-right-id")
		}
	}
	// arbitrary bytes, any length, under any key
	// a session without a usable auth key (before the key exchange has finished the key is empty; a damaged
	// session file may hold any number of bytes): a packet that carries that key's id must be refused with an
	// error like any other — in particular the empty key's id is a constant everybody knows
	for _, kl := range []int{0, 1, 8, 20, 127, 128, 135} {
		keyTok := "-"
		if kl > 0 {
			keyTok = fmt.Sprintf("x%d:%d", kl, r.U64()>>1)
		}
		kid := envSha1(envTok(keyTok))[12:20]
		for _, blocks := range []int{0, 1, 2, 6} {
			pkt := append(append(append([]byte{}, kid...), r.Bytes(16)...), r.Bytes(16*blocks)...)
			c04Emit(g, keyTok, pkt, "refuse", 1, "short-key", fmt.Sprintf("short-key-len=%d", kl))
		}
	}

	for i := 0; i < g.N(400, 10000); i++ {
		c04Emit(g, fmt.Sprintf("x256:%d", r.U64()>>1), r.Bytes(r.Intn(120)), "any", 5, "random-bytes")
	}
	// 4-byte packets are transport error codes; zero key id goes to the unencrypted path
	for _, p := range []string{"6cfeffff", "00000000", "ffffffff", "0000000000000000", "000000000000000001", "00000000000000000500000000000000", "0000000000000000050000000000000000000000", "000000000000000005000000000000000400000001020304"} {
		g.Emit(fmt.Sprintf("c04.route x256:7 %s any", p), "route", "route-unenc")
	}

	// a key id is non-zero as soon as any one of its 8 bytes is: such packets belong to the encrypted path
	for pos := 0; pos < 8; pos++ {
		for _, v := range []byte{1, 0x80} {
			pkt := make([]byte, 8, 72)
			pkt[pos] = v
			pkt = append(pkt, r.Bytes(16+16*(1+r.Intn(3)))...)
			g.Emit(fmt.Sprintf("c04.route x256:7 %s refuse", hexD(pkt)), "route", "route-sparse-id")
		}
	}

	// (7) unencrypted packets: inconsistent length, wrong parity, truncation
	for _, bl := range []int{0, 4, 20, 60} {
		mid := r.U64()&^3 | uint64(r.Pick(1, 3))
		body := r.Bytes(bl)
		good := c04SpecUnenc(mid, body)
		g.Emit(fmt.Sprintf("c04.udeser %s ok", hexD(good)), "unenc", "unenc-valid")
		for cut := 0; cut < len(good); cut++ {
			g.Emit(fmt.Sprintf("c04.udeser %s refuse", hexD(good[:cut])), "unenc", "unenc-truncate")
		}
		for _, extra := range []int{1, 3, 4, 16} {
			g.Emit(fmt.Sprintf("c04.udeser %s refuse", hexD(append(append([]byte{}, good...), r.Bytes(extra)...))), "unenc", "unenc-extend")
		}
		decls := []int64{-1 << 31, -1, 1<<31 - 1, 1<<32 - 1, 1 << 31}
		for d := int64(bl) - 33; d <= int64(bl)+33; d++ {
			decls = append(decls, d)
		}
		for _, d := range decls {
			if d == int64(bl) {
				continue
			}
			p := append([]byte{}, good...)
			binary.LittleEndian.PutUint32(p[16:], uint32(d))
			g.Emit(fmt.Sprintf("c04.udeser %s refuse", hexD(p)), "unenc", "unenc-length")
		}
		for _, par := range []uint64{0, 2} {
			g.Emit(fmt.Sprintf("c04.udeser %s refuse", hexD(c04SpecUnenc(mid&^3|par, body))), "unenc", "unenc-parity")
		}
	}
	for i := 0; i < g.N(60, 2000); i++ {
		g.Emit(fmt.Sprintf("c04.udeser %s any", hexD(r.Bytes(r.Intn(64)))), "unenc", "unenc-random")
	}
}

func c04SortInts(a []int) {
	for i := 1; i < len(a); i++ {
		for j := i; j > 0 && a[j-1] > a[j]; j-- {
			a[j-1], a[j] = a[j], a[j-1]
		}
	}
}

func c04SpecUnenc(mid uint64, body []byte) []byte {
	b := make([]byte, 20, 20+len(body))
	binary.LittleEndian.PutUint64(b[8:], mid)
	binary.LittleEndian.PutUint32(b[16:], uint32(len(body)))
	return append(b, body...)
}

func init() {
	register(&Prop{Name: "c04", Stateless: true, Gen: c04Gen, Exec: c04Exec, Judge: c04Judge,
		Setup: func(g *G) { c04G = g; envListen() },
		Teardown: func() {
			envUnlisten()
			kinds := map[string]interface{}{}
			for k, v := range c04Kinds {
				kinds[k] = v
			}
			c04G.Extra["result_kinds"] = kinds
			c04G.Extra["ciphertext_flips_delivered_as_the_same_message"] = c04SameMsg
		}})
}
