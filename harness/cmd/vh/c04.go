package main

// C04 — forged or altered packets are refused, never accepted and never crash the client.
//
// Real code exercised: messages.DeserializeEncrypted, messages.DeserializeUnencrypted, and the same
// packets through transport.ReadMsg over a loopback connection (routing by isPacketEncrypted).
//
// Every operation carries the packet itself plus the generator's expectation, derived from what the
// harness's own specification server (x_envelope.go) sealed:
//   refuse               the packet is an alteration / forgery / inconsistent re-sealing: must be an error
//   ok:salt:sid:mid:seq:body   the packet is a valid sealing of exactly this message
//   alt:salt:sid:mid:seq:body  a ciphertext bit of a valid sealing of this message was flipped: must be an
//                        error — or, when the flip only reached padding as far as the msg_key can
//                        tell (MTProto 1.0's msg_key covers header+body, not the padding; the flipped
//                        block still decrypts to the same header/body bytes with probability 2^-8k, k =
//                        non-padding bytes in the last block), the very same message
//   any                  arbitrary bytes: no expectation beyond the two below
//
//   c04.session <key> <pkt> <expect>  <key> <pkt> <expect> …
//       ONE transport (one loopback connection) for the whole line; before each packet is read the
//       session's auth key (what the informator's GetAuthKey returns) is set to that step's key. "Matches
//       the session's auth key" means the key the session has when the packet arrives — after a new key
//       exchange, a loaded session, SetAuthKey — not the one it had when the transport was made or when the
//       first packet came. The results of the steps are joined with " ; "; each step is judged as a
//       c04.route of its own (key, packet, expectation).
//   c04.client enc <key> <pkt> <expect> …   the same one level up: ONE real client in encrypted mode (c04client.go)
// and for every operation, independent of the expectation: never a panic; an accepted message must
// be what the specification's receiver (direction 8) recovers from those bytes.

import (
	"context"
	"encoding/binary"
	"fmt"
	"io"
	"os"
	"runtime"
	"strings"
	"time"

	"github.com/xelaj/mtproto/internal/mode"
	"github.com/xelaj/mtproto/internal/mtproto/messages"
	"github.com/xelaj/mtproto/internal/transport"
)

func c04Open(key, pkt []byte) string {
	buf := append([]byte{}, pkt...) // the caller's buffer: overwritten as soon as the call has returned (c04hold.go)
	e, err := messages.DeserializeEncrypted(buf, key)
	if err != nil {
		c04HeldScribble(buf, nil, "")
		return envOpenErr(err)
	}
	if e == nil {
		// the result contract: no error means "here is a message"
		return c04NoMsg + "(DeserializeEncrypted)"
	}
	out := envShowMsg(envOfEncrypted(e))
	// the message is the caller's from now on: held, with a private copy, and looked at again after everything
	// that happens later in the run
	h := c04HeldHold(e, c04HeldAt("DeserializeEncrypted"))
	h.shown = out
	c04HeldScribble(buf, h, "DeserializeEncrypted")
	return out
}

// distribution of result kinds per operation, reported in the evidence file
var c04Kinds = map[string]int{}
var c04SameMsg int // ciphertext flips that left header+body intact and were delivered as the same message
var c04G *G

func c04Kind(out string) string {
	out = strings.TrimPrefix(out, "enc ")
	if i := strings.IndexAny(out, " ("); i >= 0 {
		out = out[:i]
	}
	return out
}

func c04Exec(op []string) string {
	c04HeldBegin(op)
	out := c04Exec1(op)
	c04Kinds[op[0]+" "+c04Kind(out)]++
	// every message handed out so far in this run is compared with the copy taken when it was handed out
	return c04HeldEnd(out)
}

func c04Exec1(op []string) string {
	switch op[0] {
	case "c04.open", "c04.openorig":
		// (c04.openorig: the same real call; the Lean side answers with the model of the code as found,
		// used to validate that model against an unrepaired tree — never generated)
		if len(op) != 4 {
			return "bad-op"
		}
		return c04Open(envTok(op[1]), envTok(op[2]))
	case "c04.route":
		if len(op) != 4 {
			return "bad-op"
		}
		pkt := envTok(op[2])
		return c04Deliver([]c04Frame{{envTok(op[1]), len(pkt), pkt}})[0] // (envRoute with the result contract checked)
	case "c04.udeser":
		if len(op) != 3 {
			return "bad-op"
		}
		return c04Unenc(envTok(op[1]))
	case "c04.session":
		if len(op) < 4 || (len(op)-1)%3 != 0 {
			return "bad-op"
		}
		return c04Session(op[1:])
	case "c04.client":
		// the same question one level up, through the real client's receive loop (see c04client.go)
		if len(op) < 5 || (len(op)-2)%3 != 0 {
			return "bad-op"
		}
		return c04Client(op[1], op[2:])
	case "c04.big", "c04.cut":
		return c04Big(op)
	case "c04.hold":
		return c04Hold(op)
	case "c04.heldcheck":
		return c04HeldCheckOp(op)
	}
	return "bad-op"
}

// c04Inf is a session whose auth key changes while the transport lives.
type c04Inf struct{ key []byte }

func (i *c04Inf) GetSessionID() int64  { return 0 }
func (i *c04Inf) GetSeqNo() int32      { return 0 }
func (i *c04Inf) GetServerSalt() int64 { return 0 }
func (i *c04Inf) GetAuthKey() []byte   { return i.key }

// c04Routed prints what ReadMsg returned (as x_envelope.go's envRoute does for its single packet).
func c04Routed(msg messages.Common, err error) (res string, alive bool) {
	if err != nil {
		if code, ok := err.(transport.ErrCode); ok {
			return fmt.Sprintf("code:%d", int(code)), true
		}
		s := err.Error()
		if strings.HasPrefix(s, "wrong bits of message_id") {
			return "err:parity2", true
		}
		if eb, ok := err.(transport.ErrBroken); ok {
			// ReadMsg's "the connection can't be read any further" (a frame cut short, a reset, a timeout)
			return "err:transport(broken:" + strings.ReplaceAll(eb.Err.Error(), " ", "_") + ")", false
		}
		if envStreamErr(err) {
			return "err:transport(" + strings.ReplaceAll(s, " ", "_") + ")", false
		}
		if strings.Contains(s, "Wrong bits of message_id") || strings.Contains(s, "not equal defined size") {
			return envUnencErr(err), true
		}
		return envOpenErr(err), true
	}
	if msg == nil {
		return c04NoMsg + "(ReadMsg)", true
	}
	switch m := msg.(type) {
	case *messages.Encrypted:
		if m == nil {
			return c04NoMsg + "(ReadMsg:*Encrypted)", true
		}
		out := "enc " + envShowMsg(envOfEncrypted(m))
		c04HeldHold(m, c04HeldAt("transport.ReadMsg")).shown = out
		return out, true
	case *messages.Unencrypted:
		if m == nil {
			return c04NoMsg + "(ReadMsg:*Unencrypted)", true
		}
		out := fmt.Sprintf("unenc mid=%d body=%s", uint64(m.MsgID), showBytes(m.Msg))
		c04HeldHold(m, c04HeldAt("transport.ReadMsg")).shown = out
		return out, true
	}
	return "err:unknown-type", true
}

// c04Session: the steps (key, packet, expectation)* over one transport.ReadMsg loop. The peer sends a packet
// only when the client is about to read it, so that the key in force at each read is the step's key.
func c04Session(steps []string) string {
	next := make(chan []byte)
	done := make(chan struct{})
	go func() {
		defer close(done)
		conn, err := envListener.Accept()
		if err != nil {
			for range next {
			}
			return
		}
		ann := make([]byte, 4)
		_, _ = io.ReadFull(conn, ann)
		for pkt := range next {
			frame := make([]byte, 4, 4+len(pkt))
			binary.LittleEndian.PutUint32(frame, uint32(len(pkt)))
			_, _ = conn.Write(append(frame, pkt...))
		}
		_ = conn.Close()
	}()
	ctx, cancel := context.WithCancel(context.Background())
	defer cancel()
	inf := &c04Inf{}
	t, err := transport.NewTransport(inf, transport.TCPConnConfig{
		Ctx: ctx, Host: envListener.Addr().String(), Timeout: 10 * time.Second,
	}, mode.Intermediate)
	if err != nil {
		close(next)
		<-done
		return "dial-error:" + err.Error()
	}
	defer func() { close(next); t.Close(); <-done }()
	var outs []string
	alive := true
	for i := 0; i+2 < len(steps); i += 3 {
		if !alive {
			outs = append(outs, "err:transport(dead)")
			continue
		}
		inf.key = append([]byte{}, envTok(steps[i])...) // the new key is a new value in new memory
		next <- envTok(steps[i+1])
		var res string
		func() {
			defer func() {
				if r := recover(); r != nil {
					res, alive = "panic:"+panicSite(), false
				}
			}()
			msg, err := t.ReadMsg()
			res, alive = c04Routed(msg, err)
		}()
		outs = append(outs, res)
		c04HeldCheck(fmt.Sprintf("after packet %d of this session had been read (%s)", i/3+1, c04ClipN(res, 48)), false)
	}
	return strings.Join(outs, " ; ")
}

func c04Unenc(data []byte) string {
	buf := append([]byte{}, data...)
	m, err := messages.DeserializeUnencrypted(buf)
	if err != nil {
		c04HeldScribble(buf, nil, "")
		return envUnencErr(err)
	}
	if m == nil {
		return c04NoMsg + "(DeserializeUnencrypted)"
	}
	out := fmt.Sprintf("ok mid=%d body=%s", uint64(m.MsgID), showBytes(m.Msg))
	h := c04HeldHold(m, c04HeldAt("DeserializeUnencrypted"))
	h.shown = out
	c04HeldScribble(buf, h, "DeserializeUnencrypted")
	return out
}

func c04Expect(m envMsg, bodyTok string) string {
	return fmt.Sprintf("ok:%d:%d:%d:%d:%s", m.Salt, m.Sid, m.Mid, m.Seq, bodyTok)
}

func c04ParseExpect(s string) (envMsg, bool) {
	p := strings.Split(s, ":")
	if len(p) < 6 || (p[0] != "ok" && p[0] != "alt") {
		return envMsg{}, false
	}
	return envMsg{Salt: envU64(p[1]), Sid: envU64(p[2]), Mid: envU64(p[3]), Seq: uint32(envU64(p[4])), Body: envTok(strings.Join(p[5:], ":"))}, true
}

// c04Judge: the property, on the real code's result.
func c04Judge(op []string, out string) string {
	if strings.Contains(out, "panic:") {
		return "the receive path panics: " + clip(out)
	}
	if why := c04HeldJudge(out); why != "" {
		return why
	}
	if strings.Contains(out, c04NoMsg) {
		return "no error and no message: a call on the receive path returned err == nil together with a nil message (the caller is told the packet was fine and dereferences it): " + clip(out)
	}
	switch op[0] {
	case "c04.big", "c04.cut":
		return c04JudgeBig(op, out)
	case "c04.hold":
		return c04JudgeHold(op, out)
	case "c04.heldcheck":
		if out != "held:intact" && out != "bad-op" {
			return "unclassified result: " + clip(out)
		}
		return ""
	case "c04.client":
		return c04JudgeClient(op, out)
	case "c04.session":
		if out == "bad-op" {
			return ""
		}
		if strings.HasPrefix(out, "dial-error") {
			return "loopback transport failed: " + clip(out)
		}
		outs := strings.Split(out, " ; ")
		n := (len(op) - 1) / 3
		if len(outs) != n {
			return fmt.Sprintf("a session of %d packets gave %d results", n, len(outs))
		}
		var hist []string
		for i := 0; i < n; i++ {
			k, p, e := op[1+3*i], op[2+3*i], op[3+3*i]
			under := "a packet that does not carry the id of any key of this session"
			if pk := envTok(p); len(pk) >= 8 {
				for j := 0; j < n; j++ {
					if string(envSha1(envTok(op[1+3*j]))[12:20]) == string(pk[:8]) {
						under = "a packet carrying the id of key " + op[1+3*j]
						break
					}
				}
			}
			short := outs[i]
			if len(short) > 60 {
				short = short[:60] + "…"
			}
			hist = append(hist, fmt.Sprintf("%d: session key %s, %s -> %s", i+1, k, under, short))
			if why := c04Judge([]string{"c04.route", k, p, e}, outs[i]); why != "" {
				return fmt.Sprintf("packet %d of %d on ONE transport whose session key changes between packets [%s]: %s",
					i+1, n, strings.Join(hist, " | "), why)
			}
		}
	case "c04.open", "c04.openorig", "c04.route":
		key, pkt, expect := envTok(op[1]), envTok(op[2]), op[3]
		res := out
		if op[0] == "c04.route" {
			if strings.HasPrefix(out, "dial-error") || strings.HasPrefix(out, "err:transport") {
				return "loopback transport failed: " + clip(out)
			}
			if strings.HasPrefix(out, "code:") || strings.HasPrefix(out, "unenc ") || strings.HasPrefix(out, "err:unenc") {
				// not routed to the encrypted path: fine only for a 4-byte packet or a zero key id
				if len(pkt) == 4 || len(pkt) < 8 || binary.LittleEndian.Uint64(pkt[:8]) == 0 {
					if expect == "refuse" && strings.HasPrefix(out, "unenc ") {
						return "a packet expected to be refused was delivered as an unencrypted message"
					}
					return ""
				}
				return "a packet with a non-zero key id was not given to the encrypted deserialiser: " + clip(out)
			}
			res = strings.TrimPrefix(out, "enc ")
		}
		accepted := strings.HasPrefix(res, "ok ")
		if !accepted && !strings.HasPrefix(res, "err:") {
			return "unclassified result: " + clip(out)
		}
		if accepted {
			// independent: what does the specification's receiver make of these bytes?
			if len(key) >= 136 {
				m, why := envOpen(8, key, pkt, false)
				if why != "" {
					return "accepted a packet that is not a valid sealing under this key: " + why
				}
				if m.Mid%4 != 1 && m.Mid%4 != 3 {
					return "accepted a msg_id without server parity"
				}
				if res != envShowMsg(m) {
					return "accepted message differs from the packet's content: packet holds " + clip(envShowMsg(m))
				}
			}
		}
		switch {
		case expect == "refuse":
			if accepted {
				return "an altered / forged / inconsistent packet was accepted: " + clip(res)
			}
		case strings.HasPrefix(expect, "alt:"):
			if accepted {
				m, _ := c04ParseExpect(expect)
				if res != envShowMsg(m) {
					return "an altered packet produced a message different from the one sealed: sealed was " + clip(envShowMsg(m))
				}
				c04SameMsg++ // the alteration is invisible to the msg_key: same header and body
			}
		case strings.HasPrefix(expect, "ok:"):
			m, _ := c04ParseExpect(expect)
			if res != envShowMsg(m) {
				return "a valid packet was not opened to what was sealed: want " + clip(envShowMsg(m))
			}
		}
	case "c04.udeser":
		data, expect := envTok(op[1]), op[2]
		accepted := strings.HasPrefix(out, "ok ")
		if accepted {
			// zero-key-id layout, exact length, server parity — read off the bytes directly
			if len(data) < 20 {
				return "accepted an unencrypted packet shorter than its header"
			}
			mid := binary.LittleEndian.Uint64(data[8:16])
			l := binary.LittleEndian.Uint32(data[16:20])
			if uint64(l) != uint64(len(data)-20) {
				return fmt.Sprintf("accepted an unencrypted packet declaring %d body bytes and carrying %d", l, len(data)-20)
			}
			if mid%4 != 1 && mid%4 != 3 {
				return "accepted an unencrypted msg_id without server parity"
			}
			if exp := fmt.Sprintf("ok mid=%d body=%s", mid, showBytes(data[20:])); out != exp {
				return "accepted unencrypted message differs from the packet's content: want " + exp
			}
		}
		if expect == "refuse" && accepted {
			return "an inconsistent unencrypted packet was accepted"
		}
		if expect == "ok" && !accepted {
			return "a valid unencrypted packet was refused: " + out
		}
	}
	return ""
}

// ---- generation -----------------------------------------------------------------------------------

type c04Base struct {
	keyTok  string
	key     []byte
	m       envMsg
	bodyTok string
	pkt     []byte
}

func c04NewBase(g *G, bodyLen int) *c04Base {
	r := g.R
	b := &c04Base{keyTok: fmt.Sprintf("x256:%d", r.U64()>>1)}
	b.key = envTok(b.keyTok)
	b.bodyTok = c04BodyTok(g, bodyLen)
	b.m = envMsg{Salt: r.U64(), Sid: r.U64(), Mid: r.U64()&^3 | uint64(r.Pick(1, 3)), Seq: uint32(r.U64()), Body: envTok(b.bodyTok)}
	b.pkt = envSeal(8, b.key, b.m, r.Bytes((16-(32+bodyLen)%16)%16))
	return b
}

func c04BodyTok(g *G, n int) string {
	switch {
	case n == 0:
		return "-"
	case n <= 40:
		return hexD(g.R.Bytes(n))
	}
	return fmt.Sprintf("x%d:%d", n, g.R.U64()>>1)
}

func c04Flip(pkt []byte, bit int) []byte {
	q := append([]byte{}, pkt...)
	q[bit/8] ^= 1 << uint(bit%8)
	return q
}

// c04Emit emits the packet through DeserializeEncrypted and, for a share of them, through ReadMsg.
func c04Emit(g *G, keyTok string, pkt []byte, expect string, routeEvery int, tags ...string) {
	g.Emit(fmt.Sprintf("c04.open %s %s %s", keyTok, hexD(pkt), expect), tags...)
	if routeEvery > 0 && len(pkt) > 0 && g.R.Intn(routeEvery) == 0 {
		g.Emit(fmt.Sprintf("c04.route %s %s %s", keyTok, hexD(pkt), expect), "route")
	}
}

// plaintext of total length total (multiple of 16) with the declared length field set to decl
func c04Plain(m envMsg, decl int64, total int, fill []byte) []byte {
	p := envPlain(envMsg{Salt: m.Salt, Sid: m.Sid, Mid: m.Mid, Seq: m.Seq}, uint32(int32(decl)))
	p = append(p, fill...)
	for len(p) < total {
		p = append(p, byte(len(p)*7+3))
	}
	return p[:total]
}

func c04Gen(g *G) {
	r := g.R
	th := g.Thorough()
	bodyLens := []int{0, 4, 20, 100}
	if th {
		bodyLens = []int{0, 1, 4, 15, 16, 20, 100, 1000}
	}
	for _, bl := range bodyLens {
		b := c04NewBase(g, bl)
		n := len(b.pkt)
		okExp := c04Expect(b.m, b.bodyTok)
		altExp := "alt" + strings.TrimPrefix(okExp, "ok")
		c04Emit(g, b.keyTok, b.pkt, okExp, 1, "valid")

		// (1) every single-bit flip of the 24-byte header; of the ciphertext: all (thorough) / sampled
		for bit := 0; bit < 24*8; bit++ {
			c04Emit(g, b.keyTok, c04Flip(b.pkt, bit), "refuse", 24, "bitflip", "bitflip-header")
		}
		if th && n <= 200 {
			for bit := 24 * 8; bit < n*8; bit++ {
				c04Emit(g, b.keyTok, c04Flip(b.pkt, bit), altExp, 60, "bitflip", "bitflip-ciphertext")
			}
		} else {
			for i := 0; i < g.N(256, 1500); i++ {
				bit := 24*8 + r.Intn((n-24)*8)
				if i < 32 { // the first two blocks hold the inner header: salt .. length
					bit = 24*8 + r.Intn(32*8)
				}
				c04Emit(g, b.keyTok, c04Flip(b.pkt, bit), altExp, 30, "bitflip", "bitflip-ciphertext")
			}
		}
		// (2) every truncation length 0..n-1 (also below the 24-byte header); extensions
		for cut := 0; cut < n; cut++ {
			if !th && n > 200 && cut > 64 && cut%16 != 0 && cut%16 != 8 && r.Intn(4) != 0 {
				continue
			}
			c04Emit(g, b.keyTok, b.pkt[:cut], "refuse", 12, "truncate", fmt.Sprintf("truncate-mod16=%d", cut%16))
		}
		// (2b) history: the deserialiser must be a function of the packet alone. Deliver the valid packet and
		// straight afterwards a block-aligned truncation / a bit flip of it (state left behind by the
		// accepted packet — a reused buffer, a cached digest — must not help the altered one through)
		for cut := 24; cut < n; cut += 16 {
			if !th && n > 200 && cut > 24+64 && r.Intn(4) != 0 {
				continue
			}
			g.Emit(fmt.Sprintf("c04.open %s %s %s", b.keyTok, hexD(b.pkt), okExp), "valid", "history-prime")
			g.Emit(fmt.Sprintf("c04.open %s %s refuse", b.keyTok, hexD(b.pkt[:cut])), "truncate", "history-truncate-after-delivery")
		}
		for i := 0; i < 8; i++ {
			g.Emit(fmt.Sprintf("c04.open %s %s %s", b.keyTok, hexD(b.pkt), okExp), "valid", "history-prime")
			g.Emit(fmt.Sprintf("c04.open %s %s refuse", b.keyTok, hexD(c04Flip(b.pkt, r.Intn(24*8)))), "bitflip", "history-flip-after-delivery")
		}
		for _, extra := range []int{1, 4, 8, 15, 17} {
			c04Emit(g, b.keyTok, append(append([]byte{}, b.pkt...), r.Bytes(extra)...), "refuse", 3, "extend-unaligned")
		}
		for _, extra := range []int{16, 32, 160} {
			// whole extra blocks decrypt to extra padding: the same message (msg_key covers header+body only)
			c04Emit(g, b.keyTok, append(append([]byte{}, b.pkt...), r.Bytes(extra)...), okExp, 2, "extend-blocks")
		}
		// (3) re-keyed: another key's sealing under this key's id; this key's sealing under another id;
		//     the client-direction sealing (x = 0) of the same message
		other := c04NewBase(g, bl)
		c04Emit(g, b.keyTok, other.pkt, "refuse", 2, "rekey", "rekey-foreign-packet")
		c04Emit(g, b.keyTok, append(append([]byte{}, b.pkt[:8]...), other.pkt[8:]...), "refuse", 2, "rekey", "rekey-spliced-id")
		c04Emit(g, b.keyTok, append(make([]byte, 8), b.pkt[8:]...), "refuse", 2, "rekey", "rekey-zero-id")
		c04Emit(g, b.keyTok, envSeal(0, b.key, b.m, b.pkt[:(16-(32+bl)%16)%16]), "refuse", 2, "rekey", "wrong-direction")
		// (4) wrong msg_id parity, honestly sealed
		for _, par := range []uint64{0, 2} {
			m := b.m
			m.Mid = m.Mid&^3 | par
			c04Emit(g, b.keyTok, envSeal(8, b.key, m, r.Bytes((16-(32+bl)%16)%16)), "refuse", 1, "parity")
		}
		// (5) holding the key: re-sealed with an inconsistent declared length and/or msg_key span
		total := (32 + bl + 15) / 16 * 16
		if total == 32+bl && r.Bool() {
			total += 16
		}
		decls := []int64{-1 << 31, -1<<31 + 1, -1 << 30, -65536, -33, -32, -31, -17, -16, -1, 1<<31 - 1, 1<<31 - 32, 1<<31 - 33, 1 << 30, 65536,
			int64(total) - 32, int64(total) - 31, int64(total), int64(total) + 32, int64(total) + 33, int64(total) + 31}
		for d := int64(bl) - 33; d <= int64(bl)+33; d++ {
			decls = append(decls, d)
		}
		for _, decl := range decls {
			plain := c04Plain(b.m, decl, total, b.m.Body)
			valid := decl >= 0 && 32+decl <= int64(total)
			spans := map[int]bool{total: true, 32 + bl: true, 32: true, 0: true}
			if valid {
				spans[int(32+decl)] = true
			}
			if decl < 0 && 32+decl >= 0 {
				spans[int(32+decl)] = true // the span the unrepaired slice expression would take
			}
			var spanList []int
			for span := range spans {
				spanList = append(spanList, span)
			}
			c04SortInts(spanList)
			for _, span := range spanList {
				exp := "refuse"
				if valid && span == int(32+decl) {
					exp = c04Expect(envMsg{Salt: b.m.Salt, Sid: b.m.Sid, Mid: b.m.Mid, Seq: b.m.Seq}, hexD(plain[32:32+decl]))
				}
				c04Emit(g, b.keyTok, envSealRaw(8, b.key, plain, span), exp, 10, "reseal", fmt.Sprintf("reseal-valid=%v", exp != "refuse"))
			}
		}
		// (5b) holding the key: the honest plaintext encrypted under the key/IV of a msg_key that differs
		//      from the true one in one bit (every byte of the msg_key is compared, not a prefix)
		{
			plain := append(envPlain(b.m, uint32(bl)), b.pkt[:(16-(32+bl)%16)%16]...)
			trueMk := envSha1(plain[:32+bl])[4:20]
			for pos := 0; pos < 16; pos++ {
				for _, bit := range []byte{1, 0x80} {
					mk := append([]byte{}, trueMk...)
					mk[pos] ^= bit
					c04Emit(g, b.keyTok, envSealWithMsgKey(8, b.key, plain, mk), "refuse", 16, "reseal", "reseal-msgkey-bit")
				}
			}
			c04Emit(g, b.keyTok, envSealWithMsgKey(8, b.key, plain, trueMk), okExp, 4, "reseal", "reseal-msgkey-true")
		}
		// (6) block-aligned garbage under the right key id
		keyID := envSha1(b.key)[12:20]
		for i := 0; i < g.N(500, 25000); i++ {
			blocks := 1 + r.Intn(6)
			if i%8 == 0 {
				blocks = 0
			}
			pkt := append(append([]byte{}, keyID...), r.Bytes(16+16*blocks)...)
			c04Emit(g, b.keyTok, pkt, "any", 20, "garbage-aligned", fmt.Sprintf("garbage-blocks=%d", blocks))
		}
		// short and odd sizes under the right key id (8..56 bytes)
		for l := 8; l <= 56; l++ {
			pkt := append(append([]byte{}, keyID...), r.Bytes(l-8)...)
			c04Emit(g, b.keyTok, pkt, "refuse", 6, "short-right-id")
		}
	}
	// arbitrary bytes, any length, under any key
	// a session without a usable auth key (before the key exchange has finished the key is empty; a damaged
	// session file may hold any number of bytes): a packet that carries that key's id must be refused with an
	// error like any other — in particular the empty key's id is a constant everybody knows
	for _, kl := range []int{0, 1, 8, 20, 127, 128, 135} {
		keyTok := "-"
		if kl > 0 {
			keyTok = fmt.Sprintf("x%d:%d", kl, r.U64()>>1)
		}
		kid := envSha1(envTok(keyTok))[12:20]
		for _, blocks := range []int{0, 1, 2, 6} {
			pkt := append(append(append([]byte{}, kid...), r.Bytes(16)...), r.Bytes(16*blocks)...)
			c04Emit(g, keyTok, pkt, "refuse", 1, "short-key", fmt.Sprintf("short-key-len=%d", kl))
		}
	}

	for i := 0; i < g.N(400, 10000); i++ {
		c04Emit(g, fmt.Sprintf("x256:%d", r.U64()>>1), r.Bytes(r.Intn(120)), "any", 5, "random-bytes")
	}
	// 4-byte packets are transport error codes; zero key id goes to the unencrypted path
	for _, p := range []string{"6cfeffff", "00000000", "ffffffff", "0000000000000000", "000000000000000001", "00000000000000000500000000000000", "0000000000000000050000000000000000000000", "000000000000000005000000000000000400000001020304"} {
		g.Emit(fmt.Sprintf("c04.route x256:7 %s any", p), "route", "route-unenc")
	}

	// a key id is non-zero as soon as any one of its 8 bytes is: such packets belong to the encrypted path
	for pos := 0; pos < 8; pos++ {
		for _, v := range []byte{1, 0x80} {
			pkt := make([]byte, 8, 72)
			pkt[pos] = v
			pkt = append(pkt, r.Bytes(16+16*(1+r.Intn(3)))...)
			g.Emit(fmt.Sprintf("c04.route x256:7 %s refuse", hexD(pkt)), "route", "route-sparse-id")
		}
	}

	// (8) one transport, a session whose auth key changes between packets (see c04.session above): the packet
	// under the key the session had BEFORE must be refused, the one under the key it has NOW accepted
	c04GenSessions(g)

	// (10) the size axis: packets of 2^10 .. 2^24+2^20 bytes, described instead of spelled out (c04big.go)
	c04GenBig(g)

	c04GenCheckPoint(g, "after-big")

	// (11) sequences whose messages are all held: one packet of every class after a genuine one, other transports
	// and keys, random walks, large between small (c04hold.go)
	c04GenHold(g)

	// (9) the same through the real client working under its auth key: a frame with zero key id yields no message
	c04GenClients(g)

	// (7) unencrypted packets: inconsistent length, wrong parity, truncation
	for _, bl := range []int{0, 4, 20, 60} {
		mid := r.U64()&^3 | uint64(r.Pick(1, 3))
		body := r.Bytes(bl)
		good := c04SpecUnenc(mid, body)
		g.Emit(fmt.Sprintf("c04.udeser %s ok", hexD(good)), "unenc", "unenc-valid")
		for cut := 0; cut < len(good); cut++ {
			g.Emit(fmt.Sprintf("c04.udeser %s refuse", hexD(good[:cut])), "unenc", "unenc-truncate")
		}
		for _, extra := range []int{1, 3, 4, 16} {
			g.Emit(fmt.Sprintf("c04.udeser %s refuse", hexD(append(append([]byte{}, good...), r.Bytes(extra)...))), "unenc", "unenc-extend")
		}
		decls := []int64{-1 << 31, -1, 1<<31 - 1, 1<<32 - 1, 1 << 31}
		for d := int64(bl) - 33; d <= int64(bl)+33; d++ {
			decls = append(decls, d)
		}
		for _, d := range decls {
			if d == int64(bl) {
				continue
			}
			p := append([]byte{}, good...)
			binary.LittleEndian.PutUint32(p[16:], uint32(d))
			g.Emit(fmt.Sprintf("c04.udeser %s refuse", hexD(p)), "unenc", "unenc-length")
		}
		for _, par := range []uint64{0, 2} {
			g.Emit(fmt.Sprintf("c04.udeser %s refuse", hexD(c04SpecUnenc(mid&^3|par, body))), "unenc", "unenc-parity")
		}
	}
	for i := 0; i < g.N(60, 2000); i++ {
		g.Emit(fmt.Sprintf("c04.udeser %s any", hexD(r.Bytes(r.Intn(64)))), "unenc", "unenc-random")
	}
	// the end of the run: everything that was handed out is looked at once more, after forced collections
	c04GenCheckPoint(g, "end-of-run")
}

func c04GenSessions(g *G) {
	r := g.R
	type step struct {
		key string // the session's key at this packet
		b   *c04Base
		pkt []byte // nil: a fresh valid packet under b's key
		exp string // expectation for an explicit pkt ("refuse" when empty)
	}
	fresh := func(b *c04Base) (pkt []byte, exp string) { // another valid message sealed with b's key
		bl := r.Pick(0, 4, 20, 100)
		tok := c04BodyTok(g, bl)
		m := envMsg{Salt: r.U64(), Sid: r.U64(), Mid: r.U64()&^3 | uint64(r.Pick(1, 3)), Seq: uint32(r.U64()), Body: envTok(tok)}
		return envSeal(8, b.key, m, r.Bytes((16-(32+bl)%16)%16)), c04Expect(m, tok)
	}
	emit := func(steps []step, tags ...string) {
		var toks []string
		for _, st := range steps {
			pkt, exp := st.pkt, "refuse"
			if st.exp != "" {
				exp = st.exp
			}
			if pkt == nil {
				var okExp string
				pkt, okExp = fresh(st.b)
				if st.key == st.b.keyTok {
					exp = okExp
				}
			}
			toks = append(toks, st.key, hexD(pkt), exp)
		}
		g.Emit("c04.session "+strings.Join(toks, " "), append(tags, "session")...)
	}
	for rep := 0; rep < g.N(2, 12); rep++ {
		A, B, C := c04NewBase(g, 20), c04NewBase(g, 4), c04NewBase(g, 0)
		a, b := A.keyTok, B.keyTok
		shortKey := fmt.Sprintf("x%d:%d", r.Pick(1, 20, 128, 135), r.U64()>>1)
		garbage := append(append([]byte{}, envSha1(A.key)[12:20]...), r.Bytes(16+32)...)
		// the key is replaced: the retired key's packets are refused, the new key's accepted
		emit([]step{{a, A, nil, ""}, {b, A, nil, ""}, {b, B, nil, ""}}, "session:A,then-B")
		emit([]step{{a, A, nil, ""}, {a, A, nil, ""}, {b, A, nil, ""}, {b, A, A.pkt, ""}, {b, B, nil, ""}, {b, B, nil, ""}}, "session:A,then-B")
		// and back again
		emit([]step{{a, A, nil, ""}, {b, B, nil, ""}, {b, A, nil, ""}, {a, A, nil, ""}, {a, B, nil, ""}}, "session:A,B,A")
		// the key is lost in between (logged out / not yet exchanged: empty or unusable key)
		emit([]step{{a, A, nil, ""}, {"-", A, nil, ""}, {"-", A, A.pkt, ""}, {a, A, nil, ""}}, "session:key-emptied")
		emit([]step{{a, A, nil, ""}, {shortKey, A, nil, ""}, {b, A, nil, ""}, {b, B, nil, ""}}, "session:key-emptied")
		// no packet at all, an unencrypted one, or only a refused one arrives under the first key
		emit([]step{{b, A, nil, ""}, {b, B, nil, ""}, {a, A, nil, ""}, {a, B, nil, ""}}, "session:first-packet-foreign")
		emit([]step{{a, A, c04SpecUnenc(r.U64()&^3|1, r.Bytes(8)), "any"}, {b, A, nil, ""}, {b, B, nil, ""}}, "session:unencrypted-first")
		emit([]step{{a, A, garbage, "any"}, {b, A, nil, ""}, {b, B, nil, ""}}, "session:refused-first")
		emit([]step{{"-", A, nil, ""}, {a, A, nil, ""}, {b, A, nil, ""}, {b, B, nil, ""}}, "session:keyless-first")
		// three keys, random walk
		bases := []*c04Base{A, B, C}
		for i := 0; i < g.N(3, 12); i++ {
			var steps []step
			cur := bases[r.Intn(3)]
			for j, n := 0, 3+r.Intn(6); j < n; j++ {
				if r.Intn(3) == 0 {
					cur = bases[r.Intn(3)]
				}
				steps = append(steps, step{cur.keyTok, bases[r.Intn(3)], nil, ""})
			}
			emit(steps, "session:random-walk")
		}
	}
}

func c04SortInts(a []int) {
	for i := 1; i < len(a); i++ {
		for j := i; j > 0 && a[j-1] > a[j]; j-- {
			a[j-1], a[j] = a[j], a[j-1]
		}
	}
}

func c04SpecUnenc(mid uint64, body []byte) []byte {
	b := make([]byte, 20, 20+len(body))
	binary.LittleEndian.PutUint64(b[8:], mid)
	binary.LittleEndian.PutUint32(b[16:], uint32(len(body)))
	return append(b, body...)
}

func init() {
	register(&Prop{Name: "c04", Stateless: true, Gen: c04Gen, Exec: c04Exec, Judge: c04Judge,
		Setup: func(g *G) {
			c04G = g
			envListen()
			c04HeldSetup()
			for _, a := range os.Args {
				if a == "-ops" {
					// a replay / the corpus: one P, so that what a pooled buffer does is the same every time
					runtime.GOMAXPROCS(1)
				}
			}
		},
		Teardown: func() {
			envUnlisten()
			c04HeldRestore()
			held := map[string]interface{}{"bytes_held_at_end": c04HeldBytes}
			for k, v := range c04HeldStats {
				held[k] = v
			}
			c04G.Extra["held_messages"] = held
			kinds := map[string]interface{}{}
			for k, v := range c04Kinds {
				kinds[k] = v
			}
			c04G.Extra["result_kinds"] = kinds
			cuts := map[string]interface{}{}
			for k, v := range c04Cuts {
				cuts[k] = v
			}
			c04G.Extra["cut_frames_by_ReadMsg_return"] = cuts
			c04G.Extra["ciphertext_flips_delivered_as_the_same_message"] = c04SameMsg
		}})
}
