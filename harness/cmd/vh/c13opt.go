package main

// C13, end-to-end clause, OPTIONAL VECTORS AND BYTES: for `x:flags.N?Vector<T>` / `x:flags.N?bytes` the schema has
// two different values that carry no element — "absent" (bit N clear, nothing on the wire) and "present, empty" (bit N
// set, `1cb5c415 00000000` resp. a zero-length bytes field on the wire) — and they mean different things
// (channels.getAdminLog admins: absent = every admin, present = the listed ones). The Go layer tells them apart by
// IDENTITY, not by content: nil is absent, a non-nil slice of length 0 (`[]T{}`, `make([]T, 0, 8)`, `[]byte{}`) is
// present. c13.e2e never builds a present conditional vector without elements (a present parameter gets a non-zero
// value), c13.e2e.grp only the zero inside a group that is present through another member. This file adds, for EVERY
// conditional Vector / bytes parameter of the schema — of a function, of a constructor that can be placed inside the
// arguments of a method (also inside a Vector<constructor>), of a constructor that can be placed inside an answer —
// the calls in which that one parameter is nil / present-empty / present-empty with spare capacity / one element,
// alone and together with the other conditional parameters of the definition.
//
//   c13.e2e.opt <Method> <dir> <Def> <param> <state> <others> <k>
//     Method   Go name of the client method called
//     dir      arg: <Def> is the function of the method or a constructor placed inside its arguments (shortest chain,
//              or the shortest chain that passes a Vector<constructor>: suffix of the method name, see <Method>~v)
//              res: <Def> is a constructor placed inside the answer
//     Def      schema name of the definition; param: name of its conditional Vector<..> / bytes parameter
//     state    nil  = the Go value nil                      (schema: absent — bit clear, nothing written)
//              e    = a non-nil slice of length 0, cap 0     (schema: present — bit set, an empty vector / bytes field)
//              cap  = a non-nil slice of length 0, cap 8     (the same value; arg only)
//              one  = one element / a non-empty bytes value  (present)
//     others   the other conditional parameters of <Def>:  - none of them  |  all of them present, non-zero  |
//              mix: per flag bit by the seed, and conditional Vector / bytes parameters that are alone on their bit
//              nil / present-empty / one element by the seed.
//              Parameters that share the flag bit of <param> (its group; `true` parameters: the bit itself) are
//              non-zero exactly when <others> is not `-` and <state> is not nil — the case "param nil inside a group that
//              is present through another member" is c13.e2e.grp's.
//     k        seed of the values
//
// Expected, from the schema alone (own reader of api_latest.tl, group-aware writer of c13groups_build.go, which never
// calls the repository's codec): the request is id, flags word with bit N set iff the Go value is not nil, then the
// parameters announced; the call returns the answer sent, and the value returned serialises — under the same reading
// nil = absent, non-nil = present — to the payload sent. A present group with a nil OBJECT member has no
// serialisation: the call must return an error and send nothing (`refused`).
// The generator proves to itself, per parameter and method, that the expected requests for nil / e / one are three
// different byte strings (Extra: opt_states_not_distinguished must stay empty).
//
// Conditional STRINGS: Go's string has no identity beside its content, "" is the only empty value — the Go layer
// cannot express "present, empty" for `flags.N?string` alone on its bit (it can inside a group that is present
// through another member: c13.e2e.grp). Outside what these operations can ask (see docs/C13.md, and C02's c02.encz).

import (
	"bytes"
	"fmt"
	"reflect"
	"sort"
	"strconv"
	"strings"
)

func c13oIsOpt(t *c13Ty) bool { return t.bit >= 0 && (t.kind == "vector" || t.kind == "bytes") }

// c13oParams: indices (among the value parameters) of the conditional Vector / bytes parameters of d
func c13oParams(d *c13Def) []int {
	var out []int
	for i, p := range c13gValuePars(d) {
		if c13oIsOpt(&p.ty) {
			out = append(out, i)
		}
	}
	return out
}

func c13oState(mk *c13Mk, ty *c13Ty, gt reflect.Type, state string, depth int) (reflect.Value, error) {
	if gt.Kind() != reflect.Slice {
		return reflect.Value{}, fmt.Errorf("schema type %s does not fit Go type %v", ty.kind, gt)
	}
	switch state {
	case "nil":
		return reflect.Zero(gt), nil
	case "e":
		return reflect.MakeSlice(gt, 0, 0), nil
	case "cap":
		return reflect.MakeSlice(gt, 0, 8), nil
	case "one":
		t := *ty
		return mk.val(&t, gt, depth+1, true)
	}
	return reflect.Value{}, fmt.Errorf("bad state token")
}

// c13oSpec fills definition d: value parameter pi in the given state, the others as the token says.
func c13oSpec(mk *c13Mk, d *c13Def, pi int, state, others string, depth int) c13gSpec {
	ps := c13gValuePars(d)
	tkey := c13gKey(&ps[pi].ty)
	members := map[string]int{} // flag bit -> parameters other than `true` ones conditional on it
	for _, p := range ps {
		if p.ty.bit >= 0 && p.ty.kind != "true" {
			members[c13gKey(&p.ty)]++
		}
	}
	bits := map[string]bool{}  // mix: presence per flag bit
	single := map[int]string{} // mix: state of the other conditional vectors / bytes that are alone on their bit
	if others == "mix" {
		for i, p := range ps {
			if p.ty.bit < 0 {
				continue
			}
			k := c13gKey(&p.ty)
			if _, ok := bits[k]; !ok {
				bits[k] = mk.r.Intn(2) == 0
			}
			if i != pi && c13oIsOpt(&p.ty) && members[k] == 1 {
				single[i] = []string{"nil", "e", "one", "cap"}[mk.r.Intn(4)]
			}
		}
	}
	return c13gSpec{
		present: func(i int, p *c13Par) bool {
			k := c13gKey(&p.ty)
			if k == tkey {
				if p.ty.kind == "true" {
					return state != "nil" // the bit itself
				}
				return others != "-" && state != "nil"
			}
			switch others {
			case "all":
				return true
			case "mix":
				return bits[k]
			}
			return false
		},
		over: func(i int, p *c13Par, gt reflect.Type) (reflect.Value, bool, error) {
			if i == pi {
				ty := p.ty
				v, err := c13oState(mk, &ty, gt, state, depth)
				return v, true, err
			}
			if st, ok := single[i]; ok {
				ty := p.ty
				v, err := c13oState(mk, &ty, gt, st, depth)
				return v, true, err
			}
			return reflect.Value{}, false, nil
		},
	}
}

// c13oVectorChain: a shortest chain from the parameters of root to target's type that passes a Vector<constructor>
// position (nil: none within the search). c13gChain finds the overall shortest; this one searches over (type, passed)
// pairs.
func c13oVectorChain(s *c13Schema, root, target *c13Def) []c13gLink {
	type node struct {
		ty     string
		passed bool
		prev   *node
		via    c13gLink
	}
	type key struct {
		ty     string
		passed bool
	}
	seen := map[key]bool{}
	var queue []*node
	push := func(t *c13Ty, prev *node, via c13gLink, passed bool) {
		b := c13gBase(t)
		if b.kind != "boxed" {
			return
		}
		passed = passed || t.kind == "vector"
		if seen[key{b.name, passed}] {
			return
		}
		seen[key{b.name, passed}] = true
		queue = append(queue, &node{b.name, passed, prev, via})
	}
	for i, p := range c13gValuePars(root) {
		ty := p.ty
		push(&ty, nil, c13gLink{root, i}, false)
	}
	for len(queue) > 0 {
		n := queue[0]
		queue = queue[1:]
		if n.ty == target.res && n.passed {
			var rev []c13gLink
			for x := n; x != nil; x = x.prev {
				rev = append(rev, x.via)
			}
			out := make([]c13gLink, len(rev))
			for i := range rev {
				out[len(rev)-1-i] = rev[i]
			}
			return out
		}
		for _, c := range s.ctors[n.ty] {
			if ct, kind := c13GoType(c.id); ct == nil || kind != "struct" {
				continue
			}
			for i, p := range c13gValuePars(c) {
				ty := p.ty
				push(&ty, n, c13gLink{c, i}, n.passed)
			}
		}
	}
	return nil
}

func c13oLine(word string, op []string) string { return word + " " + strings.Join(op[1:7], " ") }

func (w *c13World) optPlan(op []string) (*c13gPlan, error) {
	mname, viaVec := op[1], false
	if strings.HasSuffix(mname, "~v") {
		mname, viaVec = strings.TrimSuffix(mname, "~v"), true
	}
	cm := w.methods[mname]
	if cm == nil || cm.def.generic {
		return nil, fmt.Errorf("no generated client method %s", mname)
	}
	target := w.defByName(op[3])
	if target == nil {
		return nil, fmt.Errorf("the schema has no definition %s", op[3])
	}
	pi := -1
	for _, i := range c13oParams(target) {
		if c13gValuePars(target)[i].name == op[4] {
			pi = i
		}
	}
	if pi < 0 {
		return nil, fmt.Errorf("%s has no conditional Vector / bytes parameter %s", op[3], op[4])
	}
	state, others := op[5], op[6]
	switch state {
	case "nil", "e", "cap", "one":
	default:
		return nil, fmt.Errorf("bad state token")
	}
	switch others {
	case "-", "all", "mix":
	default:
		return nil, fmt.Errorf("bad others token")
	}
	k, _ := strconv.ParseUint(op[7], 10, 64)
	// the seed does not depend on the state: the calls for nil / e / cap / one of one parameter differ in that value only
	// (and in the counters behind a `one` value)
	seed := k*0x9E3779B97F4A7C15 ^ uint64(fnv32([]byte(strings.Join(op[1:5], " ")+" "+others)))
	r := NewRand(seed)
	mk := &c13Mk{s: w.s, r: r, scal: true, vecN: -1}
	tspec := c13oSpec(mk, target, pi, state, others, 0)
	pl := &c13gPlan{cm: cm, resTy: cm.def.resTy}
	outT := cm.typ.Out(0)
	switch op[2] {
	case "arg":
		if target.fn != (target == cm.def) {
			return nil, fmt.Errorf("%s is not the function of %s", target.name, mname)
		}
		if viaVec && target.fn {
			return nil, fmt.Errorf("~v is for constructors")
		}
		spec := tspec
		if target != cm.def {
			var chain []c13gLink
			if viaVec {
				chain = c13oVectorChain(w.s, cm.def, target)
			} else {
				chain = c13gChain(w.s, cm.def, target, true)
			}
			if chain == nil {
				return nil, fmt.Errorf("%s does not occur in the arguments of %s", target.name, cm.def.name)
			}
			spec = c13gAlong(mk, chain, target, tspec, 0)
		}
		var vals []reflect.Value
		if cm.viaStruct {
			st := reflect.New(cm.typ.In(1).Elem())
			if err := c13gFill(mk, cm.def, st.Elem(), 0, spec); err != nil {
				return nil, fmt.Errorf("arguments: %v", err)
			}
			pl.args, vals = []reflect.Value{st}, c13Fields(st.Elem())
		} else {
			var types []reflect.Type
			for i := 1; i < cm.typ.NumIn(); i++ {
				types = append(types, cm.typ.In(i))
			}
			var err error
			if vals, err = c13gFields(mk, cm.def, types, 0, spec); err != nil {
				return nil, fmt.Errorf("arguments: %v", err)
			}
			pl.args = vals
		}
		var buf bytes.Buffer
		buf.Write(c13U32(cm.def.id))
		if err := c13gSerFields(w.s, cm.def, vals, &buf); err != nil {
			pl.noSer = err.Error()
		} else {
			pl.want = buf.Bytes()
		}
		rmk := &c13Mk{s: w.s, r: NewRand(seed ^ 1), scal: true, vecN: -1, n: 500}
		if cm.def.resTy.kind == "vector" {
			rmk.vecN = 2
		}
		var err error
		if pl.res, pl.payload, err = w.result(cm.def, outT, rmk); err != nil {
			return nil, fmt.Errorf("answer: %v", err)
		}
	case "res":
		if target.fn || viaVec || state == "cap" {
			return nil, fmt.Errorf("direction res: a constructor, states nil / e / one")
		}
		chain := c13gChain(w.s, cm.def, target, false)
		if chain == nil {
			return nil, fmt.Errorf("%s does not occur in the result of %s", target.name, cm.def.name)
		}
		var err error
		if pl.args, pl.want, err = w.args(cm, &c13Mk{s: w.s, r: NewRand(seed ^ 1), vecN: -1}); err != nil {
			return nil, fmt.Errorf("arguments: %v", err)
		}
		ty := cm.def.resTy
		pl.res, err = c13gWrap(&ty, outT, func(gt reflect.Type) (reflect.Value, error) {
			if len(chain) == 1 {
				return c13gObject(mk, target, gt, 0, tspec)
			}
			return c13gObject(mk, chain[1].d, gt, 0, c13gAlong(mk, chain[1:], target, tspec, 0))
		})
		if err != nil {
			return nil, fmt.Errorf("answer: %v", err)
		}
		var buf bytes.Buffer
		if err := c13gSer(w.s, &ty, pl.res, &buf); err != nil {
			return nil, fmt.Errorf("answer: %v", err)
		}
		pl.payload = buf.Bytes()
	default:
		return nil, fmt.Errorf("bad direction token")
	}
	return pl, nil
}

func c13oExec(op []string) string {
	if len(op) != 8 {
		return "bad-op"
	}
	w, err := c13Load()
	if err != nil {
		return "harness:" + c13San(err.Error())
	}
	pl, err := w.optPlan(op)
	if err != nil {
		return "harness:" + c13San(err.Error())
	}
	return c13gRun(w, pl, c13oLine("ok", op), c13oLine("refused", op))
}

func c13oJudge(op []string, out string) string {
	if len(op) == 8 && (out == c13oLine("ok", op) || out == c13oLine("refused", op)) {
		return ""
	}
	if len(op) < 2 {
		return "bad-op"
	}
	what := "client method " + strings.TrimSuffix(op[1], "~v")
	if len(op) == 8 {
		where := map[string]string{"arg": "in its arguments", "res": "in the answer"}[op[2]]
		if strings.HasSuffix(op[1], "~v") {
			where = "inside a Vector<constructor> of its arguments"
		}
		state := map[string]string{
			"nil": "nil (schema: absent - flag bit clear, nothing written)",
			"e":   "a non-nil slice of length 0 (schema: present and empty - flag bit set, an empty vector / a zero-length bytes field written)",
			"cap": "a non-nil slice of length 0 and capacity 8 (schema: present and empty - flag bit set, an empty vector / a zero-length bytes field written)",
			"one": "one element / a non-empty bytes value (schema: present)"}[op[5]]
		oth := map[string]string{"-": "every other conditional parameter absent", "all": "every other conditional parameter present",
			"mix": "the other conditional parameters present / absent by the seed"}[op[6]]
		what += fmt.Sprintf(" with %s %s: the conditional parameter %s is %s; %s", op[3], where, op[4], state, oth)
	}
	switch {
	case strings.HasPrefix(out, "harness:") || out == "bad-op":
		return what + ": the harness could not carry the operation out: " + out
	case strings.HasPrefix(out, "request-differs"):
		return what + " - the request is not the one the schema defines for these arguments (absent and present-without-elements are two values of a conditional Vector / bytes parameter; Go tells them apart as nil / non-nil): " + out
	case strings.HasPrefix(out, "request-sent-although"):
		return what + " - a request went out although an object the flags word announces is missing: " + out
	case strings.HasPrefix(out, "result-differs"):
		return what + " - the value returned is not the answer the server sent (absent <-> present without elements): " + out
	case strings.HasPrefix(out, "no-request"):
		return what + ": no request reached the server: " + out
	case strings.HasPrefix(out, "no-return"):
		return what + " does not return the server's answer (no return within the deadline): " + out
	case strings.HasPrefix(out, "panic("):
		return what + " panics: " + out
	case strings.HasPrefix(out, "error("):
		return what + " returns an error instead of the server's answer: " + out
	}
	return what + " does not return the answer the server sent: " + out
}

func c13oGen(g *G) {
	w, err := c13Load()
	if err != nil {
		return
	}
	var defs []*c13Def
	nVec, nBytes := 0, 0
	for _, d := range w.s.byID {
		ix := c13oParams(d)
		if len(ix) == 0 {
			continue
		}
		defs = append(defs, d)
		for _, i := range ix {
			if c13gValuePars(d)[i].ty.kind == "bytes" {
				nBytes++
			} else {
				nVec++
			}
		}
	}
	sort.Slice(defs, func(i, j int) bool { return defs[i].name < defs[j].name })
	type via struct {
		name string
		n    int
	}
	k := func() string { return strconv.Itoa(1 + g.R.Intn(1<<20)) }
	var uncovered, same, unbuildable []string
	covered, throughVec := 0, 0
	anyDir := map[string]bool{} // parameter -> exercised in at least one direction
	for _, d := range defs {
		for _, dir := range []string{"arg", "res"} {
			if d.fn && dir == "res" {
				continue
			}
			var vs []via
			if d.fn {
				for _, n := range w.names {
					if w.methods[n].def == d {
						vs = append(vs, via{n, 0})
					}
				}
			} else {
				dist := c13gDist(w.s, d.res)
				for _, n := range w.names {
					cm := w.methods[n]
					if cm.def.generic {
						continue
					}
					best := -1
					at := func(t c13Ty) {
						if b := c13gBase(&t); b.kind == "boxed" {
							if x, ok := dist[b.name]; ok && (best < 0 || x < best) {
								best = x
							}
						}
					}
					if dir == "arg" {
						for _, p := range cm.def.pars {
							at(p.ty)
						}
					} else {
						at(cm.def.resTy)
					}
					if best >= 0 {
						vs = append(vs, via{n, best})
					}
				}
				sort.SliceStable(vs, func(i, j int) bool { return vs[i].n < vs[j].n })
			}
			var names []string
			for _, v := range vs {
				if len(names) >= g.N(1, 3) {
					break
				}
				names = append(names, v.name)
			}
			// a constructor in the arguments: also through a Vector<constructor>, by the nearest method that has one on the way
			if !d.fn && dir == "arg" {
				for _, v := range vs {
					if v.n > 3 {
						break
					}
					if c13oVectorChain(w.s, w.methods[v.name].def, d) != nil {
						names = append(names, v.name+"~v")
						break
					}
				}
			}
			states := []string{"nil", "e", "cap", "one"}
			if dir == "res" {
				states = []string{"nil", "e", "one"}
			}
			for _, pi := range c13oParams(d) {
				pname := c13gValuePars(d)[pi].name
				used := 0
				for _, mn := range names {
					ok := false
					for _, others := range []string{"-", "all", "mix"} {
						reps := 1
						if others == "mix" && g.Thorough() {
							reps = 3
						}
						for rep := 0; rep < reps; rep++ {
							kk := k()
							want := map[string][]byte{}
							for _, st := range states {
								if others == "mix" && st == "cap" {
									continue
								}
								op := []string{"c13.e2e.opt", mn, dir, d.name, pname, st, others, kk}
								pl, err := w.optPlan(op)
								if err != nil {
									if len(unbuildable) < 12 {
										unbuildable = append(unbuildable, strings.Join(op[1:7], " ")+": "+err.Error())
									}
									continue
								}
								ok = true
								if dir == "arg" {
									want[st] = pl.want
								} else {
									want[st] = pl.payload
								}
								tags := []string{"opt:" + dir, "opt:state=" + st, "opt:others=" + others}
								if strings.HasSuffix(mn, "~v") {
									tags = append(tags, "opt:inside-a-vector-of-constructors")
									throughVec++
								} else if !d.fn {
									tags = append(tags, "opt:inside-a-constructor")
								}
								if pl.want == nil {
									tags = append(tags, "opt:refused")
								}
								g.Emit(strings.Join(op, " "), tags...)
							}
							// the expected bytes tell the states apart (where the arguments have a serialisation at all)
							if a, b, c := want["nil"], want["e"], want["one"]; a != nil && b != nil && c != nil {
								if bytes.Equal(a, b) || bytes.Equal(b, c) || bytes.Equal(a, c) {
									same = append(same, strings.Join([]string{mn, dir, d.name, pname, others, kk}, " "))
								}
							}
							if b, c := want["e"], want["cap"]; b != nil && c != nil && !bytes.Equal(b, c) {
								same = append(same, strings.Join([]string{mn, dir, d.name, pname, others, kk, "e/cap differ"}, " "))
							}
						}
					}
					if ok {
						used++
					}
				}
				if used == 0 {
					uncovered = append(uncovered, d.name+"."+pname+"/"+dir)
				} else {
					covered++
					anyDir[d.name+"."+pname] = true
				}
			}
		}
	}
	g.Extra["opt_conditional_vector_parameters"] = nVec
	g.Extra["opt_conditional_bytes_parameters"] = nBytes
	g.Extra["opt_parameter_directions_covered"] = covered
	g.Extra["opt_operations_inside_a_vector_of_constructors"] = throughVec
	g.Extra["opt_not_reachable"] = uncovered
	nowhere := []string{}
	for _, d := range defs {
		for _, pi := range c13oParams(d) {
			if n := d.name + "." + c13gValuePars(d)[pi].name; !anyDir[n] {
				nowhere = append(nowhere, n)
			}
		}
	}
	g.Extra["opt_parameters_exercised_in_no_direction"] = nowhere
	g.Extra["opt_states_not_distinguished"] = same
	g.Extra["opt_unbuildable_sample"] = unbuildable
	for _, s := range same {
		// a harness fault, not a silent gap: the operation's line says so and Judge reports it
		g.Emit("c13.e2e.opt <expected-bytes-do-not-distinguish:"+strings.ReplaceAll(s, " ", "_")+"> arg - - nil - 0", "opt:harness-fault")
	}
}

func init() {
	p := props["c13"]
	if p == nil {
		panic("c13opt.go must be initialised after c13e2e.go (file order)")
	}
	gen, exec, judge := p.Gen, p.Exec, p.Judge
	p.Gen = func(g *G) { gen(g); c13oGen(g) }
	p.Exec = func(op []string) string {
		if len(op) > 0 && op[0] == "c13.e2e.opt" {
			return c13oExec(op)
		}
		return exec(op)
	}
	p.Judge = func(op []string, out string) string {
		if len(op) > 0 && op[0] == "c13.e2e.opt" {
			return c13oJudge(op, out)
		}
		return judge(op, out)
	}
}
