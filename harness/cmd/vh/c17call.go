package main

// C17 — "repeats the request there" for EVERY kind of call.
//
// c17.req / c17.req2 / c17.two make one kind of call: MakeRequest(ping), answered by a plain rpc_result{pong}. The
// request path treats calls differently by what their answer is: an object, a Bool (unwrapped to a Go bool), a bare
// TL vector (decodable only with the caller's type hint, MakeRequestWithHintToDecoder — the hint belongs to the
// msg_id of the message written, and a repeated request is a new message), and by how the answer is delivered
// (plain, gzip_packed inside rpc_result, inside a msg_container next to another message, both). Two operations:
//
//	c17.home <kind> <shape>                       the home peer H answers the call itself
//	c17.call <kind> <shape> <dcs> <code> <text>   c17.req: H answers rpc_error <code> <text> (in a container when the
//	                                              shape has one); the peers A and B answer the call
//
//	kind   obj | bool:t | bool:f | vlong:<n> | vint:<n> | vobj:<n>     (n elements)
//	shape  plain | gz | cont | cgz
//
// Every value a peer sends is made from the (msg_id, ping_id) of the request it answers, so the value returned to
// the caller names the request and the peer: `outcome=answered by=<peer> value=<kind> reqs=…` is printed only when the
// caller got exactly that value, as the Go type the kind of call returns; the other outcomes are those of c17.req.
// A call that has not returned c17Quiet after the last answer any peer wrote is `outcome=no-return`.

import (
	"bytes"
	"compress/gzip"
	"fmt"
	"reflect"
	"strconv"
	"strings"
	"time"

	"github.com/xelaj/mtproto/internal/mtproto/objects"
)

const (
	c17CrcVector    = 0x1cb5c415
	c17CrcTrue      = 0x997275b5
	c17CrcFalse     = 0xbc799737
	c17CrcGzip      = 0x3072cfa1
	c17CrcContainer = 0x73f1f8dc

	c17Quiet = 2 * time.Second
)

var c17Shapes = []string{"plain", "gz", "cont", "cgz"}

// c17ParseKind: kind token → family and element count
func c17ParseKind(tok string) (kind string, n int, ok bool) {
	switch tok {
	case "obj", "bool:t", "bool:f":
		return tok, 0, true
	}
	parts := strings.SplitN(tok, ":", 2)
	if len(parts) != 2 || (parts[0] != "vlong" && parts[0] != "vint" && parts[0] != "vobj") {
		return "", 0, false
	}
	v, err := strconv.Atoi(parts[1])
	if err != nil || v < 0 || v > 100000 || strconv.Itoa(v) != parts[1] {
		return "", 0, false
	}
	return parts[0], v, true
}

func c17KindTok(kind string, n int) string {
	switch kind {
	case "", "obj":
		return "obj"
	case "bool:t", "bool:f":
		return kind
	}
	return fmt.Sprintf("%s:%d", kind, n)
}

func c17KindWords(tok string) string {
	kind, n, _ := c17ParseKind(tok)
	switch kind {
	case "obj":
		return "an object (MakeRequest)"
	case "bool:t", "bool:f":
		return "a Bool (MakeRequest)"
	case "vlong":
		return fmt.Sprintf("a bare Vector<long> of %d element(s) (MakeRequestWithHintToDecoder, []int64)", n)
	case "vint":
		return fmt.Sprintf("a bare Vector<int> of %d element(s) (MakeRequestWithHintToDecoder, []int32)", n)
	case "vobj":
		return fmt.Sprintf("a bare Vector of %d object(s) (MakeRequestWithHintToDecoder, []*Pong)", n)
	}
	return tok
}

func c17ShapeWords(shape string) string {
	switch shape {
	case "gz":
		return "as rpc_result{gzip_packed}"
	case "cont":
		return "in a msg_container next to another message"
	case "cgz":
		return "as rpc_result{gzip_packed} in a msg_container"
	}
	return "as a plain rpc_result"
}

// c17Hint: the decoder hint the caller of such a call passes (nil: MakeRequest)
func c17Hint(kind string) reflect.Type {
	switch kind {
	case "vlong":
		return reflect.TypeOf([]int64{})
	case "vint":
		return reflect.TypeOf([]int32{})
	case "vobj":
		return reflect.TypeOf([]*objects.Pong{})
	}
	return nil
}

func c17ElemLong(mid, ping uint64, i int) uint64 { return mid + uint64(i)*(ping|1) }
func c17ElemInt(mid, ping uint64, i int) uint32  { return uint32(mid>>2) + uint32(ping)*31 + uint32(i)*7 }

// c17ValueBytes: the TL value a peer sends for the request (mid, ping)
func c17ValueBytes(kind string, n int, mid, ping uint64) []byte {
	pong := func(m, p uint64) []byte { return append(append(c17U32(c17CrcPong), c17U64(m)...), c17U64(p)...) }
	switch kind {
	case "bool:t":
		return c17U32(c17CrcTrue)
	case "bool:f":
		return c17U32(c17CrcFalse)
	case "vlong", "vint", "vobj":
		out := append(c17U32(c17CrcVector), c17U32(uint32(n))...)
		for i := 0; i < n; i++ {
			switch kind {
			case "vlong":
				out = append(out, c17U64(c17ElemLong(mid, ping, i))...)
			case "vint":
				out = append(out, c17U32(c17ElemInt(mid, ping, i))...)
			default:
				out = append(out, pong(mid, ping+uint64(i))...)
			}
		}
		return out
	}
	return pong(mid, ping)
}

// c17ValueIs: v is the Go value of the kind's type that carries exactly what c17ValueBytes(kind, n, mid, ping) says
func c17ValueIs(kind string, n int, v interface{}, mid, ping uint64) bool {
	switch kind {
	case "bool:t", "bool:f":
		b, ok := v.(bool)
		return ok && b == (kind == "bool:t")
	case "vlong":
		s, ok := v.([]int64)
		if !ok || len(s) != n {
			return false
		}
		for i, e := range s {
			if uint64(e) != c17ElemLong(mid, ping, i) {
				return false
			}
		}
		return true
	case "vint":
		s, ok := v.([]int32)
		if !ok || len(s) != n {
			return false
		}
		for i, e := range s {
			if uint32(e) != c17ElemInt(mid, ping, i) {
				return false
			}
		}
		return true
	case "vobj":
		s, ok := v.([]*objects.Pong)
		if !ok || len(s) != n {
			return false
		}
		for i, e := range s {
			if e == nil || uint64(e.MsgID) != mid || uint64(e.PingID) != ping+uint64(i) {
				return false
			}
		}
		return true
	}
	p, ok := v.(*objects.Pong)
	return ok && p != nil && uint64(p.MsgID) == mid && uint64(p.PingID) == ping
}

func c17ShowValue(v interface{}) string {
	rv := reflect.ValueOf(v)
	if rv.IsValid() && rv.Kind() == reflect.Slice {
		return fmt.Sprintf("value-is-%T-of-%d", v, rv.Len())
	}
	if b, ok := v.(bool); ok {
		return fmt.Sprintf("value-is-bool-%v", b)
	}
	return fmt.Sprintf("value-is-%T", v)
}

// c17Shape: the message a peer writes for an answer: rpc_result{payload} delivered as the shape says. mid is the
// msg_id of the message written (the peer leaves mid-4 and mid-8 unused for the messages inside a container), seq
// the content-related seq_no of the answer. An error is never packed.
func c17Shape(shape string, isErr bool, reqMid uint64, payload []byte, mid uint64, seq uint32) ([]byte, uint32) {
	if (shape == "gz" || shape == "cgz") && !isErr {
		var buf bytes.Buffer
		w := gzip.NewWriter(&buf)
		_, _ = w.Write(payload)
		_ = w.Close()
		payload = append(c17U32(c17CrcGzip), c17TLString(buf.Bytes())...)
	}
	res := append(append(c17U32(c17CrcRpcResult), c17U64(reqMid)...), payload...)
	if shape != "cont" && shape != "cgz" {
		return res, seq
	}
	filler := append(append(c17U32(c17CrcPong), c17U64(0x1111)...), c17U64(0x2222)...) // the answer to nobody's ping
	item := func(id uint64, sq uint32, b []byte) []byte {
		return append(append(append(c17U64(id), c17U32(sq)...), c17U32(uint32(len(b)))...), b...)
	}
	out := append(c17U32(c17CrcContainer), c17U32(2)...)
	out = append(out, item(mid-8, seq-1, filler)...)
	out = append(out, item(mid-4, seq, res)...)
	return out, seq + 1
}

func c17CallExec(op []string) string {
	code32 := func(s string) (int32, bool) {
		n, err := strconv.ParseInt(s, 10, 32)
		return int32(n), err == nil
	}
	okShape := func(s string) bool {
		for _, k := range c17Shapes {
			if k == s {
				return true
			}
		}
		return false
	}
	switch {
	case op[0] == "c17.home" && len(op) == 3:
		kind, n, ok := c17ParseKind(op[1])
		if !ok || !okShape(op[2]) {
			return "bad-op"
		}
		return c17Req(c17ReqSpec{dcs: "-", call: true, home: true, kind: kind, n: n, shape: op[2]})
	case op[0] == "c17.call" && len(op) == 6:
		kind, n, ok := c17ParseKind(op[1])
		code, okc := code32(op[4])
		if !ok || !okShape(op[2]) || !okc {
			return "bad-op"
		}
		return c17Req(c17ReqSpec{dcs: op[3], code: code, text: parseBytes(op[5]), call: true, kind: kind, n: n, shape: op[2]})
	}
	return "bad-op"
}

// c17HomeJudge: a call the home peer answers returns that answer (the control of c17.call: the same kinds of
// answer and ways of delivery without an error in between).
func c17HomeJudge(op []string, out string) string {
	if out == "bad-op" || len(op) != 3 || strings.HasPrefix(out, "setup-failed") {
		return ""
	}
	if strings.HasPrefix(out, "panic:") {
		return "panicked (" + out + ")"
	}
	want := fmt.Sprintf("outcome=answered by=%s value=%s reqs=%s:1", hx("H"), op[1], hx("H"))
	if out != want {
		return fmt.Sprintf("request path, a call whose answer is %s delivered %s by the peer the client is connected to: expected %s",
			c17KindWords(op[1]), c17ShapeWords(op[2]), want)
	}
	return ""
}

// c17CallGen: every kind of call x every way of delivery: answered at home; answered PHONE_MIGRATE_n with n configured
// (repeated there, that answer returned); n not configured / another error (the structured error returned to this
// kind of caller too).
func c17CallGen(g *G, code func() int32) {
	itoa := strconv.Itoa
	kinds := []string{"obj", "bool:t", "bool:f", "vlong:0", "vlong:3", "vint:2", "vobj:0", "vobj:2", "vlong:1000"}
	if g.Thorough() {
		kinds = append(kinds, "vlong:1", "vint:0", "vint:5000", "vobj:1", "vobj:300", "vlong:20000")
	}
	ids := []int{0, 1, 2, 3, 4, 5, 7, -1, 100, 2147483647, 9223372036854775807, -9223372036854775808}
	notDefault := func(id int) int {
		for {
			if _, d := c17Default[int64(id)]; !d {
				return id
			}
			id += 1000
		}
	}
	sym := func() string { return string("AB"[g.R.Intn(2)]) }
	for _, k := range kinds {
		for _, sh := range c17Shapes {
			g.Emit(fmt.Sprintf("c17.home %s %s", k, sh), "call-home", "call-kind="+strings.SplitN(k, ":", 2)[0], "call-shape="+sh)
		}
	}
	for rep := 0; rep < g.N(1, 6); rep++ {
		for _, k := range kinds {
			for _, sh := range c17Shapes {
				id := ids[g.R.Intn(len(ids))]
				g.Emit(fmt.Sprintf("c17.call %s %s %d:%s %d %s", k, sh, id, sym(), code(), hx("PHONE_MIGRATE_"+itoa(id))),
					"call-migrate", "call-kind="+strings.SplitN(k, ":", 2)[0], "call-shape="+sh)
			}
		}
	}
	for i, n := 0, g.N(24, 400); i < n; i++ {
		k := kinds[g.R.Intn(len(kinds))]
		sh := c17Shapes[g.R.Intn(len(c17Shapes))]
		id := ids[g.R.Intn(len(ids))]
		var dcs, text, tag string
		switch g.R.Intn(3) {
		case 0:
			id = notDefault(id)
			dcs, text, tag = []string{"-", fmt.Sprintf("%d:A", notDefault(id/2+1))}[g.R.Intn(2)], "PHONE_MIGRATE_"+itoa(id), "call-unconfigured"
		case 1:
			dcs = fmt.Sprintf("%d:%s", id, sym())
			text = []string{"USER_MIGRATE_", "NETWORK_MIGRATE_", "FILE_MIGRATE_", "FLOOD_WAIT_"}[g.R.Intn(4)] + itoa(id)
			tag = "call-other-family"
		default:
			dcs = fmt.Sprintf("%d:%s", id, sym())
			text, tag = c17F.Catalogue[g.R.Intn(len(c17F.Catalogue))].Key, "call-catalogued"
			if name, _, num := specSplit(text); num && name == "PHONE_MIGRATE_X" {
				text = "PHONE_MIGRATE_X"
			}
		}
		g.Emit(fmt.Sprintf("c17.call %s %s %s %d %s", k, sh, dcs, code(), hx(text)), tag, "call-kind="+strings.SplitN(k, ":", 2)[0], "call-shape="+sh)
	}
}
