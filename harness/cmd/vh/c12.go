package main

// C12 — stored sessions are read back intact and let a restarted client resume.
// Real code exercised: internal/session (NewFromFile, Store, Load) on real files in a per-run
// scratch directory, and mtproto.NewMTProto / GetAuthKey / GetServerSalt / SaveSession on a
// pre-filled store; c12.wire also calls CreateConnection + MakeRequest against loopback listeners of its own and
// reads, like a server that holds only the stored key, the first frame the started client writes.

import (
	"crypto/sha1"
	"encoding/base64"
	"encoding/binary"
	"encoding/json"
	"errors"
	"fmt"
	"io"
	"net"
	"os"
	"os/signal"
	"path/filepath"
	"reflect"
	"sort"
	"strconv"
	"strings"
	"sync"
	"syscall"
	"time"
	"unicode/utf8"
	"unsafe"

	"github.com/xelaj/errs"

	"github.com/xelaj/mtproto"
	"github.com/xelaj/mtproto/internal/mtproto/objects"
	"github.com/xelaj/mtproto/internal/session"
)

// ---- scratch directory --------------------------------------------------------------------------

var (
	c12Root    string // per-run scratch directory, removed by Teardown
	c12Counter int
	c12Home    string // the working directory of the process, restored after every chdir
)

func c12Setup(g *G) {
	base := ""
	for i, a := range os.Args {
		if a == "-dir" && i+1 < len(os.Args) {
			base = os.Args[i+1]
		} else if strings.HasPrefix(a, "-dir=") {
			base = strings.TrimPrefix(a, "-dir=")
		}
	}
	var err error
	c12Home, err = os.Getwd()
	if err != nil {
		panic(err)
	}
	if base != "" {
		base, err = filepath.Abs(base)
		if err != nil {
			panic(err)
		}
		if err = os.MkdirAll(base, 0o755); err != nil {
			panic(err)
		}
		c12Root, err = os.MkdirTemp(base, "c12-scratch-")
	} else {
		c12Root, err = os.MkdirTemp("", "c12-scratch-")
	}
	if err != nil {
		panic(err)
	}
}

func c12Teardown() {
	_ = os.Chdir(c12Home)
	if c12Root != "" {
		_ = os.RemoveAll(c12Root)
	}
}

// A shape token is `<path shape>` or `<path shape>+<environment>`. The path shapes: abs, rel, dotrel, bare (directory
// exists), nodir, relnodir (it does not). The environment is what the PROCESS looks like while the loaders work, as far
// as it is not the session path's directory: Store and Load are given a path and have to get along with that path's
// directory alone, whatever else the process can or cannot write to. Environments:
//
//	notmp    TMPDIR names a directory that does not exist (a container without /tmp, a removed per-login temp dir)
//	tmpfile  TMPDIR names a regular file
//	tmpdev   TMPDIR names a directory on ANOTHER filesystem than the session path's (a tmpfs /tmp, PrivateTmp=); on a
//	         machine where no such directory can be found the variable is left alone
//
// os.TempDir reads the variable on every call; it is set for the operation only and put back by the cleanup function.
func c12SplitShape(shape string) (base, env string) {
	if i := strings.IndexByte(shape, '+'); i >= 0 {
		return shape[:i], shape[i+1:]
	}
	return shape, ""
}

var c12Envs = []string{"notmp", "tmpfile", "tmpdev"}

// c12OtherDevice: a fresh directory on another filesystem than `ref` ("" when there is none); the caller removes it.
func c12OtherDevice(ref string) string {
	dev := func(p string) (uint64, bool) {
		var st syscall.Stat_t
		if err := syscall.Stat(p, &st); err != nil {
			return 0, false
		}
		return uint64(st.Dev), true
	}
	d0, ok := dev(ref)
	if !ok {
		return ""
	}
	for _, c := range []string{"/dev/shm", "/run", "/var/tmp", "/tmp"} {
		if d, ok := dev(c); ok && d != d0 {
			if dir, err := os.MkdirTemp(c, "c12-scratch-tmpdir-"); err == nil {
				return dir
			}
		}
	}
	return ""
}

// c12Place makes a fresh directory for one operation and returns the path the loaders are given,
// and a cleanup function (restores the working directory and the environment, removes the directory).
func c12Place(shapeEnv string) (path string, done func()) {
	shape, env := c12SplitShape(shapeEnv)
	c12Counter++
	top := filepath.Join(c12Root, strconv.Itoa(c12Counter))
	if err := os.MkdirAll(filepath.Join(top, "d"), 0o755); err != nil {
		panic(err)
	}
	oldTmp, hadTmp := os.LookupEnv("TMPDIR")
	outside := ""
	done = func() {
		if hadTmp {
			_ = os.Setenv("TMPDIR", oldTmp)
		} else {
			_ = os.Unsetenv("TMPDIR")
		}
		_ = os.Chdir(c12Home)
		_ = os.RemoveAll(top)
		if outside != "" {
			_ = os.RemoveAll(outside)
		}
	}
	cd := func() {
		if err := os.Chdir(top); err != nil {
			panic(err)
		}
	}
	switch env {
	case "":
	case "notmp":
		_ = os.Setenv("TMPDIR", filepath.Join(top, "no-such-directory"))
	case "tmpfile":
		f := filepath.Join(top, "not-a-directory")
		if err := os.WriteFile(f, []byte("x"), 0o600); err != nil {
			panic(err)
		}
		_ = os.Setenv("TMPDIR", f)
	case "tmpdev":
		if outside = c12OtherDevice(top); outside != "" {
			_ = os.Setenv("TMPDIR", outside)
		}
	default:
		done()
		panic("bad environment token: " + env)
	}
	switch shape {
	case "abs":
		path = filepath.Join(top, "d", "s.json")
	case "rel":
		cd()
		path = "d/s.json"
	case "dotrel":
		cd()
		path = "./s.json"
	case "bare":
		cd()
		path = "s.json"
	case "nodir":
		path = filepath.Join(top, "missing", "s.json")
	case "relnodir":
		cd()
		path = "missing/s.json"
	default:
		done()
		panic("bad shape token: " + shape)
	}
	return path, done
}

var c12Shapes = []string{"abs", "rel", "dotrel", "bare", "nodir", "relnodir"}

func c12DirExists(shapeEnv string) bool {
	shape, _ := c12SplitShape(shapeEnv)
	return shape != "nodir" && shape != "relnodir"
}

// c12InEnv: the shape with one of the environments attached
func c12InEnv(g *G, shape string) string { return shape + "+" + c12Envs[g.R.Intn(len(c12Envs))] }

// ---- canonical output ---------------------------------------------------------------------------

type c12Sess struct {
	key, hash []byte
	salt      int64
	host      []byte
}

func c12ParseSess(t string) c12Sess {
	p := strings.Split(t, ",")
	if len(p) != 4 {
		panic("bad session token: " + t)
	}
	salt, err := strconv.ParseInt(p[2], 10, 64)
	if err != nil {
		panic("bad salt token: " + p[2])
	}
	return c12Sess{parseBytes(p[0]), parseBytes(p[1]), salt, parseBytes(p[3])}
}

func (s c12Sess) token() string {
	return fmt.Sprintf("%s,%s,%d,%s", hexD(s.key), hexD(s.hash), s.salt, hexD(s.host))
}

func (s c12Sess) real() *session.Session {
	return &session.Session{Key: s.key, Hash: s.hash, Salt: s.salt, Hostname: string(s.host)}
}

func c12Show(k, h []byte, salt int64, host []byte) string {
	return fmt.Sprintf("%s/%s/%d/%s", showBytes(k), showBytes(h), salt, showBytes(host))
}

func (s c12Sess) show() string { return c12Show(s.key, s.hash, s.salt, s.host) }

func c12LoadClass(err error) string {
	if errs.IsNotFound(err) {
		return "notfound"
	}
	var se *json.SyntaxError
	if errors.As(err, &se) {
		return "syntax"
	}
	var te *json.UnmarshalTypeError
	if errors.As(err, &te) {
		return "type"
	}
	m := err.Error()
	switch {
	case strings.Contains(m, "invalid binary data of 'key'"):
		return "b64key"
	case strings.Contains(m, "invalid binary data of 'hash'"):
		return "b64hash"
	case strings.Contains(m, "invalid binary data of 'salt'"):
		return "b64salt"
	case strings.Contains(m, "reading file"):
		return "read"
	}
	if c12IsOSErr(err) {
		return "other" // permission, ENOTDIR, …: outside the model, never expected here
	}
	return "?" // a refusal of Load itself whose text the harness does not know (a reworded message)
}

func c12ShowLoad(s *session.Session, err error) string {
	if err != nil {
		return "err:" + c12LoadClass(err)
	}
	if s == nil {
		return "nil"
	}
	return "ok:" + c12Show(s.Key, s.Hash, s.Salt, []byte(s.Hostname))
}

func c12ShowStore(err error) string {
	if err == nil {
		return "ok"
	}
	m := err.Error()
	switch {
	case strings.HasSuffix(m, "directory not found"):
		return "err:nodir"
	case strings.HasSuffix(m, "not a directory"):
		return "err:notdir"
	case c12IsOSErr(err):
		return "err:write"
	}
	return "err:?" // a refusal of Store itself whose text the harness does not know
}

// c12IsOSErr: the error comes from the operating system (a *PathError, *LinkError, SyscallError … underneath)
func c12IsOSErr(err error) bool {
	c := err
	for {
		u, ok := c.(interface{ Cause() error })
		if !ok || u.Cause() == nil {
			break
		}
		c = u.Cause()
	}
	switch c.(type) {
	case *os.PathError, *os.LinkError, *os.SyscallError:
		return true
	}
	return false
}

func c12Time(m int) time.Time { return time.Unix(1577836800+int64(m), 0) }

// ---- independent spec of the file format (generation of torn files, and the oracle) ---------------

// specFile is the file the property describes: a JSON object with base64 key, hash, little-endian
// salt and the host name. Written here from the description, not from file.go.
func specFile(s c12Sess) []byte {
	var sb [8]byte
	for i := 0; i < 8; i++ {
		sb[i] = byte(uint64(s.salt) >> (8 * i))
	}
	type f struct {
		Key      string `json:"key"`
		Hash     string `json:"hash"`
		Salt     string `json:"salt"`
		Hostname string `json:"hostname"`
	}
	b, _ := json.Marshal(f{base64.StdEncoding.EncodeToString(s.key), base64.StdEncoding.EncodeToString(s.hash),
		base64.StdEncoding.EncodeToString(sb[:]), string(s.host)})
	return b
}

// ---- operations ---------------------------------------------------------------------------------

func c12Exec(op []string) string {
	switch op[0] {
	case "c12.b64":
		b := parseBytes(op[1])
		e := base64.StdEncoding.EncodeToString(b)
		d, err := base64.StdEncoding.DecodeString(e)
		ds := "err"
		if err == nil {
			ds = "ok:" + showBytes(d)
		}
		return fmt.Sprintf("enc=%s dec=%s", showBytes([]byte(e)), ds)
	case "c12.b64d":
		d, err := base64.StdEncoding.DecodeString(string(parseBytes(op[1])))
		if err != nil {
			return "err"
		}
		return "ok:" + showBytes(d)
	case "c12.file":
		path, done := c12Place("abs")
		defer done()
		if err := os.WriteFile(path, parseBytes(op[1]), 0o600); err != nil {
			panic(err)
		}
		return c12ShowLoad(session.NewFromFile(path).Load())
	case "c12.rt":
		path, done := c12Place(op[1])
		defer done()
		s := c12ParseSess(op[2])
		l := session.NewFromFile(path)
		st := c12ShowStore(l.Store(s.real()))
		file := "none"
		if data, err := os.ReadFile(path); err == nil {
			file = showBytes(data)
		}
		same := c12ShowLoad(l.Load())
		fresh := c12ShowLoad(session.NewFromFile(path).Load())
		return fmt.Sprintf("store=%s file=%s same=%s fresh=%s", st, file, same, fresh)
	case "c12.seq", "c12.nat":
		return c12History(op[1], op[2:], op[0] == "c12.seq")
	case "c12.torn":
		path, done := c12Place("abs")
		defer done()
		s := c12ParseSess(op[1])
		if err := session.NewFromFile(path).Store(s.real()); err != nil {
			return "store-failed"
		}
		data, err := os.ReadFile(path)
		if err != nil {
			panic(err)
		}
		counts := map[string]int{}
		for k := 0; k < len(data); k++ {
			if err := os.WriteFile(path, data[:k], 0o600); err != nil {
				panic(err)
			}
			counts[c12TornClass(path)]++
		}
		out := fmt.Sprintf("n=%d", len(data))
		for _, c := range []string{"ok", "syntax", "type", "b64key", "b64hash", "b64salt", "panic"} {
			if counts[c] > 0 {
				out += fmt.Sprintf(" %s=%d", c, counts[c])
				delete(counts, c)
			}
		}
		var rest []string
		for c := range counts {
			rest = append(rest, c)
		}
		sort.Strings(rest)
		for _, c := range rest {
			out += fmt.Sprintf(" %s=%d", c, counts[c])
		}
		return out
	case "c12.resume":
		return c12Resume(op[1], c12ParseSess(op[2]))
	case "c12.cut":
		if len(op) != 5 || (op[2] != "0" && op[2] != "1") {
			return "bad-op"
		}
		switch op[1] {
		case "abs", "rel", "dotrel", "bare":
		default:
			return "bad-op"
		}
		return c12Cut(op[1], op[2] == "1", c12ParseSess(op[3]), c12ParseSess(op[4]))
	case "c12.cfg":
		if len(op) != 6 {
			return "bad-op"
		}
		return c12Cfg(op[1], op[2], op[3], c12ParseSess(op[4]), c12ParseSess(op[5]))
	case "c12.wire":
		if len(op) != 7 {
			return "bad-op"
		}
		salt, err1 := strconv.ParseInt(op[5], 10, 64)
		ping, err2 := strconv.ParseUint(op[6], 10, 63)
		if err1 != nil || err2 != nil {
			return "bad-op"
		}
		return c12Wire(op[1], op[2], parseBytes(op[3]), parseBytes(op[4]), salt, ping)
	}
	return "bad-op"
}

// ---- a Store that is cut by the operating system, with an older session at the path ---------------------------

var c12XfszOnce sync.Once

// c12WithFileLimit runs f while no file of the process can grow past k bytes (RLIMIT_FSIZE): a write that would is
// cut there by the kernel — the bytes up to k are written, the next write fails with EFBIG — as a full disk, a quota
// or the death of the process at that byte leaves it. SIGXFSZ (deadly by default) is ignored for the rest of the run.
// Nothing else of the process writes to a file meanwhile: the run loop waits for this operation.
func c12WithFileLimit(k uint64, f func()) {
	c12XfszOnce.Do(func() { signal.Ignore(syscall.SIGXFSZ) })
	var was syscall.Rlimit
	if err := syscall.Getrlimit(syscall.RLIMIT_FSIZE, &was); err != nil {
		panic(err)
	}
	if k > was.Cur {
		k = was.Cur
	}
	if err := syscall.Setrlimit(syscall.RLIMIT_FSIZE, &syscall.Rlimit{Cur: k, Max: was.Max}); err != nil {
		panic(err)
	}
	defer func() {
		if err := syscall.Setrlimit(syscall.RLIMIT_FSIZE, &was); err != nil {
			panic(err)
		}
	}()
	f()
}

// c12Cut: `c12.cut <shape> <loaded> <older session> <newer session>`. For EVERY k in 0..n (n = length of the file of
// the newer session): the older session is stored at the path by a loader (which then loads it when <loaded> is 1);
// the same loader stores the newer session while the operating system cuts every write at byte k — the library's own
// write path decides what is left on the disk; then the same loader and a fresh one load. Each Load is classified
// against the two sessions that were stored: error / older / newer / third (a session nobody stored).
//
//	n=<n> cuts=<n+1> storefail=<cuts at which Store reported an error> same=error:<a>,older:<b>,newer:<c>,third:<d> fresh=… first=<k>:<who>:<what it loaded>|-
func c12Cut(shape string, loaded bool, older, newer c12Sess) string {
	path, done := c12Place(shape)
	defer done()
	// the length of the newer session's file, as the real Store writes it
	if err := session.NewFromFile(path).Store(newer.real()); err != nil {
		return "store-failed"
	}
	whole, err := os.ReadFile(path)
	if err != nil {
		panic(err)
	}
	n := len(whole)
	classes := []string{"error", "older", "newer", "third"}
	counts := map[string]map[string]int{"same": {}, "fresh": {}}
	classify := func(s *session.Session, err error) (cls string) {
		switch got := c12ShowLoad(s, err); {
		case err != nil || s == nil:
			return "error"
		case got == "ok:"+newer.show():
			return "newer"
		case got == "ok:"+older.show():
			return "older"
		}
		return "third"
	}
	load := func(l session.SessionLoader) (cls, shown string) {
		defer func() {
			if r := recover(); r != nil {
				cls, shown = "panic", "panic"
			}
		}()
		s, err := l.Load()
		return classify(s, err), c12ShowLoad(s, err)
	}
	storeFail := 0
	first := "-"
	for k := 0; k <= n; k++ {
		_ = os.Remove(path)
		l := session.NewFromFile(path)
		if err := l.Store(older.real()); err != nil {
			return "store-failed"
		}
		if loaded {
			if cls, _ := load(l); cls != "older" && cls != "newer" {
				return "older-session-not-read-back"
			}
		}
		var serr error
		c12WithFileLimit(uint64(k), func() { serr = l.Store(newer.real()) })
		if serr != nil {
			storeFail++
		}
		for _, who := range []string{"same", "fresh"} {
			ld := l
			if who == "fresh" {
				ld = session.NewFromFile(path)
			}
			cls, shown := load(ld)
			counts[who][cls]++
			if (cls == "third" || cls == "panic") && first == "-" {
				left, _ := os.ReadFile(path)
				file := hexD(left)
				if len(left) > 200 { // the end of the file is where salt and host name are
					file = hexD(left[:24]) + "…" + hexD(left[len(left)-150:])
				}
				first = fmt.Sprintf("%d:%s:%s:file:%s", k, who, shown, file)
			}
		}
	}
	line := func(who string) string {
		var p []string
		for _, c := range classes {
			p = append(p, fmt.Sprintf("%s:%d", c, counts[who][c]))
		}
		if counts[who]["panic"] > 0 {
			p = append(p, fmt.Sprintf("panic:%d", counts[who]["panic"]))
		}
		return strings.Join(p, ",")
	}
	return fmt.Sprintf("n=%d cuts=%d storefail=%d same=%s fresh=%s first=%s", n, n+1, storeFail, line("same"), line("fresh"), first)
}

// c12JudgeCut: the property's sentence about files "cut short at any byte — as a crash during writing leaves it":
// whatever the cut write left, every Load reports an error or returns one of the two sessions that were stored.
func c12JudgeCut(op []string, out string) string {
	f := kv(out)
	if f["n"] == "" {
		return "" // the operation could not be set up (compared with the model only)
	}
	for _, who := range []string{"same", "fresh"} {
		for _, c := range strings.Split(f[who], ",") {
			p := strings.Split(c, ":")
			if len(p) == 2 && (p[0] == "third" || p[0] == "panic") && p[1] != "0" {
				older, newer := c12ParseSess(op[3]), c12ParseSess(op[4])
				loader := map[string]string{"same": "the loader that stored", "fresh": "a fresh loader"}[who]
				what := "returned without error a session nobody stored"
				if p[0] == "panic" {
					what = "panicked"
				}
				return fmt.Sprintf("Store of a session over an older one, the write cut by the operating system at each of %s byte positions: at %s of them %s %s (stored were %s and %s); first: cut at byte <k>:<loader>:<what it loaded>:file:<what the cut write left> = %s",
					f["cuts"], p[1], loader, what, older.show(), newer.show(), f["first"])
			}
		}
	}
	return ""
}

func c12TornClass(path string) (cls string) {
	defer func() {
		if r := recover(); r != nil {
			cls = "panic"
		}
	}()
	_, err := session.NewFromFile(path).Load()
	if err == nil {
		return "ok"
	}
	return c12LoadClass(err)
}

// c12Client: what a client started on a store holds, as far as it can be observed without touching the store:
// the encrypted flag, key and salt (getters), key id and address (private fields, read by reflection).
//
//	C<enc>:<key>/<key id>/<salt>/<address>     Cerr:<class> when NewMTProto refuses
func c12ShowClient(m *mtproto.MTProto, err error) string {
	if err != nil {
		return "Cerr:" + c12LoadClass(err)
	}
	v := reflect.ValueOf(m).Elem()
	enc := "?"
	if f := v.FieldByName("encrypted"); f.IsValid() && f.Kind() == reflect.Bool {
		enc = "0"
		if f.Bool() {
			enc = "1"
		}
	}
	hash, addr := "?", "?"
	if f := v.FieldByName("authKeyHash"); f.IsValid() && f.Kind() == reflect.Slice && f.Type().Elem().Kind() == reflect.Uint8 {
		hash = showBytes(f.Bytes())
	}
	if f := v.FieldByName("addr"); f.IsValid() && f.Kind() == reflect.String {
		addr = showBytes([]byte(f.String()))
	}
	return fmt.Sprintf("C%s:%s/%s/%d/%s", enc, showBytes(m.GetAuthKey()), hash, m.GetServerSalt(), addr)
}

// c12History runs a history on one path. Items:
//
//	S:<loader>:<session>:<mtime>   Store by a long-lived loader (the file's modification time forced to <mtime>)
//	L:<loader>                     Load by a long-lived loader            F   Load by a fresh loader
//	X:<bytes>:<mtime>              another writer leaves this content     D   the file is deleted
//	C:<loader>                     a client is started on the long-lived loader: NewMTProto(Config{SessionStorage: loader})
//	H                              everything handed out so far is looked at again: the sessions the Loads returned
//	                               and the clients started must still be what they were when they were handed out
//	MS:<n>:<modes>                 the CALLER of the n-th S item goes on using the session object it passed to Store
//	MG:<n>:<modes>                 the holder of the n-th session a Load returned changes it (its own object now)
//	MC:<n>:<modes>                 the n-th started client changes (key / key id bytes written in place, a new salt)
//	V:<n>:<mtime>                  the n-th started client saves its session (SaveSession, through its storage)
//
// modes (letters, applied in order) — sessions: k every key byte ^0xff IN PLACE, h the same for the hash, 1 one bit of
// the first key byte, z key and hash zeroed in place (wiped), s another salt (^salt), n another host name, r re-sliced
// (key[len/2:], hash[:0]), a appended within capacity, p other slices put in; clients: k, h, z in place (the key through
// GetAuthKey()), s another salt. What the holder changed itself is what it holds from then on (H compares with that);
// everything else that was handed out, and everything the loaders return later, must be as if nothing had happened.
func c12History(shape string, items []string, forceTimes bool) string {
	path, done := c12Place(shape)
	defer done()
	loaders := []session.SessionLoader{session.NewFromFile(path), session.NewFromFile(path), session.NewFromFile(path)}
	stamp := func(m string) {
		if forceTimes {
			t := c12Time(atoi(m))
			if err := os.Chtimes(path, t, t); err != nil {
				panic(err)
			}
		}
	}
	type heldT struct {
		item int
		s    *session.Session
		m    *mtproto.MTProto
		was  string
	}
	var held []heldT
	var passed []*session.Session // the objects the callers passed to Store (S items), still in the callers' hands
	nth := func(n int, client bool) *heldT {
		for j := range held {
			if (held[j].m != nil) == client {
				if n == 0 {
					return &held[j]
				}
				n--
			}
		}
		return nil
	}
	load := func(i int, l session.SessionLoader) string {
		s, err := l.Load()
		out := c12ShowLoad(s, err)
		if err == nil && s != nil {
			held = append(held, heldT{item: i, s: s, was: out})
		}
		return out
	}
	var outs []string
	for i, it := range items {
		p := strings.Split(it, ":")
		switch {
		case p[0] == "S" && len(p) == 4:
			cs := c12CallerSess(c12ParseSess(p[2]))
			passed = append(passed, cs)
			err := loaders[atoi(p[1])].Store(cs)
			if err == nil {
				stamp(p[3])
			}
			outs = append(outs, c12ShowStore(err))
		case p[0] == "L" && len(p) == 2:
			outs = append(outs, load(i, loaders[atoi(p[1])]))
		case p[0] == "F" && len(p) == 1:
			outs = append(outs, load(i, session.NewFromFile(path)))
		case p[0] == "C" && len(p) == 2:
			m, err := mtproto.NewMTProto(mtproto.Config{SessionStorage: loaders[atoi(p[1])], ServerHost: c12CfgHost})
			out := c12ShowClient(m, err)
			if err == nil {
				held = append(held, heldT{item: i, m: m, was: out})
			}
			outs = append(outs, out)
		case p[0] == "MS" && len(p) == 3:
			if n := atoi(p[1]); n < len(passed) {
				c12MutateSess(passed[n], p[2])
				outs = append(outs, "ok")
			} else {
				outs = append(outs, "none")
			}
		case p[0] == "MG" && len(p) == 3:
			if h := nth(atoi(p[1]), false); h != nil {
				c12MutateSess(h.s, p[2])
				h.was = c12ShowLoad(h.s, nil) // its holder changed it: that is what it holds now
				outs = append(outs, "ok")
			} else {
				outs = append(outs, "none")
			}
		case p[0] == "MC" && len(p) == 3:
			if h := nth(atoi(p[1]), true); h != nil {
				r := c12MutateClient(h.m, p[2])
				h.was = c12ShowClient(h.m, nil)
				outs = append(outs, r)
			} else {
				outs = append(outs, "none")
			}
		case p[0] == "V" && len(p) == 3:
			if h := nth(atoi(p[1]), true); h != nil {
				err := h.m.SaveSession()
				if err == nil {
					stamp(p[2])
				}
				outs = append(outs, c12ShowStore(err))
			} else {
				outs = append(outs, "none")
			}
		case p[0] == "H" && len(p) == 1:
			var changed []string
			for _, h := range held {
				now := ""
				if h.s != nil {
					now = c12ShowLoad(h.s, nil)
				} else {
					now = c12ShowClient(h.m, nil)
				}
				if now != h.was {
					changed = append(changed, fmt.Sprintf("item%d:%s->%s", h.item, h.was, now))
				}
			}
			if len(changed) == 0 {
				outs = append(outs, "held=same")
			} else {
				outs = append(outs, "held=changed:"+strings.Join(changed, ";"))
			}
		case p[0] == "X" && len(p) == 3:
			if err := os.WriteFile(path, parseBytes(p[1]), 0o600); err != nil {
				return "bad-op"
			}
			stamp(p[2])
			outs = append(outs, "ok")
		case p[0] == "D" && len(p) == 1:
			_ = os.Remove(path)
			outs = append(outs, "ok")
		default:
			return "bad-op"
		}
	}
	return strings.Join(outs, " ")
}

const c12CfgHost = "cfg.host:443"

// c12CallerSess: the session object a caller passes to Store — its key and hash slices have room behind their length
// (a buffer the caller goes on using), so that "append within capacity" writes into the same array
func c12CallerSess(s c12Sess) *session.Session {
	room := func(b []byte) []byte {
		if b == nil {
			return nil
		}
		buf := make([]byte, len(b), len(b)+8)
		copy(buf, b)
		return buf
	}
	return &session.Session{Key: room(s.key), Hash: room(s.hash), Salt: s.salt, Hostname: string(s.host)}
}

// c12MutateSess: what the holder of a session object does with it afterwards (modes: see c12History)
func c12MutateSess(s *session.Session, modes string) {
	for _, c := range modes {
		switch c {
		case 'k':
			for i := range s.Key {
				s.Key[i] ^= 0xff
			}
		case 'h':
			for i := range s.Hash {
				s.Hash[i] ^= 0xff
			}
		case '1':
			if len(s.Key) > 0 {
				s.Key[0] ^= 1
			}
		case 'z':
			for i := range s.Key {
				s.Key[i] = 0
			}
			for i := range s.Hash {
				s.Hash[i] = 0
			}
		case 's':
			s.Salt = ^s.Salt
		case 'n':
			s.Hostname += "x"
		case 'r':
			s.Key = s.Key[len(s.Key)/2:]
			s.Hash = s.Hash[:0]
		case 'a':
			s.Key = append(s.Key, 0xa5, 0x5a)
			s.Hash = append(s.Hash, 0xa5)
		case 'p':
			s.Key = []byte{0xde, 0xad}
			s.Hash = nil
		}
	}
}

// c12MutateClient: a client's key / key id bytes written in place (the key through the slice GetAuthKey returns, the
// key id through the private field), another salt (the private field, as the handling of bad_server_salt sets it)
func c12MutateClient(m *mtproto.MTProto, modes string) string {
	v := reflect.ValueOf(m).Elem()
	var hash []byte
	if f := v.FieldByName("authKeyHash"); f.IsValid() && f.Kind() == reflect.Slice && f.Type().Elem().Kind() == reflect.Uint8 {
		hash = f.Bytes()
	}
	key := m.GetAuthKey()
	for _, c := range modes {
		switch c {
		case 'k':
			for i := range key {
				key[i] ^= 0xff
			}
		case 'h':
			for i := range hash {
				hash[i] ^= 0xff
			}
		case 'z':
			for i := range key {
				key[i] = 0
			}
			for i := range hash {
				hash[i] = 0
			}
		case 's':
			f := v.FieldByName("serverSalt")
			if !f.IsValid() || f.Kind() != reflect.Int64 || !f.CanAddr() {
				return "nofield"
			}
			p := (*int64)(unsafe.Pointer(f.UnsafeAddr()))
			*p = ^*p
		}
	}
	return "ok"
}

func c12Resume(present string, s c12Sess) string {
	path, done := c12Place("abs")
	defer done()
	switch {
	case present == "1":
		if err := session.NewFromFile(path).Store(s.real()); err != nil {
			return "store-failed"
		}
	case present == "0":
	case strings.HasPrefix(present, "t"):
		if err := session.NewFromFile(path).Store(s.real()); err != nil {
			return "store-failed"
		}
		data, err := os.ReadFile(path)
		if err != nil {
			panic(err)
		}
		k := atoi(present[1:])
		if k > len(data) {
			k = len(data)
		}
		if err := os.WriteFile(path, data[:k], 0o600); err != nil {
			panic(err)
		}
	default:
		return "bad-op"
	}
	// the restarted process: a new client on the store
	m, err := mtproto.NewMTProto(mtproto.Config{AuthKeyFile: path, ServerHost: c12CfgHost})
	if err != nil {
		return "err:" + c12LoadClass(err)
	}
	enc := "?"
	if f := reflect.ValueOf(m).Elem().FieldByName("encrypted"); f.IsValid() && f.Kind() == reflect.Bool {
		enc = "0"
		if f.Bool() {
			enc = "1"
		}
	}
	key := m.GetAuthKey()
	salt := m.GetServerSalt()
	// the address (and the key hash) are private: SaveSession writes all four back to the store
	saved := "save-failed"
	if err := m.SaveSession(); err == nil {
		if ss, err := session.NewFromFile(path).Load(); err == nil {
			saved = c12Show(ss.Key, ss.Hash, ss.Salt, []byte(ss.Hostname))
		} else {
			saved = "reload-failed:" + c12LoadClass(err)
		}
	}
	return fmt.Sprintf("enc=%s key=%s salt=%d saved=%s", enc, showBytes(key), salt, saved)
}

// c12Mem is a session storage of the application's own (the SessionLoader interface): it holds a session or nothing.
type c12Mem struct{ s *session.Session }

func c12Copy(s *session.Session) *session.Session {
	return &session.Session{Key: append([]byte(nil), s.Key...), Hash: append([]byte(nil), s.Hash...), Salt: s.Salt, Hostname: s.Hostname}
}

func (m *c12Mem) Load() (*session.Session, error) {
	if m.s == nil {
		return nil, errs.NotFound("session", "c12Mem")
	}
	return c12Copy(m.s), nil
}

func (m *c12Mem) Store(s *session.Session) error {
	m.s = c12Copy(s)
	return nil
}

// c12Cfg: the two ways Config has to name the session storage, set one at a time and BOTH at once.
//
//	c12.cfg <storage> <state> <file> <session A> <session B>
//	<storage>  what Config.SessionStorage is: file (session.NewFromFile on a path of its own), mem (a c12Mem), nil
//	<state>    1: that storage holds session A     0: it holds nothing
//	<file>     what Config.AuthKeyFile is: unset (""), or a path (another one than the storage's) at which there is
//	           0: no file   1: the file of session B   t<k>: the first k bytes of it   nodir: not even a directory
//
// Config says: "if SessionStorage is nil, AuthKeyFile is required, otherwise it will be ignored". Shown: the client
// NewMTProto returns; then the storage the Config names is emptied and the client saves its session: what that storage
// holds afterwards (seen by a fresh loader), and whether the place Config must ignore is as it was.
//
//	client=<C…|Cerr:…> saved=<ok:…|err:…|save-failed|-> other=<same|changed|->
func c12Cfg(kind, state, file string, a, b c12Sess) string {
	place, done := c12Place("abs")
	defer done()
	dir := filepath.Dir(place)
	storePath := filepath.Join(dir, "storage.json")
	cfg := mtproto.Config{ServerHost: c12CfgHost}
	var mem *c12Mem
	switch kind {
	case "file":
		if state == "1" {
			if err := session.NewFromFile(storePath).Store(a.real()); err != nil {
				return "store-failed"
			}
		}
		cfg.SessionStorage = session.NewFromFile(storePath)
	case "mem":
		mem = &c12Mem{}
		if state == "1" {
			mem.s = a.real()
		}
		cfg.SessionStorage = mem
	case "nil":
	default:
		return "bad-op"
	}
	if state != "0" && state != "1" {
		return "bad-op"
	}
	filePath := filepath.Join(dir, "authkey.json")
	switch {
	case file == "unset":
		filePath = ""
	case file == "0":
	case file == "nodir":
		filePath = filepath.Join(dir, "missing", "authkey.json")
	case file == "1" || strings.HasPrefix(file, "t"):
		if err := session.NewFromFile(filePath).Store(b.real()); err != nil {
			return "store-failed"
		}
		if file != "1" {
			data, err := os.ReadFile(filePath)
			if err != nil {
				panic(err)
			}
			k := atoi(file[1:])
			if k > len(data) {
				k = len(data)
			}
			if err := os.WriteFile(filePath, data[:k], 0o600); err != nil {
				panic(err)
			}
		}
	default:
		return "bad-op"
	}
	cfg.AuthKeyFile = filePath
	look := func(p string) string { // what is at a path
		if p == "" {
			return "unset"
		}
		data, err := os.ReadFile(p)
		if err != nil {
			return "none"
		}
		return "file:" + string(data)
	}
	m, err := mtproto.NewMTProto(cfg)
	if err != nil {
		if strings.Contains(err.Error(), "AuthKeyFile is empty") {
			return "client=Cerr:nostorage saved=- other=-"
		}
		return "client=" + c12ShowClient(m, err) + " saved=- other=-"
	}
	client := c12ShowClient(m, nil)
	// the storage the Config names is emptied; the place it must ignore is remembered
	other, otherWas := "", ""
	switch kind {
	case "file":
		_ = os.Remove(storePath)
		other, otherWas = filePath, look(filePath)
	case "mem":
		mem.s = nil
		other, otherWas = filePath, look(filePath)
	case "nil":
		_ = os.Remove(filePath)
	}
	saved := "save-failed"
	if err := m.SaveSession(); err == nil {
		switch kind {
		case "file":
			saved = c12ShowLoad(session.NewFromFile(storePath).Load())
		case "mem":
			saved = c12ShowLoad(mem.Load())
		case "nil":
			saved = c12ShowLoad(session.NewFromFile(filePath).Load())
		}
	}
	o := "-"
	if kind != "nil" {
		o = "same"
		if look(other) != otherWas {
			o = "changed"
		}
	}
	return fmt.Sprintf("client=%s saved=%s other=%s", client, saved, o)
}

// c12Wire: the started client as the SERVER sees it.
//
//	c12.wire <storage> <state> <key> <hash> <salt> <ping id>
//	<storage>  how the Config names the store: file (AuthKeyFile), given (SessionStorage: the file loader), mem
//	           (SessionStorage: a c12Mem)
//	<state>    1: the store holds the session (key, hash, salt, address of loopback listener "stored")   0: nothing
//
// Two loopback listeners stand for the two addresses a client could talk to: "stored" (the address in the stored
// session) and "configured" (Config.ServerHost). The session is stored with the real Store, the client is started
// (NewMTProto), connected (CreateConnection) and asked for one request (MakeRequest of a ping). The first frame that
// arrives at either listener is opened by envOpen (x_envelope.go: the envelope from the protocol description, in
// the direction client -> server) with the STORED KEY and nothing else: the reader looks up the key by the
// auth_key_id in front of the frame, decrypts, checks msg_key.
//
//	client=<C1|C0|Cerr:…> conn=<stored|configured|none> first=<enc|plain|none|…> [keyid=<8 bytes> open=<ok|why>
//	        salt=<n> seq=<n> body=<request bytes>]
//
// keyid is what the frame says; when it is not the stored key's id the rest of the frame is still opened under the
// stored key (open=auth_key_id_differs;rest=…) so that the report can say whether only the label is wrong.
type c12Frame struct {
	at  string
	pkt []byte
	bad string
}

func c12Wire(kind, state string, key, hash []byte, salt int64, ping uint64) string {
	listen := func() net.Listener {
		l, err := net.Listen("tcp", "127.0.0.1:0")
		if err != nil {
			panic(err)
		}
		return l
	}
	stored, configured := listen(), listen()
	frames := make(chan c12Frame, 16)
	conns := make(chan string, 16)
	release := make(chan struct{})
	serve := func(l net.Listener, at string) {
		for {
			conn, err := l.Accept()
			if err != nil {
				return
			}
			select {
			case conns <- at:
			default:
			}
			go func() {
				defer conn.Close()
				_ = conn.SetReadDeadline(time.Now().Add(20 * time.Second))
				head := make([]byte, 8) // the transport's announcement (intermediate: ee ee ee ee), then the frame's length
				if _, err := io.ReadFull(conn, head); err != nil {
					return
				}
				f := c12Frame{at: at}
				if n := binary.LittleEndian.Uint32(head[4:]); string(head[:4]) != "\xee\xee\xee\xee" {
					f.bad = "no-intermediate-announcement"
				} else if n > 1<<20 {
					f.bad = "oversized-frame"
				} else {
					f.pkt = make([]byte, n)
					if _, err := io.ReadFull(conn, f.pkt); err != nil {
						return
					}
				}
				select {
				case frames <- f:
				default:
				}
				<-release
			}()
		}
	}
	go serve(stored, "stored")
	go serve(configured, "configured")
	defer func() {
		close(release)
		stored.Close()
		configured.Close()
	}()

	place, done := c12Place("abs")
	defer done()
	sess := &session.Session{Key: key, Hash: hash, Salt: salt, Hostname: stored.Addr().String()}
	cfg := mtproto.Config{ServerHost: configured.Addr().String()}
	switch kind {
	case "file", "given":
		if state == "1" {
			if err := session.NewFromFile(place).Store(sess); err != nil {
				return "store-failed"
			}
		}
		if kind == "file" {
			cfg.AuthKeyFile = place
		} else {
			cfg.SessionStorage = session.NewFromFile(place)
		}
	case "mem":
		mem := &c12Mem{}
		if state == "1" {
			mem.s = c12Copy(sess)
		}
		cfg.SessionStorage = mem
	default:
		return "bad-op"
	}
	if state != "0" && state != "1" {
		return "bad-op"
	}
	m, err := mtproto.NewMTProto(cfg)
	if err != nil {
		return "client=Cerr:" + c12LoadClass(err)
	}
	client := "C?"
	if f := reflect.ValueOf(m).Elem().FieldByName("encrypted"); f.IsValid() && f.Kind() == reflect.Bool {
		client = "C0"
		if f.Bool() {
			client = "C1"
		}
	}
	// the restarted process connects; a client that (wrongly or rightly) starts a key exchange writes its first frame
	// inside CreateConnection and then waits for the server: the frame is what is looked at, the call is left behind
	created := make(chan error, 1)
	go func() {
		defer func() {
			if r := recover(); r != nil {
				created <- fmt.Errorf("panic: %v", r)
			}
		}()
		created <- m.CreateConnection()
	}()
	defer func() {
		defer func() { _ = recover() }()
		_ = m.Disconnect()
		time.Sleep(2 * time.Millisecond)
	}()
	var first *c12Frame
	note := ""
	select {
	case err := <-created:
		if err != nil {
			note = "create-failed"
		}
	case f := <-frames:
		first = &f
	case <-time.After(5 * time.Second):
		note = "create-timeout"
	}
	if first == nil && note == "" {
		go func() {
			defer func() { _ = recover() }()
			_, _ = m.MakeRequest(&objects.PingParams{PingID: int64(ping)})
		}()
		select {
		case f := <-frames:
			first = &f
		case <-time.After(5 * time.Second):
		}
	}
	conn := "none"
	select {
	case conn = <-conns:
	default:
	}
	if first == nil {
		if note == "" {
			note = "none"
		}
		return fmt.Sprintf("client=%s conn=%s first=%s", client, conn, note)
	}
	conn = first.at
	pkt := first.pkt
	switch {
	case first.bad != "":
		return fmt.Sprintf("client=%s conn=%s first=%s", client, conn, first.bad)
	case len(pkt) < 8:
		return fmt.Sprintf("client=%s conn=%s first=short(%d)", client, conn, len(pkt))
	case string(pkt[:8]) == string(make([]byte, 8)):
		return fmt.Sprintf("client=%s conn=%s first=plain", client, conn)
	}
	if len(key) < 128 {
		return fmt.Sprintf("client=%s conn=%s first=enc keyid=%s open=key-too-short-for-the-reader", client, conn, hexD(pkt[:8]))
	}
	msg, why := envOpen(0, key, pkt, false)
	open := "ok"
	if why == "auth_key_id differs" {
		// what is behind the label, under the stored key
		fixed := append(append([]byte{}, envSha1(key)[12:20]...), pkt[8:]...)
		var why2 string
		msg, why2 = envOpen(0, key, fixed, false)
		if why2 == "" {
			why2 = "ok"
		}
		open = "auth_key_id_differs;rest=" + strings.ReplaceAll(why2, " ", "_")
		if why2 != "ok" {
			return fmt.Sprintf("client=%s conn=%s first=enc keyid=%s open=%s", client, conn, hexD(pkt[:8]), open)
		}
	} else if why != "" {
		return fmt.Sprintf("client=%s conn=%s first=enc keyid=%s open=%s", client, conn, hexD(pkt[:8]), strings.ReplaceAll(why, " ", "_"))
	}
	return fmt.Sprintf("client=%s conn=%s first=enc keyid=%s open=%s salt=%d seq=%d body=%s", client, conn, hexD(pkt[:8]), open,
		int64(msg.Salt), msg.Seq, hexD(msg.Body))
}

// c12JudgeWire: a client started on a store that holds a session "resumes with that key, salt and address without a
// new key exchange" — on the wire: its first message goes to the stored address, is not plain text, names the
// stored key (auth_key_id = SHA1(key)[12:20], computed here with crypto/sha1), opens under the stored key for a
// reader that holds nothing else, carries the stored salt and the request that was asked for. Whatever the stored
// hash field holds. On an empty store: a blank client, plain text (the key exchange) to the configured address.
func c12JudgeWire(op []string, f map[string]string) string {
	if len(op) != 7 {
		return ""
	}
	kind, state := op[1], op[2]
	key, hash := parseBytes(op[3]), parseBytes(op[4])
	how := map[string]string{"file": "Config.AuthKeyFile", "given": "Config.SessionStorage = the file loader", "mem": "Config.SessionStorage = an in-memory storage"}[kind]
	if state == "0" {
		if f["client"] != "C0" || f["conn"] != "configured" || f["first"] != "plain" {
			return fmt.Sprintf("client on an empty store (%s): it must start blank, talk to the configured host and begin with the plain-text key exchange; observed client=%s conn=%s first=%s", how, f["client"], f["conn"], f["first"])
		}
		return ""
	}
	id := sha1.Sum(key)
	wantID := hexD(id[12:20])
	hd := fmt.Sprintf("%d bytes %s", len(hash), showBytes(hash))
	if string(hash) == string(id[12:20]) {
		hd += " (= the key's id)"
	} else {
		hd += " (not the key's id)"
	}
	ctx := fmt.Sprintf("client started on a stored session (%s; %d-byte key with id %s, stored hash field: %s, salt %s)", how, len(key), wantID, hd, op[5])
	switch {
	case f["client"] != "C1":
		return ctx + ": not in the already-encrypted state: client=" + f["client"]
	case f["conn"] != "stored":
		return ctx + ": it does not connect to the stored address: conn=" + f["conn"]
	case f["first"] == "plain":
		return ctx + ": its first message is plain text — a new key exchange"
	case f["first"] != "enc":
		return ctx + ": no first message could be read from it: first=" + f["first"]
	case f["keyid"] != wantID:
		return fmt.Sprintf("%s: its first message names auth_key_id %s — a server that holds the stored key cannot find it under that id: the client has not resumed with the stored key (the rest of the frame under the stored key: %s)", ctx, f["keyid"], f["open"])
	case f["open"] != "ok":
		return ctx + ": its first message does not open under the stored key: " + f["open"]
	case f["salt"] != op[5]:
		return ctx + ": its first message carries salt " + f["salt"]
	}
	var want [12]byte
	binary.LittleEndian.PutUint32(want[:], 0x7abe77ec)
	v, _ := strconv.ParseUint(op[6], 10, 64)
	binary.LittleEndian.PutUint64(want[4:], v)
	if f["body"] != hexD(want[:]) {
		return ctx + ": its first message is not the request that was made (ping " + op[6] + "): body=" + f["body"]
	}
	return ""
}

// ---- oracle -------------------------------------------------------------------------------------

// c12Same: the loaded session shown as `got` is the stored one. Host names that are not valid
// UTF-8 are outside the property's domain (DESIGN §7, readings): only key, hash and salt are
// compared for them.
func c12Same(got string, want c12Sess) bool {
	if !strings.HasPrefix(got, "ok:") {
		return false
	}
	if utf8.Valid(want.host) {
		return got == "ok:"+want.show()
	}
	g := strings.Split(strings.TrimPrefix(got, "ok:"), "/")
	w := strings.Split(want.show(), "/")
	return len(g) == 4 && g[0] == w[0] && g[1] == w[1] && g[2] == w[2]
}

func kv(out string) map[string]string {
	m := map[string]string{}
	for _, f := range strings.Fields(out) {
		if i := strings.IndexByte(f, '='); i > 0 {
			m[f[:i]] = f[i+1:]
		}
	}
	return m
}

func c12Judge(op []string, out string) string {
	if strings.HasPrefix(out, "panic:") && op[0] != "c12.file" {
		return "the session store panicked: " + out
	}
	switch op[0] {
	case "c12.b64":
		want := "ok:" + showBytes(parseBytes(op[1]))
		if kv(out)["dec"] != want {
			return "base64 decode of encode is not the input"
		}
	case "c12.rt":
		s := c12ParseSess(op[2])
		f := kv(out)
		if c12DirExists(op[1]) {
			if f["store"] != "ok" {
				return "Store failed although the directory exists (" + op[1] + " path): " + f["store"]
			}
			if !c12Same(f["same"], s) {
				return "the storing loader reads back " + f["same"] + ", stored " + s.show()
			}
			if !c12Same(f["fresh"], s) {
				return "a fresh loader reads back " + f["fresh"] + ", stored " + s.show()
			}
		} else if f["fresh"] != "err:notfound" || f["same"] != "err:notfound" {
			return "missing file not reported as not-found: " + out
		}
	case "c12.seq", "c12.nat":
		return c12JudgeHistory(op[1], op[2:], strings.Fields(out), op[0] == "c12.seq")
	case "c12.torn":
		f := kv(out)
		n := f["n"]
		sum := 0
		for k, v := range f {
			if k == "n" {
				continue
			}
			if k == "ok" || k == "panic" || k == "notfound" {
				return fmt.Sprintf("%s of the %s strict prefixes of the written file are not reported as an error (%s)", v, n, k)
			}
			sum += atoi(v)
		}
		if strconv.Itoa(sum) != n {
			return "prefix count mismatch: " + out
		}
	case "c12.resume":
		s := c12ParseSess(op[2])
		f := kv(out)
		switch {
		case op[1] == "1":
			if f["enc"] != "1" {
				return "client on a store holding a session is not in the already-encrypted state: " + out
			}
			if f["key"] != showBytes(s.key) || f["salt"] != strconv.FormatInt(s.salt, 10) {
				return "resumed client reports another key/salt than stored: " + out
			}
			if !c12Same("ok:"+f["saved"], s) {
				return "resumed client holds another session than stored (seen through SaveSession): " + out
			}
		case op[1] == "0":
			if f["enc"] != "0" {
				return "client on an empty store is not in the fresh state: " + out
			}
		default: // torn store
			k := atoi(op[1][1:])
			if k < len(specFile(s)) && !strings.HasPrefix(out, "err:") {
				return "client started on a torn session file does not report an error: " + out
			}
		}
	case "c12.cut":
		return c12JudgeCut(op, out)
	case "c12.cfg":
		return c12JudgeCfg(op, kv(out))
	case "c12.wire":
		return c12JudgeWire(op, kv(out))
	}
	return ""
}

// c12JudgeCfg: a Config that names a SessionStorage is served by THAT storage, whatever AuthKeyFile says: the client
// resumes with the session the storage holds (or starts fresh when it holds none), saves into it, and leaves the file
// alone. Without a SessionStorage the file at AuthKeyFile is the storage; without either there is no client.
func c12JudgeCfg(op []string, f map[string]string) string {
	kind, state, file := op[1], op[2], op[3]
	a, b := c12ParseSess(op[4]), c12ParseSess(op[5])
	cfgd := fmt.Sprintf("Config{SessionStorage: %s holding %s, AuthKeyFile: %s}", kind, map[string]string{"1": "session A", "0": "nothing"}[state],
		map[string]string{"unset": `""`, "0": "a path without a file", "1": "the file of session B", "nodir": "a path in a directory that does not exist"}[file])
	if strings.HasPrefix(file, "t") {
		cfgd = strings.Replace(cfgd, "AuthKeyFile: }", "AuthKeyFile: the first "+file[1:]+" bytes of the file of session B}", 1)
	}
	// the session the client must resume with (nil: it must start fresh), or no client at all
	var want *c12Sess
	noClient := ""
	switch {
	case kind != "nil" && state == "1":
		want = &a
	case kind != "nil":
	case file == "unset":
		noClient = "Cerr:nostorage"
	case file == "1":
		want = &b
	case strings.HasPrefix(file, "t") && atoi(file[1:]) < len(specFile(b)):
		noClient = "Cerr:"
	case strings.HasPrefix(file, "t"):
		want = &b
	}
	cl := f["client"]
	if noClient != "" {
		if !strings.HasPrefix(cl, noClient) {
			return fmt.Sprintf("%s: NewMTProto must refuse (%s…), it returned %s", cfgd, noClient, cl)
		}
		return ""
	}
	blank := "C0:-/-/0/" + showBytes([]byte(c12CfgHost))
	if want != nil {
		if !strings.HasPrefix(cl, "C1:") || !c12Same("ok:"+cl[3:], *want) {
			return fmt.Sprintf("%s: the client must resume with the session its storage holds (%s, already-encrypted state); it is %s", cfgd, want.show(), cl)
		}
	} else if cl != blank {
		return fmt.Sprintf("%s: the storage holds nothing, the client must start fresh (%s); it is %s", cfgd, blank, cl)
	}
	if kind == "nil" && file == "nodir" {
		return "" // nowhere to save to
	}
	if want != nil {
		if !c12Same(f["saved"], *want) {
			return fmt.Sprintf("%s: after SaveSession the storage the client was started on holds %s, the client's session is %s", cfgd, f["saved"], want.show())
		}
	} else if f["saved"] != "ok:-/-/0/"+showBytes([]byte(c12CfgHost)) {
		return fmt.Sprintf("%s: after SaveSession of the fresh client the storage it was started on holds %s", cfgd, f["saved"])
	}
	if kind != "nil" && f["other"] != "same" {
		return fmt.Sprintf("%s: SaveSession changed what is at the AuthKeyFile path, which a Config with a SessionStorage ignores", cfgd)
	}
	return ""
}

// c12JudgeHistory replays the history against the property's own reading: the file holds what was
// stored last; the loader that stored it, and every fresh loader, must read exactly that. A long-lived
// loader may answer from what it read earlier only while the file still carries the modification time it
// had then (the loader's cache is keyed by it; equal times with other content are the coarse-clock case
// the property leaves open); with any other modification time (forced times only: c12.seq) it has to look
// at the file like a fresh loader does — the last stored session, not-found, or an error for a file cut
// short — whatever it has loaded, stored or failed to load before.
func c12JudgeHistory(shape string, items, outs []string, forcedTimes bool) string {
	if len(outs) != len(items) {
		return "history aborted: " + strings.Join(outs, " ")
	}
	type seenT struct {
		mtime int
		ok    bool
		out   string // what it returned then
	}
	seen := map[int]seenT{} // loader -> modification time of the file at its last successful Load
	cur := -1               // the file's (forced) modification time
	upTo := func(i int) string {
		var b []string
		for _, it := range items[:i+1] {
			if len(it) > 90 {
				it = it[:90] + "…"
			}
			b = append(b, it)
		}
		return clip(strings.Join(b, " "))
	}
	type state int
	const (
		missing state = iota
		stored        // `last` was stored by loader `by`
		torn          // a strict prefix of a session file
		foreign       // some other content
	)
	st := missing
	var last c12Sess
	var written [][]byte
	by := -1
	// what the sessions stored in this history look like in a result line, and the clients started so far: the loader
	// each was started on and the session it holds (by the oracle's own account: the stored session it was judged to
	// have resumed with, then whatever the client itself changed — MC items)
	known := map[string]c12Sess{}
	type clientT struct {
		ld    int
		s     c12Sess
		known bool
	}
	var clients []clientT
	flip := func(b []byte, zero bool) []byte {
		c := make([]byte, len(b))
		for i := range b {
			if !zero {
				c[i] = b[i] ^ 0xff
			}
		}
		return c
	}
	for i, it := range items {
		p := strings.Split(it, ":")
		o := outs[i]
		if p[0] == "C" {
			// a client started on a long-lived loader must hold what a Load by that loader must return: the session
			// (and then be in the already-encrypted state), nothing and the configured address, or no client at all
			blank := "C0:-/-/0/" + showBytes([]byte(c12CfgHost))
			switch {
			case strings.HasPrefix(o, "C1:"):
				o = "ok:" + o[3:]
			case o == blank:
				o = "err:notfound"
			case strings.HasPrefix(o, "Cerr:"):
				o = "err:" + o[5:]
			default:
				return fmt.Sprintf("item %d: a client started on loader %s is in a state that is neither resumed nor fresh: %s — history: %s", i, p[1], o, upTo(i))
			}
		}
		switch p[0] {
		case "H":
			if o != "held=same" {
				return fmt.Sprintf("item %d: what was handed out earlier (the session a Load returned / the key a started client holds) has been modified since: %s — history: %s", i, clip(o), upTo(i))
			}
		case "S":
			if c12DirExists(shape) {
				if o != "ok" {
					return fmt.Sprintf("item %d: Store failed although the directory exists (%s path): %s", i, shape, o)
				}
				st, last, by = stored, c12ParseSess(p[2]), atoi(p[1])
				known[last.show()] = last
				written = append(written, specFile(last))
				cur = atoi(p[3])
				delete(seen, by) // Store drops what the loader had read
			} else if o == "ok" {
				return fmt.Sprintf("item %d: Store reports success without a directory", i)
			}
		case "L", "F", "C":
			ld := -1
			if p[0] != "F" {
				ld = atoi(p[1])
			}
			shown := o
			if p[0] == "C" {
				shown = "[a client started on it holds " + outs[i] + "]"
			}
			if ld >= 0 && forcedTimes && c12DirExists(shape) {
				if sn := seen[ld]; !(sn.ok && sn.mtime == cur) || st == missing {
					// nothing this loader has read belongs to the file as it is now
					what := ""
					switch {
					case st == stored && !c12Same(o, last):
						what = "the last stored session " + last.show()
					case st == missing && o != "err:notfound":
						what = "not-found (the file was deleted)"
					case st == torn && !strings.HasPrefix(o, "err:"):
						what = "an error (the file is a strict prefix of a session file: another writer was cut short)"
					}
					if what != "" {
						had := "had not loaded before"
						if sn.ok {
							had = fmt.Sprintf("had loaded successfully when the file's modification time was %d (now %d)", sn.mtime, cur)
						}
						return fmt.Sprintf("item %d: long-lived loader %d, which %s, returns %s; it must return %s — history: %s", i, ld, had, shown, what, upTo(i))
					}
				}
				if sn := seen[ld]; sn.ok && sn.mtime == cur && st != missing && o != sn.out && !(st == stored && c12Same(o, last)) {
					// the file is as it was when this loader read it: it may answer from what it read then, or read again
					return fmt.Sprintf("item %d: long-lived loader %d returned %s when the file's modification time was %d; the file still has that time and now it returns %s — history: %s", i, ld, sn.out, sn.mtime, shown, upTo(i))
				}
				if strings.HasPrefix(o, "ok:") {
					if sn := seen[ld]; !(sn.ok && sn.mtime == cur) {
						seen[ld] = seenT{cur, true, o}
					}
				}
			}
			switch st {
			case stored:
				if (ld == -1 || ld == by) && !c12Same(o, last) {
					return fmt.Sprintf("item %d: load after store returns %s, last stored %s — history: %s", i, shown, last.show(), upTo(i))
				}
			case missing:
				if ld == -1 && o != "err:notfound" {
					return fmt.Sprintf("item %d: missing file reported as %s", i, shown)
				}
			case torn:
				if ld == -1 && !strings.HasPrefix(o, "err:") {
					return fmt.Sprintf("item %d: torn file read as %s", i, shown)
				}
			}
			if p[0] == "C" {
				switch {
				case strings.HasPrefix(outs[i], "C0:"):
					clients = append(clients, clientT{ld, c12Sess{key: []byte{}, hash: []byte{}, salt: 0, host: []byte(c12CfgHost)}, true})
				case strings.HasPrefix(outs[i], "C1:"):
					if k, ok := known[outs[i][3:]]; ok {
						clients = append(clients, clientT{ld, k, true})
					} else if st == stored && c12Same(o, last) {
						clients = append(clients, clientT{ld, last, true})
					} else {
						clients = append(clients, clientT{ld: ld})
					}
				}
			}
		case "MS", "MG":
			// the holder of a session object changes ITS object: nothing that was stored changes — the judgement of
			// every later item goes on from the same `last`
			if o != "ok" && o != "none" {
				return fmt.Sprintf("item %d: %s — history: %s", i, o, upTo(i))
			}
		case "MC":
			if n := atoi(p[1]); n < len(clients) && o == "ok" {
				c := &clients[n]
				for _, m := range p[2] {
					switch m {
					case 'k':
						c.s.key = flip(c.s.key, false)
					case 'h':
						c.s.hash = flip(c.s.hash, false)
					case 'z':
						c.s.key, c.s.hash = flip(c.s.key, true), flip(c.s.hash, true)
					case 's':
						c.s.salt = ^c.s.salt
					}
				}
			} else if o != "none" {
				return fmt.Sprintf("item %d: %s — history: %s", i, o, upTo(i))
			}
		case "V":
			// SaveSession of a started client: a Store, through the loader it was started on, of what the client holds
			n := atoi(p[1])
			if n >= len(clients) {
				if o != "none" {
					return fmt.Sprintf("item %d: %s — history: %s", i, o, upTo(i))
				}
				break
			}
			if c12DirExists(shape) {
				if o != "ok" {
					return fmt.Sprintf("item %d: SaveSession failed although the directory exists (%s path): %s", i, shape, o)
				}
				c := clients[n]
				st, last, by = stored, c.s, c.ld
				if !c.known {
					st, by = foreign, -1
				}
				known[last.show()] = last
				written = append(written, specFile(last))
				cur = atoi(p[2])
				delete(seen, c.ld)
			} else if o == "ok" {
				return fmt.Sprintf("item %d: SaveSession reports success without a directory", i)
			}
		case "X":
			// cut short = a strict prefix of the file of a session stored earlier in this history
			st, by = foreign, -1
			cur = atoi(p[2])
			c := parseBytes(p[1])
			for _, f := range written {
				if len(c) < len(f) && string(f[:len(c)]) == string(c) {
					st = torn
				}
			}
		case "D":
			st, by = missing, -1
		}
	}
	return ""
}

// ---- generation ---------------------------------------------------------------------------------

var c12Hosts = []string{
	"", "149.154.167.50:443", "localhost:1", "[2001:db8::1]:443", "пример.рф:443", "例え.jp", "a\"b", "a\\b", "\\", "\"",
	"<script>&amp;</script>", "<", ">", "&", "a\u2028b", "\u2029", "\u2027\u202a", "tab\there", "nl\nx", "cr\rx", "\b\f", "\x00", "\x01\x1f", "\x7f",
	"\xff", "a\xc3", "\xc3\x28", "\xe2\x80", "\xed\xa0\x80", "\xf4\x90\x80\x80", "\xc0\xaf", "\xf0\x9f\x98\x80", "\ufffd", "é", "\u07ff\u0800\uffff",
	"\U00010000\U0010ffff", "\xe0\x9f\xbf", "\xe0\xa0\x80", "\xf0\x8f\xbf\xbf", "\xf0\x90\x80\x80", "\xf5\x80\x80\x80", "\x80", "\xbf\xbf", "/", "\\u0041", "\\ud83d\\ude00",
	"{\"key\":\"x\"}", "a,b:c d", "\u212a\u017f",
}

// c12JsonHosts: host names made of text that means something to a JSON writer or reader — the host name is
// the only free text in the file. Built from what encoding/json itself does, not from a list of codes:
//   - the escaped form of every character the writer escapes (all of U+0000..U+007F, U+2028, U+2029, an
//     ill-formed byte) taken as LITERAL text: a backslash followed by n, ", \, u00XX, u2028 … (the file must hold
//     an escaped backslash followed by plain text, and reading it must give the six characters back, not the one);
//     alone, inside other text, behind one / two more backslashes, in upper-case hex, several in a row;
//   - the escaped form, and the twice escaped form, of every host name of c12Hosts;
//   - quotes and backslashes at the ends; text that looks like the rest of the file;
//   - very long names.
func c12JsonHosts(thorough bool) []string {
	esc := func(h string) string { // the writer's escaped form of h, as text
		b, err := json.Marshal(h)
		if err != nil || len(b) < 2 {
			return h
		}
		return string(b[1 : len(b)-1])
	}
	seen := map[string]bool{}
	var out []string
	add := func(h string) {
		if !seen[h] {
			seen[h] = true
			out = append(out, h)
		}
	}
	var escapes []string // the distinct escape sequences the writer produces
	for r := rune(0); r < 0x80; r++ {
		if e := esc(string(r)); e != string(r) {
			escapes = append(escapes, e)
		}
	}
	for _, r := range []rune{0x2028, 0x2029} {
		escapes = append(escapes, esc(string(r)))
	}
	escapes = append(escapes, esc("\xff"))
	for _, e := range escapes {
		add(e)
		add("dc" + e + "x:443")
		add("\\" + e)
		add("\\\\" + e + "\\")
		add(e + e)
		if u := strings.ToUpper(e[1:]); u != e[1:] {
			add(e[:1] + "u" + u[1:]) // \u00XX with upper-case hex digits
		}
	}
	// escape-looking text the writer never produces itself
	for _, e := range []string{"\\u0041", "\\u00e9", "\\ud83d\\ude00", "\\ud83d", "\\udc00", "\\uffff", "\\u", "\\u00", "\\u002", "\\x26", "\\/", "\\a", "\\0", "\\U00000026", "%26", "&amp;", "&#38;"} {
		add(e)
		add("a" + e + "b")
	}
	for _, h := range c12Hosts {
		add(esc(h))
		add(esc(esc(h)))
	}
	for _, h := range []string{"\"", "\"\"", "\\\"", "\"\\", "a\"", "\"a", "\\\\", "\\\\\\", "\",\"hostname\":\"x", "\"}", "h\"}\n{\"key\":\"AQID", "\\\",\"key\":\"\\", "\n", "\\n", "\r\n", "\t", "'", "&<>", "<&>\\u0026", "a&b<c>d"} {
		add(h)
	}
	add(strings.Repeat("a", 4096))
	add(strings.Repeat("h.example", 1900) + ":443")
	if thorough {
		// (the Lean model reads lists byte by byte: this one costs its driver 20 s)
		add(strings.Repeat("h.example", 7300) + ":443") // longer than 65535 bytes
	}
	add(strings.Repeat("<&>\"\\\n\u2028", 700))
	{
		var b strings.Builder
		for i := 0; i < 1200; i++ {
			b.WriteString(escapes[i%len(escapes)])
		}
		add(b.String())
	}
	return out
}

// pieces of JSON-significant text for randomly composed host names
var c12JsonPieces = []string{"\\", "\"", "u", "00", "0", "2", "6", "3", "c", "e", "C", "E", "20", "28", "29", "\\u", "\\u00", "\\n", "\\\"", "n", "&", "<", ">", "{", "}", ":", ",", "/", "\n", "\u2028", "a", "\x00", "\x1f", "\x7f", "é"}

var c12Runes = []rune{'a', 'Z', '0', '.', ':', '"', '\\', '/', '<', '>', '&', '\'', ' ', '\t', '\n', '\r', '\b', '\f', 0, 1, 0x1f, 0x7f, 0x80, 0xe9,
	0x7ff, 0x800, 0x2027, 0x2028, 0x2029, 0x202a, 0xd7ff, 0xe000, 0xfffd, 0xffff, 0x10000, 0x1f600, 0x10ffff, 'п', '例'}

var c12JsonHostList []string

func c12GenHost(g *G) []byte {
	if c12JsonHostList == nil {
		c12JsonHostList = c12JsonHosts(false)
	}
	switch g.R.Intn(12) {
	case 0, 1, 2:
		return []byte(c12Hosts[g.R.Intn(len(c12Hosts))])
	case 10: // text that means something to a JSON writer or reader (short ones: these go into histories as well)
		for {
			if h := c12JsonHostList[g.R.Intn(len(c12JsonHostList))]; len(h) < 200 {
				return []byte(h)
			}
		}
	case 11: // … and random compositions of its pieces
		var b []byte
		for n := 1 + g.R.Intn(8); n > 0; n-- {
			b = append(b, c12JsonPieces[g.R.Intn(len(c12JsonPieces))]...)
		}
		return b
	case 3: // raw bytes, mostly invalid UTF-8
		return g.R.Bytes(g.R.Intn(12))
	case 4: // valid text with a few raw bytes spliced in
		b := []byte(c12Hosts[g.R.Intn(len(c12Hosts))])
		b = append(b, byte(0x80+g.R.Intn(0x80)))
		return append(b, c12Hosts[g.R.Intn(len(c12Hosts))]...)
	default:
		var b []byte
		for n := g.R.Intn(14); n > 0; n-- {
			b = utf8.AppendRune(b, c12Runes[g.R.Intn(len(c12Runes))])
		}
		return b
	}
}

var c12Salts = []int64{0, -1, 1, -9223372036854775808, 9223372036854775807, 255, 256, -256, 1 << 32, -(1 << 32), 0x0102030405060708, -0x0102030405060708, 1 << 62, 72057594037927936}

func c12GenSalt(g *G) int64 {
	if g.R.Intn(3) == 0 {
		return c12Salts[g.R.Intn(len(c12Salts))]
	}
	return int64(g.R.U64())
}

func c12GenBytes(g *G, lens []int) []byte {
	n := lens[g.R.Intn(len(lens))]
	if n < 0 {
		n = g.R.Intn(600)
	}
	switch g.R.Intn(8) {
	case 0:
		return make([]byte, n)
	case 1:
		b := make([]byte, n)
		for i := range b {
			b[i] = 0xff
		}
		return b
	case 2:
		b := make([]byte, n)
		for i := range b {
			b[i] = byte(i)
		}
		return b
	case 3: // bytes whose sextets are 62/63 ('+' and '/')
		b := make([]byte, n)
		for i := range b {
			b[i] = []byte{0xfb, 0xff, 0xfe, 0x3e, 0x3f}[g.R.Intn(5)]
		}
		return b
	}
	return g.R.Bytes(n)
}

func c12GenSess(g *G) c12Sess {
	return c12Sess{
		key:  c12GenBytes(g, []int{0, 0, 1, 2, 3, 4, 5, 6, 255, 256, 256, 256, 257, -1, -1}),
		hash: c12GenBytes(g, []int{0, 1, 2, 3, 7, 8, 8, 8, 9, 20, -1}),
		salt: c12GenSalt(g),
		host: c12GenHost(g),
	}
}

func c12SmallSess(g *G) c12Sess {
	return c12Sess{key: g.R.Bytes(g.R.Intn(5)), hash: g.R.Bytes(g.R.Intn(4)), salt: c12GenSalt(g), host: c12GenHost(g)}
}

// JSON fragments the raw-file generator strings together: every scanner state gets visited.
var c12Frags = []string{
	"{", "}", "[", "]", ":", ",", " ", "\n", "\t", "\r", "null", "true", "false", "nul", "tru", "0", "-", "-0", "1", "12", "0.5", "1e5", "1E+5", "1e-", "1.", "01", ".5",
	`"key"`, `"hash"`, `"salt"`, `"hostname"`, `"KEY"`, `"Hash"`, `"sAlT"`, `"HOSTNAME"`, `"\u212aey"`, `"` + "\u212a" + `ey"`, `"` + "\u017f" + `alt"`, `"ha` + "\u017f" + `h"`, `"k\u0065y"`, `"other"`, `""`,
	`"AAAA"`, `"AAAAAAAAAAA="`, `"AAAAAAAAAAAA"`, `"AQIDBAUGBwgJ"`, `"AA=="`, `"AA="`, `"AA"`, `"A"`, `"QR=="`, `"AAAA\nAAAAAAA="`, `"AAAA\r\nAAAAAAA=\n"`, `"AA==AAAA"`, `"AA=A"`, `"=AAA"`, `"A=AA"`, `"AAA=AAAA"`,
	`"AAAAAAAAAA=="`, `"AAAAAAAAAA"`, `"////////////"`, `"++++"`, `"-_-_"`, `"AA A"`, `"x"`, `"\""`, `"\\"`, `"\/"`, `"\b\f\n\r\t"`, `"\u0041"`, `"\ud83d\ude00"`, `"\ud83d"`, `"\ude00"`, `"\ud83dx"`, `"\ud83d\u0041"`, `"\ud83d\ud83d\ude00"`,
	`"\u00e9\uFFFF"`, `"\x"`, `"\u12"`, `"\u12g4"`, "\"\xff\"", "\"\xc3\xa9\"", "\"\xe2\x80\xa8\"", "\"\xc3\"", "\"a\x01b\"", "\"a\x7fb\"", `"`, `\`, "x", "'a'", "\xef\xbb\xbf",
}

func c12GenRaw(g *G) []byte {
	var b []byte
	switch g.R.Intn(4) {
	case 0: // an object with members from the fragments
		b = append(b, '{')
		n := g.R.Intn(6)
		for i := 0; i < n; i++ {
			if i > 0 {
				b = append(b, ',')
			}
			b = append(b, c12Frags[27+g.R.Intn(15)]...)
			b = append(b, ':')
			if g.R.Intn(4) == 0 {
				b = append(b, c12Frags[g.R.Intn(len(c12Frags))]...)
			} else {
				b = append(b, c12Frags[42+g.R.Intn(40)]...)
			}
		}
		b = append(b, '}')
	case 1: // a complete session object with one member varied
		vals := []string{`"AQID"`, `"BAUG"`, `"AAAAAAAAAAA="`, `"h"`}
		names := []string{`"key"`, `"hash"`, `"salt"`, `"hostname"`}
		i := g.R.Intn(4)
		if g.R.Bool() {
			vals[i] = c12Frags[g.R.Intn(len(c12Frags))]
		} else {
			names[i] = c12Frags[27+g.R.Intn(15)]
		}
		sep := []string{"", " ", "\n\t"}[g.R.Intn(3)]
		b = append(b, '{')
		for j := range names {
			if j > 0 {
				b = append(b, ',')
			}
			b = append(b, sep+names[j]+sep+":"+sep+vals[j]+sep...)
		}
		b = append(b, '}')
		if g.R.Intn(4) == 0 {
			b = append(b, c12Frags[g.R.Intn(len(c12Frags))]...)
		}
	case 2: // fragment soup
		for n := 1 + g.R.Intn(8); n > 0; n-- {
			b = append(b, c12Frags[g.R.Intn(len(c12Frags))]...)
		}
	default: // a written file with a few bytes changed, removed or inserted
		b = specFile(c12SmallSess(g))
		for n := 1 + g.R.Intn(3); n > 0 && len(b) > 0; n-- {
			i := g.R.Intn(len(b))
			switch g.R.Intn(3) {
			case 0:
				b[i] = []byte("\"\\{}[]:, =Aa0\n\x00\xff")[g.R.Intn(16)]
			case 1:
				b = append(b[:i], b[i+1:]...)
			default:
				b = append(b[:i], append([]byte{[]byte("\"\\{}[]:,=A\n")[g.R.Intn(11)]}, b[i:]...)...)
			}
		}
	}
	return b
}

var c12FixedFiles = []string{
	"", " ", "{}", " { } ", "null", " null\n", "[]", "[1,2]", "\"x\"", "123", "-0.5e+3", "true", "false", "{", "}", "{\"key\"", "{\"key\":", "{\"key\":\"", "nul", "nulll", "{}{}", "{} x",
	`{"key":"AQID","hash":"BAUG","salt":"AQIDBAUGBwg=","hostname":"h"}`,
	`{"key":"AQID","hash":"BAUG","salt":"","hostname":"h"}`,
	`{"key":"AQID","hash":"BAUG","salt":"AQIDBAUGBw==","hostname":"h"}`,
	`{"key":"AQID","hash":"BAUG","salt":"AQIDBAUGBwgJ","hostname":"h"}`,
	`{"key":"AQID","hash":"BAUG","hostname":"h"}`,
	`{"hostname":"h","salt":"AQIDBAUGBwg=","hash":"BAUG","key":"AQID"}`,
	`{"key":"AQID","key":"BAUG","hash":"","salt":"AQIDBAUGBwg=","hostname":"h","hostname":"i"}`,
	`{"key":1,"hash":"BAUG","salt":"AQIDBAUGBwg=","hostname":"h"}`,
	`{"key":null,"hash":null,"salt":"AQIDBAUGBwg=","hostname":null}`,
	`{"key":["AQID"],"hash":"BAUG","salt":"AQIDBAUGBwg=","hostname":"h"}`,
	`{"key":{"a":"b"},"salt":"AQIDBAUGBwg="}`,
	`{"other":{"key":1,"x":[1,{"salt":2}]},"salt":"AQIDBAUGBwg=","more":[true,false,null,-1.5e3]}`,
	`{"KEY":"AQID","Hash":"BAUG","SALT":"AQIDBAUGBwg=","HostName":"h"}`,
	"{\"\u212aey\":\"AQID\",\"ha\u017fh\":\"BAUG\",\"\u017falt\":\"AQIDBAUGBwg=\",\"ho\u017ftname\":\"h\"}",
	`{"key":"AQID\n","hash":"BA\r\nUG","salt":"AQID\nBAUGBwg=\n","hostname":"h\n"}`,
	`{"key":"AQI=","hash":"AR==","salt":"AQIDBAUGBwh=","hostname":"h"}`,
	`{"key":"AQI","hash":"BAUG","salt":"AQIDBAUGBwg=","hostname":"h"}`,
	`{"key":"AQID","hash":"BA*G","salt":"AQIDBAUGBwg=","hostname":"h"}`,
	`{"key":"AQID","hash":"BAUG","salt":"AQIDBAUGBwg","hostname":"h"}`,
	`{"key":"AQID","hash":"BAUG","salt":"AQIDBAUGBwg=","hostname":"\u0041\ud83d\ude00\ud83d\u00e9\/"}`,
	"{\"key\":\"AQID\",\"hash\":\"BAUG\",\"salt\":\"AQIDBAUGBwg=\",\"hostname\":\"a\xffb\xe2\x80\"}",
	"{\"key\":\"AQID\",\"hash\":\"BAUG\",\"salt\":\"AQIDBAUGBwg=\",\"hostname\":\"a\nb\"}",
	"\xef\xbb\xbf{}", `{"key":"AQID",}`, `{,}`, `{"key" "AQID"}`, `[{"key":1}]`, `{"a":[}`, `{"a":01}`, `{"a":1.}`, `{"a":-}`, `{"a":1e}`, `{"a":truex}`,
}

func c12Gen(g *G) {
	// base64 on its own: every length class, every byte value
	for n := 0; n <= 9; n++ {
		g.Emit("c12.b64 "+hexD(g.R.Bytes(n)), "b64")
	}
	all := make([]byte, 256)
	for i := range all {
		all[i] = byte(i)
	}
	g.Emit("c12.b64 "+hexD(all), "b64")
	for i := g.N(60, 3000); i > 0; i-- {
		g.Emit("c12.b64 "+hexD(c12GenBytes(g, []int{1, 2, 3, 4, 5, 6, 7, 8, 47, 48, 49, -1})), "b64")
	}
	// the decoder on arbitrary text
	b64chars := []byte("ABab01+/=====\n\r -_*AAAA")
	for i := g.N(400, 40000); i > 0; i-- {
		n := g.R.Intn(14)
		t := make([]byte, n)
		for j := range t {
			t[j] = b64chars[g.R.Intn(len(b64chars))]
		}
		g.Emit("c12.b64d "+hexD(t), "b64-decode-text")
	}
	// round trips on every path shape
	for _, sh := range c12Shapes {
		for _, h := range c12Hosts {
			g.Emit("c12.rt "+sh+" "+c12Sess{key: []byte{1, 2, 3}, hash: []byte{4}, salt: -2, host: []byte(h)}.token(), "rt-"+sh)
			if !g.Thorough() && sh != "abs" && sh != "bare" {
				break
			}
		}
		for _, salt := range c12Salts {
			g.Emit("c12.rt "+sh+" "+c12Sess{key: g.R.Bytes(5), hash: nil, salt: salt, host: []byte("h:1")}.token(), "rt-"+sh)
		}
		for i := g.N(60, 2500); i > 0; i-- {
			g.Emit("c12.rt "+sh+" "+c12GenSess(g).token(), "rt-"+sh)
		}
	}
	// the same round trips in a process whose temporary directory is missing / is a file / is on another filesystem:
	// the session path's directory is all Store may depend on
	for _, sh := range c12Shapes {
		for _, env := range c12Envs {
			g.Emit("c12.rt "+sh+"+"+env+" "+c12Sess{key: []byte{1, 2, 3}, hash: []byte{4}, salt: -2, host: []byte("h:1")}.token(), "rt-"+sh, "env-"+env)
			for i := g.N(4, 200); i > 0; i-- {
				g.Emit("c12.rt "+sh+"+"+env+" "+c12GenSess(g).token(), "rt-"+sh, "env-"+env)
			}
		}
	}
	// host names made of JSON-significant text: stored, read by the same and by a fresh loader, byte for byte
	jsonHosts := c12JsonHosts(g.Thorough())
	for i, h := range jsonHosts {
		shapes := []string{"abs"}
		if g.Thorough() {
			shapes = c12Shapes[:4]
		} else if i%16 == 0 {
			shapes = append(shapes, c12Shapes[1+g.R.Intn(3)])
		}
		for _, sh := range shapes {
			g.Emit("c12.rt "+sh+" "+c12Sess{key: []byte{1, 2, 3}, hash: []byte{4}, salt: -2, host: []byte(h)}.token(), "rt-"+sh, "rt-json-host")
		}
		if len(h) < 4096 && (g.Thorough() || g.R.Intn(6) == 0) {
			g.Emit("c12.resume 1 "+c12Sess{key: g.R.Bytes(256), hash: g.R.Bytes(8), salt: c12GenSalt(g), host: []byte(h)}.token(), "resume-present", "resume-json-host")
		}
	}
	// histories with forced modification times (equal ones included) and up to three loaders
	for i := g.N(500, 20000); i > 0; i-- {
		sh := c12Shapes[g.R.Intn(4)]
		if g.R.Intn(12) == 0 {
			sh = c12Shapes[4+g.R.Intn(2)]
		}
		nl := 1 + g.R.Intn(3)
		if g.R.Intn(3) > 0 {
			nl = 1
		}
		var items []string
		var lastS *c12Sess
		for n := 2 + g.R.Intn(9); n > 0; n-- {
			m := strconv.Itoa(g.R.Pick(5, 5, 5, 5, 6, 7, 4))
			switch r := g.R.Intn(24); {
			case r == 20 || r == 21:
				items = append(items, fmt.Sprintf("C:%d", g.R.Intn(nl)))
			case r == 22:
				items = append(items, "C:0")
			case r == 23:
				items = append(items, "H")
			case r < 7:
				s := c12SmallSess(g)
				lastS = &s
				items = append(items, fmt.Sprintf("S:%d:%s:%s", g.R.Intn(nl), s.token(), m))
			case r < 14:
				items = append(items, fmt.Sprintf("L:%d", g.R.Intn(nl)))
			case r < 16:
				items = append(items, "F")
			case r == 16 && c12DirExists(sh):
				items = append(items, "D")
			case r == 17 && c12DirExists(sh) && lastS != nil:
				f := specFile(*lastS)
				items = append(items, fmt.Sprintf("X:%s:%s", hexD(f[:g.R.Intn(len(f))]), m))
			case r == 18 && c12DirExists(sh):
				items = append(items, fmt.Sprintf("X:%s:%s", hexD(specFile(c12SmallSess(g))), m))
			default:
				items = append(items, "L:0")
			}
		}
		tag := "history-1-loader"
		if nl > 1 {
			tag = "history-multi-loader"
		}
		items = append(items, "H")
		if g.R.Intn(5) == 0 {
			g.Emit("c12.seq "+c12InEnv(g, sh)+" "+strings.Join(items, " "), tag, "history-in-another-environment")
			continue
		}
		g.Emit("c12.seq "+sh+" "+strings.Join(items, " "), tag)
	}
	// clients started one after another on ONE long-lived loader (an application that recreates its client keeps
	// its session storage): each must resume with the stored session, and starting a client must leave alone what
	// the loader hands out — to the next client, to a later Load, and what it handed out before
	for i := g.N(120, 4000); i > 0; i-- {
		sh := c12Shapes[g.R.Intn(4)]
		s1 := c12SmallSess(g)
		if g.R.Intn(3) == 0 {
			s1 = c12GenSess(g)
		}
		if len(s1.key) == 0 || g.R.Intn(2) == 0 {
			s1.key = g.R.Bytes(256) // a real auth key
			s1.hash = g.R.Bytes(8)
		}
		writer := g.R.Pick(0, 0, 1)
		m := 5
		items := []string{fmt.Sprintf("S:%d:%s:%d", writer, s1.token(), m)}
		if g.R.Bool() {
			items = append(items, "L:0")
		}
		for n := 2 + g.R.Intn(3); n > 0; n-- {
			items = append(items, "C:0")
			switch g.R.Intn(6) {
			case 0:
				items = append(items, "H")
			case 1:
				items = append(items, "L:0")
			case 2:
				items = append(items, "F")
			case 3: // the session is renewed in between (by this loader or by another one)
				m += g.R.Intn(2)
				s1 = c12SmallSess(g)
				s1.key = g.R.Bytes(256)
				items = append(items, fmt.Sprintf("S:%d:%s:%d", g.R.Pick(0, 1), s1.token(), m))
			case 4:
				items = append(items, "C:1")
			}
		}
		items = append(items, "L:0", "F", "H")
		if g.R.Intn(5) == 0 {
			items = append(items, "D", "C:0", "L:0", "H")
		}
		if g.R.Intn(5) == 0 {
			g.Emit("c12.seq "+c12InEnv(g, sh)+" "+strings.Join(items, " "), "history-clients-on-one-loader", "history-in-another-environment")
			continue
		}
		g.Emit("c12.seq "+sh+" "+strings.Join(items, " "), "history-clients-on-one-loader")
	}
	// a long-lived loader that has loaded successfully, and another writer (a second loader / another process)
	// that is cut short afterwards at EVERY byte of its file, each time at a later modification time: the
	// long-lived loader must report an error every time (never what it read before), like a fresh one
	for i := g.N(12, 300); i > 0; i-- {
		sh := c12Shapes[g.R.Intn(4)]
		s1, s2 := c12SmallSess(g), c12SmallSess(g)
		items := []string{fmt.Sprintf("S:0:%s:5", s1.token()), "L:0"}
		m := 6
		torn := s1 // the other writer rewrites the same session …
		switch g.R.Intn(3) {
		case 0: // … or stores a newer one completely first (seen or not by the long-lived loader), then is cut short
			items = append(items, fmt.Sprintf("S:1:%s:%d", s2.token(), m))
			if g.R.Bool() {
				items = append(items, "L:0")
			}
			m++
			torn = s2
		case 1:
			items = append(items, "L:0", "F")
		}
		f := specFile(torn)
		for k := 0; k < len(f); k++ {
			if !g.Thorough() && len(f) > 48 && k > 8 && k < len(f)-8 && g.R.Intn(3) != 0 {
				continue
			}
			items = append(items, fmt.Sprintf("X:%s:%d", hexD(f[:k]), m), "L:0")
			if g.R.Intn(4) == 0 {
				items = append(items, "F")
			}
			if g.R.Intn(3) > 0 {
				m++
			}
		}
		// the writer gets through at last: everybody reads the complete session
		items = append(items, fmt.Sprintf("S:1:%s:%d", torn.token(), m+1), "L:0", "L:1", "F")
		g.Emit("c12.seq "+sh+" "+strings.Join(items, " "), "history-multi-loader", "history-torn-under-a-loaded-loader")
	}
	// histories on the real clock: one loader storing and loading as fast as it can
	for i := g.N(150, 3000); i > 0; i-- {
		sh := c12Shapes[g.R.Intn(4)]
		var items []string
		for n := 2 + g.R.Intn(4); n > 0; n-- {
			items = append(items, fmt.Sprintf("S:0:%s:0", c12SmallSess(g).token()), "L:0")
			switch g.R.Intn(6) {
			case 0, 1:
				items = append(items, "F")
			case 2:
				items = append(items, "C:0", "L:0", "C:0")
			}
		}
		items = append(items, "H")
		if g.R.Intn(5) == 0 {
			g.Emit("c12.nat "+c12InEnv(g, sh)+" "+strings.Join(items, " "), "history-real-clock", "history-in-another-environment")
			continue
		}
		g.Emit("c12.nat "+sh+" "+strings.Join(items, " "), "history-real-clock")
	}
	// every strict prefix of a written file
	for _, h := range c12Hosts {
		g.Emit("c12.torn "+c12Sess{key: []byte{0xfb, 0xff}, hash: []byte{1}, salt: -1, host: []byte(h)}.token(), "torn")
	}
	for i := g.N(40, 1500); i > 0; i-- {
		s := c12GenSess(g)
		if !g.Thorough() && len(s.key) > 64 {
			s.key = s.key[:64]
		}
		g.Emit("c12.torn "+s.token(), "torn")
	}
	// files that were not written by Store
	for _, f := range c12FixedFiles {
		g.Emit("c12.file "+hexD([]byte(f)), "file-fixed")
	}
	for i := g.N(1500, 150000); i > 0; i-- {
		g.Emit("c12.file "+hexD(c12GenRaw(g)), "file-generated")
	}
	// restart
	for i := g.N(80, 3000); i > 0; i-- {
		s := c12GenSess(g)
		g.Emit("c12.resume 1 "+s.token(), "resume-present")
		if i%4 == 0 {
			g.Emit("c12.resume 0 "+s.token(), "resume-missing")
			g.Emit(fmt.Sprintf("c12.resume t%d %s", g.R.Intn(len(specFile(s))), s.token()), "resume-torn")
		}
	}
	// the two ways a Config names its session storage, one at a time and both at once: every combination of
	// {storage: file loader, own implementation, nil} x {holds a session, holds nothing} x {AuthKeyFile: unset, no
	// file there, another session's file, that file cut short, no directory}
	realSess := func() c12Sess {
		s := c12GenSess(g)
		if g.R.Intn(3) > 0 {
			s.key, s.hash = g.R.Bytes(256), g.R.Bytes(8)
		}
		return s
	}
	for _, kind := range []string{"file", "mem", "nil"} {
		for _, state := range []string{"1", "0"} {
			if kind == "nil" && state == "1" {
				continue
			}
			for _, file := range []string{"unset", "0", "1", "t", "nodir"} {
				for i := g.N(3, 120); i > 0; i-- {
					a, b := realSess(), realSess()
					f := file
					if f == "t" {
						f = fmt.Sprintf("t%d", g.R.Intn(len(specFile(b))))
					}
					tag := "cfg-storage-only"
					switch {
					case kind == "nil" && file == "unset":
						tag = "cfg-neither"
					case kind == "nil":
						tag = "cfg-file-only"
					case file != "unset":
						tag = "cfg-storage-and-file"
					}
					g.Emit(fmt.Sprintf("c12.cfg %s %s %s %s %s", kind, state, f, a.token(), b.token()), tag)
				}
			}
		}
	}
	// the started client as the server sees it: the first frame it writes, opened with the stored key alone
	c12GenWire(g)
	// a Store cut by the operating system at every byte, with an older session at the path
	c12GenCut(g)
	// what a caller does with its own objects after Store returned / after Load handed it a session (c12alias.go)
	c12GenAlias(g)
}

// c12GenWire: started clients observed on the wire. Keys of 256 bytes (what a key exchange leaves; random, all zero, all
// ff, counting), every kind of stored hash field: the key's id, 8 other bytes (random, zero, the id with one bit
// flipped, the id reversed, the first 8 key bytes), other lengths (empty, 1, 7, 9, 20 = a whole SHA-1, 36, 256, the id
// with a byte more / less), x three ways to name the store; a few empty stores.
func c12GenWire(g *G) {
	r := g.R
	keys := func() []byte {
		switch r.Intn(8) {
		case 0:
			return make([]byte, 256)
		case 1:
			b := make([]byte, 256)
			for i := range b {
				b[i] = 0xff
			}
			return b
		case 2:
			b := make([]byte, 256)
			for i := range b {
				b[i] = byte(i*7 + 3)
			}
			return b
		}
		return r.Bytes(256)
	}
	type hv struct {
		name string
		f    func(key, id []byte) []byte
	}
	flip := func(id []byte) []byte {
		b := append([]byte{}, id...)
		b[r.Intn(8)] ^= 1 << uint(r.Intn(8))
		return b
	}
	hashes := []hv{
		{"right", func(k, id []byte) []byte { return id }},
		{"random8", func(k, id []byte) []byte { return r.Bytes(8) }},
		{"zero8", func(k, id []byte) []byte { return make([]byte, 8) }},
		{"bitflip8", func(k, id []byte) []byte { return flip(id) }},
		{"reversed8", func(k, id []byte) []byte {
			b := make([]byte, 8)
			for i := range b {
				b[i] = id[7-i]
			}
			return b
		}},
		{"keyhead8", func(k, id []byte) []byte { return k[:8] }},
		{"sha1head8", func(k, id []byte) []byte { s := sha1.Sum(k); return s[:8] }},
		{"empty", func(k, id []byte) []byte { return []byte{} }},
		{"len1", func(k, id []byte) []byte { return id[:1] }},
		{"len7", func(k, id []byte) []byte { return id[:7] }},
		{"len9", func(k, id []byte) []byte { return append(append([]byte{}, id...), 0) }},
		{"len20", func(k, id []byte) []byte { s := sha1.Sum(k); return s[:] }},
		{"len36", func(k, id []byte) []byte { return r.Bytes(36) }},
		{"len256", func(k, id []byte) []byte { return r.Bytes(256) }},
	}
	for round, n := 0, g.N(2, 40); round < n; round++ {
		for _, kind := range []string{"file", "given", "mem"} {
			for _, h := range hashes {
				key := keys()
				s := sha1.Sum(key)
				g.Emit(fmt.Sprintf("c12.wire %s 1 %s %s %d %d", kind, hexD(key), hexD(h.f(key, s[12:20])), c12GenSalt(g), r.U64()>>1),
					"wire", "wire-hash:"+h.name, "wire-storage:"+kind)
			}
		}
	}
	for _, kind := range []string{"file", "given", "mem"} {
		g.Emit(fmt.Sprintf("c12.wire %s 0 %s %s %d %d", kind, hexD(r.Bytes(256)), hexD(r.Bytes(8)), c12GenSalt(g), r.U64()>>1), "wire", "wire-empty-store")
	}
}

// c12GenCut: a Store that does not get through, with an EARLIER session at the path. Pairs (older, newer): the
// ordinary update (only the salt differs: one bit, one byte, every byte), a new key / hash / host name of the same
// length (a migration to another data centre), shorter and longer keys and host names in both directions, two
// unrelated sessions; small sessions and real ones (256-byte key, 8-byte hash, an address). Host names are well-formed
// UTF-8 (the clause about cut files speaks of the sessions that were stored; an ill-formed name is not read back as
// stored even from a complete file).
func c12GenCut(g *G) {
	r := g.R
	host := func() []byte {
		for {
			h := c12GenHost(g)
			if utf8.Valid(h) && len(h) < 64 {
				return h
			}
		}
	}
	cp := func(b []byte) []byte { return append([]byte{}, b...) }
	other := func(b []byte) []byte { // same length, other content
		if len(b) == 0 {
			return b
		}
		o := cp(b)
		switch r.Intn(3) {
		case 0: // one byte
			o[r.Intn(len(o))] ^= byte(1 + r.Intn(255))
		case 1: // from some point on
			for i := r.Intn(len(o)); i < len(o); i++ {
				o[i] ^= byte(1 + r.Intn(255))
			}
		default:
			o = r.Bytes(len(o))
			if string(o) == string(b) {
				o[0] ^= 1
			}
		}
		return o
	}
	otherText := func(h []byte) []byte { // same length, still text: digits and letters replaced
		o := cp(h)
		changed := false
		for i, c := range o {
			if (c >= '0' && c <= '9' || c >= 'a' && c <= 'z') && (r.Intn(3) == 0 || !changed) {
				o[i] = "0123456789abcdefghijklmnopqrstuvwxyz"[(int(c)+1+r.Intn(9))%36]
				changed = changed || o[i] != c
			}
		}
		return o
	}
	type variation struct {
		name string
		f    func(o c12Sess) c12Sess
	}
	vars := []variation{
		{"salt", func(o c12Sess) c12Sess { o.salt = c12GenSalt(g); return o }},
		{"salt-bit", func(o c12Sess) c12Sess { o.salt ^= 1 << uint(r.Intn(64)); return o }},
		{"salt-byte", func(o c12Sess) c12Sess { o.salt ^= int64(1+r.Intn(255)) << uint(8*r.Intn(8)); return o }},
		{"salt-all", func(o c12Sess) c12Sess { o.salt = ^o.salt; return o }},
		{"key", func(o c12Sess) c12Sess { o.key = other(o.key); return o }},
		{"hash", func(o c12Sess) c12Sess { o.hash = other(o.hash); return o }},
		{"host", func(o c12Sess) c12Sess { o.host = otherText(o.host); return o }},
		{"key+hash+salt", func(o c12Sess) c12Sess { o.key, o.hash, o.salt = other(o.key), other(o.hash), c12GenSalt(g); return o }},
		{"host+salt", func(o c12Sess) c12Sess { o.host, o.salt = otherText(o.host), c12GenSalt(g); return o }},
		{"key-shorter", func(o c12Sess) c12Sess { o.key = cp(o.key[:len(o.key)-len(o.key)/3]); return o }},
		{"key-longer", func(o c12Sess) c12Sess { o.key = append(cp(o.key), r.Bytes(1+r.Intn(6))...); return o }},
		{"host-shorter", func(o c12Sess) c12Sess {
			o.host = cp(o.host[:len(o.host)/2])
			for !utf8.Valid(o.host) {
				o.host = o.host[:len(o.host)-1]
			}
			o.salt = c12GenSalt(g)
			return o
		}},
		{"host-longer", func(o c12Sess) c12Sess { o.host = append(cp(o.host), host()...); o.salt = c12GenSalt(g); return o }},
		{"unrelated", func(o c12Sess) c12Sess {
			return c12Sess{key: r.Bytes(r.Intn(40)), hash: r.Bytes(r.Intn(9)), salt: c12GenSalt(g), host: host()}
		}},
	}
	emit := func(older c12Sess, v variation, tags ...string) {
		newer := v.f(older)
		if newer.show() == older.show() {
			newer.salt ^= 1
		}
		sh := "abs"
		if r.Intn(4) == 0 {
			sh = c12Shapes[r.Intn(4)]
		}
		g.Emit(fmt.Sprintf("c12.cut %s %d %s %s", sh, r.Intn(2), older.token(), newer.token()), append([]string{"cut-store", "cut-store:" + v.name}, tags...)...)
	}
	small := func() c12Sess {
		return c12Sess{key: r.Bytes(1 + r.Intn(24)), hash: r.Bytes(r.Pick(0, 1, 8, 8)), salt: c12GenSalt(g), host: host()}
	}
	realS := func() c12Sess {
		return c12Sess{key: r.Bytes(256), hash: r.Bytes(8), salt: c12GenSalt(g),
			host: []byte(fmt.Sprintf("149.154.%d.%d:443", 100+r.Intn(100), 10+r.Intn(80)))}
	}
	// every variation on a small session (a file of ~100 bytes, every cut point); the thorough tier repeats them
	for round, n := 0, g.N(1, 40); round < n; round++ {
		for _, v := range vars {
			emit(small(), v, "cut-store-small")
		}
	}
	// real sessions: the ordinary update and a migration always, the other variations in turn
	for i, n := 0, g.N(6, 200); i < n; i++ {
		v := vars[i%len(vars)]
		if i < 2 {
			v = vars[[]int{0, 8}[i]]
		}
		emit(realS(), v, "cut-store-real")
	}
}

func init() {
	register(&Prop{Name: "c12", Stateless: true, Gen: c12Gen, Exec: c12Exec, Judge: c12Judge, Setup: c12Setup, Teardown: c12Teardown})
}
