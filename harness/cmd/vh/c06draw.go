package main

// C06 — the client's own random draws as an INPUT of the exchange ("Success never depends on the numeric values
// drawn"; "all DH exponents on the 2048-bit group").
//
//   c06.draw <tag> <refusal> <more> <the 18 tokens of a c06.hs after its tag>
//
// The 18 tokens say what crypto/rand.Reader delivers first - nonce (16 bytes), new_nonce (32), the DH exponent b
// (256, big-endian: crypto/rand.Int(Reader, 2^2048) reads exactly 256 bytes) - and what math/rand is seeded with
// (padding of the client's DH message). <more>: what the Reader delivers AFTER those 304 bytes (`-` or hex, a
// multiple of 256 bytes up to 2048: the next 256-byte draws, in order), so that a client that draws its exponent
// again - the description recommends keeping g_b in [2^1984, dh_prime - 2^1984] - reads prescribed bytes, too, and
// the operation replays exactly. Only after them the real OS source answers (counted).
// <refusal>: what the conformant server does with a request it has to refuse (g_b outside (1, dh_prime - 1) is the
// mandatory check): `silent` (answers nothing, keeps the connection) or `close` (drops the connection).
//
// Oracle (from the server's own values): the exchange completes exactly like a c06.hs - same key, key id, salt on
// both sides, one stored session, the first encrypted request readable - WHATEVER the exponent drawn: tiny (1, 2,
// 1000, next to the first power of g that reaches 2^1984), huge (2^2048 - 1), a multiple of the group order plus a
// little, with leading zero bytes; however many draws the client makes (it is not asked to draw once, and not asked
// to draw again). The server refuses nothing - unless the FIRST exponent of the stream gives g^b in {0, 1, dh_prime-1}
// (b = 0, b = the order of g, b = dh_prime - 1): then a client that sends this g_b is refused by every conformant
// server, which is the documented exclusion of hs_agree (`gbRange`), not a violation; what is asked then is that the
// client does not report success, does not switch to encrypted mode, stores no session, and - when the server drops the connection - that its
// CreateConnection ends with an error instead of waiting for ever.

import (
	"bytes"
	"crypto/rsa"
	"fmt"
	"math/big"
	mrand "math/rand"
	"strings"
)

var c06Refusals = []string{"silent", "close"}

func c06DrawOp(tag, refusal string, more []byte, c *hsCase) string {
	m := "-"
	if len(more) > 0 {
		m = hexD(more)
	}
	return strings.Join(append([]string{"c06.draw", tag, refusal, m}, strings.Fields(c.op("x"))[2:]...), " ")
}

func c06ParseDraw(op []string) (c *hsCase, refusal string, more []byte, ok bool) {
	if len(op) != 22 || op[0] != "c06.draw" || (op[2] != "silent" && op[2] != "close") {
		return nil, "", nil, false
	}
	if op[3] != "-" {
		func() {
			defer func() {
				if recover() != nil {
					more = nil
				}
			}()
			more = parseBytes(op[3])
		}()
		if len(more) == 0 || len(more)%256 != 0 || len(more) > 2048 || hexD(more) != op[3] {
			return nil, "", nil, false
		}
	}
	c, ok = c06Parse(append([]string{"c06.hs", "x"}, op[4:]...))
	return c, op[2], more, ok
}

func c06DrawExec(op []string) string {
	c, refusal, more, ok := c06ParseDraw(op)
	if !ok {
		return "bad-op"
	}
	d := c.D
	d.B = append(append([]byte{}, c.D.B...), more...) // the stream goes on after the first exponent
	plan := &hsPlan{D: &d, Pub: &c.S.Key.PublicKey, Secrets: &c.S, Probe: true, Refusal: refusal}
	run, line := c06OnePlan(c, "notfound", plan, nil)
	c06Last = []*hsRun{run}
	return line
}

// c06MustRefuse: does the exponent b give a g_b every conformant server has to refuse (not 1 < g_b < dh_prime - 1)?
func c06MustRefuse(c *hsCase, b []byte) (bool, *big.Int) {
	gB := new(big.Int).Exp(big.NewInt(int64(c.S.G)), new(big.Int).SetBytes(b), c.S.DhPrime)
	one := big.NewInt(1)
	return gB.Cmp(one) <= 0 || gB.Cmp(new(big.Int).Sub(c.S.DhPrime, one)) >= 0, gB
}

func c06ShowExp(b []byte) string {
	x := new(big.Int).SetBytes(b)
	if x.BitLen() <= 64 {
		return x.String()
	}
	return fmt.Sprintf("%s… (%d bits, %d leading zero bytes)", hexD(hsFixed(x, 256)[:6]), x.BitLen(), hsLeadingZeros(hsFixed(x, 256)))
}

func c06JudgeDraw(run *hsRun, c *hsCase, refusal string, more []byte, clock string) []string {
	var bad []string
	add := func(f string, a ...interface{}) { bad = append(bad, fmt.Sprintf(f, a...)) }
	drawn := fmt.Sprintf("crypto/rand delivered the DH exponent b = %s", c06ShowExp(c.D.B))
	for i := 0; i+256 <= len(more); i += 256 {
		drawn += fmt.Sprintf(", then %s", c06ShowExp(more[i:i+256]))
	}
	drawn += fmt.Sprintf(" (g = %d; the client read %d bytes of the prescribed stream and %d beyond it)", c.S.G, run.RandUsed, run.Overrun)
	refuse, gB := c06MustRefuse(c, c.D.B)
	if refuse && strings.HasPrefix(run.Srv.Reject, "client_DH_inner_data: g_b outside") {
		// the client sent the g_b of its first draw, which no conformant server may accept (documented exclusion): it
		// must not take the exchange for completed, and must notice a connection that was dropped
		what := fmt.Sprintf("%s: g_b = %s, which the server had to refuse (%s)", drawn, gB.String(), refusal)
		if run.Outcome == "ok" || run.Enc || len(run.Stores) != 0 {
			add("%s; yet the client ended with %s, encrypted=%v, %d stored session(s)", what, run.Outcome, run.Enc, len(run.Stores))
		}
		if refusal == "close" && !strings.HasPrefix(run.Outcome, "err:") {
			add("%s and dropped the connection; CreateConnection ended with %q, not with an error", what, run.Outcome)
		}
		return bad
	}
	if bs := c06JudgeRunCore(run, "notfound", clock); len(bs) > 0 {
		add("%s: %s", drawn, strings.Join(bs, "; "))
	}
	return bad
}

// c06LowExp: the smallest k with g^k >= 2^1984 (below it g_b = g^k is smaller than the recommended lower end)
func c06LowExp(g int32) int64 {
	lim := new(big.Int).Lsh(big.NewInt(1), 1984)
	x := big.NewInt(1)
	for k := int64(0); ; k++ {
		if x.Cmp(lim) >= 0 {
			return k
		}
		x.Mul(x, big.NewInt(int64(g)))
	}
}

// c06PadSeed: a seed of math/rand whose first bytes (the padding of the client's DH message) satisfy ok
func c06PadSeed(r *Rand, ok func(p []byte) bool) (int64, bool) {
	base := int64(r.U64() >> 2)
	p := make([]byte, 16)
	for i := int64(0); i < 1<<18; i++ {
		mrand.Seed(base + i)
		mrand.Read(p)
		if ok(p) {
			return base + i, true
		}
	}
	return 0, false
}

func c06DrawGen(g *G, next func() *rsa.PrivateKey, groups []c06Group) {
	r := g.R
	fresh := func(i int) *hsCase {
		c := hsRandomCase(r, next())
		c06InGroup(r, c, groups[i%len(groups)])
		if i%3 == 0 {
			c06RelClock(r, c)
		}
		return c
	}
	ordinary := func(n int) []byte { return r.Bytes(256 * n) }
	exp := func(x *big.Int) []byte { return hsFixed(x, 256) }
	small := func(k int64) []byte { return exp(big.NewInt(k)) }
	n := 0
	emit := func(tag string, c *hsCase, refusal string, more []byte, tags ...string) {
		n++
		g.Emit(c06DrawOp("draw:"+tag, refusal, more, c), append([]string{"draw"}, tags...)...)
	}
	// (a) the exponent: tiny, next to the recommended lower end of g_b, huge, around multiples of the group order,
	// with leading zero bytes. The stream goes on with two ordinary exponents (what a client that draws again reads).
	for i, k := range []int64{1, 2, 1000} {
		c := fresh(i)
		c.D.B = small(k)
		emit(fmt.Sprintf("b-%d", k), c, "silent", ordinary(2), "draw:b-tiny")
	}
	for i, gv := range []int32{3, 0} { // g = 3 (b = 1251 / 1252), and whatever g the group drew
		for _, dk := range []int64{-1, 0} {
			c := fresh(i)
			if gv != 0 && c06GOk(c.S.DhPrime, int(gv)) {
				c.S.G = gv
			}
			k := c06LowExp(c.S.G) + dk
			c.D.B = small(k)
			emit(fmt.Sprintf("b-%d-g%d-lower-end%+d", k, c.S.G, dk), c, "silent", ordinary(2), "draw:b-lower-end")
		}
	}
	{
		c := fresh(1)
		c.D.B = bytes.Repeat([]byte{0xff}, 256)
		emit("b-all-ff", c, "silent", ordinary(2), "draw:b-huge")
		c = fresh(2)
		c.D.B = exp(new(big.Int).Lsh(big.NewInt(1), 2047))
		emit("b-2^2047", c, "silent", ordinary(2), "draw:b-huge")
	}
	for i, m := range []struct {
		name     string
		mul, add int64
	}{{"order+1", 1, 1}, {"dh_prime", 2, 1}, {"dh_prime+1000", 2, 1001}, {"3*order+2", 3, 2}} {
		c := fresh(i)
		q := new(big.Int).Rsh(c.S.DhPrime, 1) // (dh_prime - 1) / 2, the order of g
		b := new(big.Int).Mul(q, big.NewInt(m.mul))
		b.Add(b, big.NewInt(m.add))
		if b.BitLen() > 2048 {
			continue
		}
		c.D.B = exp(b)
		emit("b-"+m.name, c, "silent", ordinary(2), "draw:b-multiple")
	}
	for i, z := range []int{1, 2, 8, 128, 248} {
		c := fresh(i)
		c.D.B = hsForce(r, 256, z)
		emit(fmt.Sprintf("b-%d-leading-zero-bytes", z), c, "silent", ordinary(1), "draw:b-leading-zeros")
	}
	// (b) the first draw(s) below the recommended range, a later one fine
	{
		c := fresh(0)
		c.D.B = small(1 + int64(r.Intn(int(c06LowExp(c.S.G))-1)))
		emit("first-low-second-fine", c, "silent", ordinary(1), "draw:sequence")
		c = fresh(1)
		c.D.B = small(3)
		emit("two-low-third-fine", c, "silent", append(small(5), ordinary(1)...), "draw:sequence")
		c = fresh(2)
		c.D.B = small(7)
		emit("low-then-nothing-prescribed", c, "silent", nil, "draw:sequence")
		c = fresh(3)
		c.D.B = small(1)
		emit("low-then-zero", c, "silent", append(small(0), ordinary(1)...), "draw:sequence")
	}
	// (c) the nonces: all zero, all ones, leading zero bytes - together with a tiny exponent
	{
		c := fresh(0)
		c.D.Nonce, c.D.NewNonce = make([]byte, 16), make([]byte, 32)
		emit("nonces-zero", c, "silent", ordinary(1), "draw:nonces")
		c = fresh(1)
		c.D.Nonce, c.D.NewNonce, c.D.B = make([]byte, 16), make([]byte, 32), small(2)
		emit("nonces-zero-b-2", c, "silent", ordinary(1), "draw:nonces")
		c = fresh(2)
		c.D.Nonce, c.D.NewNonce = bytes.Repeat([]byte{0xff}, 16), bytes.Repeat([]byte{0xff}, 32)
		emit("nonces-all-ff", c, "silent", ordinary(1), "draw:nonces")
		c = fresh(3)
		c.D.Nonce, c.D.NewNonce = hsForce(r, 16, 15), hsForce(r, 32, 31)
		emit("nonces-one-byte", c, "silent", ordinary(1), "draw:nonces")
		c = fresh(4)
		c.D.Nonce, c.D.NewNonce = hsForce(r, 16, 8), hsForce(r, 32, 16)
		c.D.B = hsForce(r, 256, 200)
		emit("nonces-half-zero-b-short", c, "silent", ordinary(1), "draw:nonces")
	}
	// (d) the padding of the client's DH message (math/rand): beginning with zero bytes, ending with one
	for _, p := range []struct {
		name string
		ok   func(p []byte) bool
	}{
		{"pad-two-leading-zero-bytes", func(p []byte) bool { return p[0] == 0 && p[1] == 0 }},
		{"pad-last-byte-zero", func(p []byte) bool { return p[11] == 0 && p[15] == 0 }},
		{"pad-leading-ff", func(p []byte) bool { return p[0] == 0xff && p[1] == 0xff }},
	} {
		c := fresh(n)
		seed, ok := c06PadSeed(r, p.ok)
		if !ok {
			g.Extra["pad-seed-not-found:"+p.name] = true
			continue
		}
		c.D.PadSeed = seed
		emit(p.name, c, "silent", ordinary(1), "draw:padding")
	}
	// (e) first exponents whose g_b every conformant server has to refuse: 0, the order of g, dh_prime - 1. A client
	// that sends it is refused (documented exclusion); the server drops the connection, CreateConnection must end.
	for i, name := range []string{"zero", "order", "dh_prime-1"} {
		c := fresh(i)
		q := new(big.Int).Rsh(c.S.DhPrime, 1)
		switch name {
		case "zero":
			c.D.B = small(0)
		case "order":
			c.D.B = exp(q)
		default:
			c.D.B = exp(new(big.Int).Lsh(q, 1))
		}
		emit("b-"+name+"-refused-close", c, "close", ordinary(2), "draw:refused")
	}
	if g.Thorough() {
		c := fresh(0)
		c.D.B = small(0)
		emit("b-zero-refused-silent", c, "silent", ordinary(2), "draw:refused")
		for i := 0; i < 200; i++ {
			c := fresh(i)
			c.D.B = small(int64(r.Intn(3000)))
			if i%2 == 0 {
				c.D.B = hsForce(r, 256, 1+r.Intn(255))
			}
			if must, _ := c06MustRefuse(c, c.D.B); must {
				continue
			}
			emit("random", c, "silent", ordinary(1+r.Intn(2)), "draw:random")
		}
	}
}
