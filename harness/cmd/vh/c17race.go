package main

// C17 (last clause) with C16 ("requests issued afterwards still complete") — the migration when the old data centre
// hangs up in the same breath.
//
// The lifecycle model (lean/Mtv/Client/Lifecycle.lean, overlapping_reconnect_can_strand_the_client) says what happens
// when two Reconnect()s overlap. A server can make them overlap: it answers a request with rpc_error PHONE_MIGRATE_n and
// closes the connection right behind the frame. The caller's goroutine (makeRequest → tryToProcessErr → Reconnect) and
// the reading goroutine (readMsg → io.EOF / broken connection → Reconnect) then both replace the connection.
//
//	c17.race <close> <hold> <procs> <iters>
//
//	close  what the old data centre H does after it has written rpc_error 303 PHONE_MIGRATE_2 for the first request:
//	       fin (Close at once: FIN right behind the frame), half (CloseWrite: FIN, keeps reading), rst (SO_LINGER 0 +
//	       Close: RST behind the frame), fin<µs> / rst<µs> (the same after that many microseconds), keep (does not close
//	       at all: control — only the caller reconnects)
//	hold   none | <point>:<µs> — the yield hook holds every goroutine of the client that passes <point>
//	       (read, write, recv:process, call:sent) for that long while the scenario runs
//	procs  GOMAXPROCS while the scenario runs (1, 2, 4, 16)
//	iters  how often the scenario is run (a fresh client and fresh peers each time)
//
// Each iteration: client on a stored session for H, SetDCList({2: A}), CreateConnection, MakeRequest(ping).
// Independent judgement per iteration (nothing of it comes from the Lean model or from the client's state):
//   - the call returns, without panic, exactly the pong that A made for this request (msg_id and ping_id);
//   - H received the request once, A received it once;
//   - a probe request issued afterwards returns A's pong for it;
//   - afterwards A has exactly ONE open connection, it is the one that carried call and probe; H has none opened
//     after the migration still open;
//   - exactly one goroutine of the client is in the receive loop (goroutine dump: startReadingResponses).
//
// Result: `race ok=<n>/<n>` — or `race ok=<k>/<n> bad=<class>*<count>,… first=<iteration>:<detail>`.

import (
	"encoding/binary"
	"fmt"
	"io"
	"net"
	"runtime"
	"sort"
	"strconv"
	"strings"
	"sync"
	"sync/atomic"
	"time"

	"github.com/xelaj/mtproto"
	"github.com/xelaj/mtproto/internal/mtproto/objects"
	"github.com/xelaj/mtproto/internal/transport"
)

type c17rConn struct {
	c      net.Conn
	n      int  // number of this connection at its peer, from 1
	pings  int  // requests received on it
	closed bool // the peer has seen its end (EOF / error) or closed it itself
}

// c17rPeer: a data centre. migrate = 0: answers every ping with pong. migrate = n: answers the FIRST ping it ever gets
// with rpc_error 303 PHONE_MIGRATE_n and ends that connection as `closeHow` says; later pings (a client that came back
// to the old address) are answered with pong, so that such a client is seen to be served by the wrong data centre.
type c17rPeer struct {
	ln       net.Listener
	key      []byte
	migrate  int
	closeHow string
	delay    time.Duration

	mu      sync.Mutex
	conns   []*c17rConn
	reqs    []c17PeerReq
	reqConn []int // connection number each request came on
	nextID  uint64
	sent    uint32
	done    bool // the migration answer has been given
	// migrateAll: EVERY ping is answered with PHONE_MIGRATE_n, not only the first (c17.inflight: a data centre that
	// sends all the requests it has in hand elsewhere)
	migrateAll bool
}

func newC17rPeer(key []byte, migrate int, closeHow string, delay time.Duration) *c17rPeer {
	ln, err := net.Listen("tcp", "127.0.0.1:0")
	if err != nil {
		panic(err)
	}
	p := &c17rPeer{ln: ln, key: key, migrate: migrate, closeHow: closeHow, delay: delay, nextID: uint64(time.Now().Unix())<<32 | 1}
	go func() {
		for {
			c, err := ln.Accept()
			if err != nil {
				return
			}
			p.mu.Lock()
			rc := &c17rConn{c: c, n: len(p.conns) + 1}
			p.conns = append(p.conns, rc)
			p.mu.Unlock()
			go p.serve(rc)
		}
	}()
	return p
}

func (p *c17rPeer) addr() string { return p.ln.Addr().String() }

func (p *c17rPeer) serve(rc *c17rConn) {
	c := rc.c
	defer func() {
		p.mu.Lock()
		rc.closed = true
		p.mu.Unlock()
		_ = c.Close()
	}()
	ann := make([]byte, 4)
	if _, err := io.ReadFull(c, ann); err != nil {
		return
	}
	for {
		hdr := make([]byte, 4)
		if _, err := io.ReadFull(c, hdr); err != nil {
			return
		}
		n := binary.LittleEndian.Uint32(hdr)
		if n > 1<<24 {
			return
		}
		pkt := make([]byte, n)
		if _, err := io.ReadFull(c, pkt); err != nil {
			return
		}
		m, why := envOpen(0, p.key, pkt, true)
		if why != "" || len(m.Body) != 12 || binary.LittleEndian.Uint32(m.Body) != c17CrcPing {
			continue // msgs_ack and anything else
		}
		ping := binary.LittleEndian.Uint64(m.Body[4:])
		p.mu.Lock()
		p.reqs = append(p.reqs, c17PeerReq{mid: m.Mid, ping: ping})
		p.reqConn = append(p.reqConn, rc.n)
		rc.pings++
		p.nextID += 4
		mid := p.nextID
		seq := p.sent*2 + 1
		p.sent++
		migrateNow := p.migrate != 0 && (!p.done || p.migrateAll)
		p.done = true
		p.mu.Unlock()
		var payload []byte
		if migrateNow {
			payload = append(append(c17U32(c17CrcRpcError), c17U32(303)...), c17TLString([]byte("PHONE_MIGRATE_"+strconv.Itoa(p.migrate)))...)
		} else {
			payload = append(append(c17U32(c17CrcPong), c17U64(m.Mid)...), c17U64(ping)...)
		}
		body := append(append(c17U32(c17CrcRpcResult), c17U64(m.Mid)...), payload...)
		out := envSeal(8, p.key, envMsg{Salt: m.Salt, Sid: m.Sid, Mid: mid, Seq: seq, Body: body}, make([]byte, (16-(32+len(body))%16)%16))
		if _, err := c.Write(append(c17U32(uint32(len(out))), out...)); err != nil {
			return
		}
		if !migrateNow || p.closeHow == "keep" {
			continue
		}
		if p.delay > 0 {
			time.Sleep(p.delay)
		}
		tc, _ := c.(*net.TCPConn)
		switch p.closeHow {
		case "half":
			if tc != nil {
				_ = tc.CloseWrite()
			}
			continue // keeps reading until the client closes
		case "rst":
			if tc != nil {
				_ = tc.SetLinger(0)
			}
		}
		return // deferred Close
	}
}

func (p *c17rPeer) stop() {
	_ = p.ln.Close()
	p.mu.Lock()
	for _, rc := range p.conns {
		_ = rc.c.Close()
	}
	p.mu.Unlock()
}

// c17rReaders: goroutines of the process that are in the client's receive loop
func c17rReaders() int {
	buf := make([]byte, 1<<20)
	for {
		n := runtime.Stack(buf, true)
		if n < len(buf) {
			buf = buf[:n]
			break
		}
		buf = make([]byte, 2*len(buf))
	}
	cnt := 0
	for _, g := range strings.Split(string(buf), "\n\n") {
		if strings.Contains(g, "(*MTProto).startReadingResponses.func1") {
			cnt++
		}
	}
	return cnt
}

var (
	c17rHoldPoint atomic.Value // string
	c17rHoldNanos int64
	c17rHeld      int64
	c17rPing      int64
	c17rLeaked    int64 // runs that left a receive loop behind after Disconnect
)

func c17rYield(point string, _ interface{}) {
	if p, _ := c17rHoldPoint.Load().(string); p != "" && p == point {
		atomic.AddInt64(&c17rHeld, 1)
		time.Sleep(time.Duration(atomic.LoadInt64(&c17rHoldNanos)))
	}
}

type c17rResult struct {
	v     interface{}
	err   error
	panic bool
}

func c17rCall(m *mtproto.MTProto, ping int64, wait time.Duration) (c17rResult, bool) {
	done := make(chan c17rResult, 1)
	go func() {
		defer func() {
			if r := recover(); r != nil {
				done <- c17rResult{panic: true, err: fmt.Errorf("%v", r)}
			}
		}()
		v, err := m.MakeRequest(&objects.PingParams{PingID: ping})
		done <- c17rResult{v: v, err: err}
	}()
	select {
	case r := <-done:
		return r, true
	case <-time.After(wait):
		return c17rResult{}, false
	}
}

// c17rAnsweredBy: v is the pong peer p made for the request with this ping_id (msg_id and ping_id of a request it got)
func c17rAnsweredBy(p *c17rPeer, v interface{}, ping int64) (conn int, ok bool) {
	pong, isPong := v.(*objects.Pong)
	if !isPong || pong.PingID != ping {
		return 0, false
	}
	p.mu.Lock()
	defer p.mu.Unlock()
	for i, r := range p.reqs {
		if r.mid == uint64(pong.MsgID) && r.ping == uint64(ping) {
			return p.reqConn[i], true
		}
	}
	return 0, false
}

// c17rOnce: one run of the scenario; "" or (class, detail) of what is wrong
func c17rOnce(closeHow string, delay time.Duration) (class, detail string) {
	key := envLCG(256, 1717)
	h := newC17rPeer(key, 2, closeHow, delay)
	a := newC17rPeer(key, 0, "", 0)
	var m *mtproto.MTProto
	base := 0
	defer func() {
		if m != nil {
			func() {
				defer func() { _ = recover() }()
				_ = m.Disconnect()
			}()
			// On a tree where Reconnects overlap a context may have been lost (m.stopRoutines overwritten): its reading
			// routine and keepalive go on for ever. Taking the peers away from such a client makes its reading routine
			// redial, fail and leave a nil transport, through which the keepalive panics a minute later - in the middle
			// of some other operation. The peers of such a run are left standing instead.
			for deadline := time.Now().Add(100 * time.Millisecond); c17rReaders() > base; time.Sleep(time.Millisecond) {
				if time.Now().After(deadline) {
					atomic.AddInt64(&c17rLeaked, 1)
					return
				}
			}
		}
		h.stop()
		a.stop()
	}()
	// clients of earlier operations / iterations have been disconnected: their receive loops end within moments
	base = c17rReaders()
	for deadline := time.Now().Add(300 * time.Millisecond); base != 0 && time.Now().Before(deadline); base = c17rReaders() {
		time.Sleep(time.Millisecond)
	}
	mm, err := mtproto.NewMTProto(mtproto.Config{SessionStorage: c17KeyedSession{key, h.addr()}, ServerHost: h.addr()})
	if err != nil {
		return "setup", "NewMTProto"
	}
	m = mm
	m.SetDCList(map[int]string{2: a.addr()})
	if err := m.CreateConnection(); err != nil {
		m = nil
		return "setup", "CreateConnection"
	}
	ping := 0x17c00000 + atomic.AddInt64(&c17rPing, 2)
	res, returned := c17rCall(m, ping, 2*time.Second)
	counts := func() string {
		h.mu.Lock()
		a.mu.Lock()
		defer h.mu.Unlock()
		defer a.mu.Unlock()
		return fmt.Sprintf("H{conns=%d reqs=%d} A{conns=%d reqs=%d} readers=%d", len(h.conns), len(h.reqs), len(a.conns), len(a.reqs), c17rReaders()-base)
	}
	switch {
	case !returned:
		return "call-no-return", counts()
	case res.panic:
		return "call-panic", clip(res.err.Error())
	case res.err != nil:
		return "call-error", clip(res.err.Error()) + " " + counts()
	}
	callConn, ok := c17rAnsweredBy(a, res.v, ping)
	if !ok {
		if _, byH := c17rAnsweredBy(h, res.v, ping); byH {
			return "call-answered-by-old-dc", counts()
		}
		return "call-wrong-answer", fmt.Sprintf("%T %s", res.v, counts())
	}
	// requests issued afterwards still complete (C16)
	pres, preturned := c17rCall(m, ping+1, 2*time.Second)
	switch {
	case !preturned:
		return "probe-no-return", counts()
	case pres.panic:
		return "probe-panic", clip(pres.err.Error())
	case pres.err != nil:
		return "probe-error", clip(pres.err.Error()) + " " + counts()
	}
	probeConn, ok := c17rAnsweredBy(a, pres.v, ping+1)
	if !ok {
		return "probe-wrong-answer", fmt.Sprintf("%T %s", pres.v, counts())
	}
	// the settled state: one live connection to the new data centre, the one that carried the traffic; one receive
	// loop. Connections the client replaced are closed by a goroutine of its own: give them a moment.
	var why string
	for deadline := time.Now().Add(500 * time.Millisecond); ; {
		why = ""
		h.mu.Lock()
		hReqs, hOpenLater := len(h.reqs), 0
		for _, rc := range h.conns {
			if rc.n > 1 && !rc.closed {
				hOpenLater++
			}
		}
		h.mu.Unlock()
		a.mu.Lock()
		aReqs, aOpen, aOpenConn := len(a.reqs), 0, 0
		for _, rc := range a.conns {
			if !rc.closed {
				aOpen++
				aOpenConn = rc.n
			}
		}
		a.mu.Unlock()
		readers := c17rReaders() - base
		switch {
		case hReqs != 1:
			why = fmt.Sprintf("requests:the old data centre received %d requests", hReqs)
		case aReqs != 2:
			why = fmt.Sprintf("requests:the new data centre received %d requests for one call and one probe", aReqs)
		case callConn != probeConn:
			why = fmt.Sprintf("connections:call answered on connection %d of the new data centre, probe on %d", callConn, probeConn)
		case aOpen != 1 || aOpenConn != probeConn:
			why = fmt.Sprintf("connections:%d open connections to the new data centre (traffic on %d, open %d)", aOpen, probeConn, aOpenConn)
		case hOpenLater != 0:
			why = fmt.Sprintf("connections:%d connections to the OLD data centre opened after the migration are still open", hOpenLater)
		case readers != 1:
			why = fmt.Sprintf("readers:%d goroutines in the receive loop", readers)
		}
		if why == "" || time.Now().After(deadline) {
			break
		}
		time.Sleep(2 * time.Millisecond)
	}
	if why != "" {
		i := strings.IndexByte(why, ':')
		return "settled-" + why[:i], why[i+1:] + " " + counts()
	}
	return "", ""
}

func c17rParseClose(tok string) (how string, delay time.Duration, ok bool) {
	for _, h := range []string{"fin", "rst", "half", "keep"} {
		if strings.HasPrefix(tok, h) {
			rest := tok[len(h):]
			if rest == "" {
				return h, 0, true
			}
			us, okN := c17rNat(rest)
			if !okN || us > 1000000 || h == "keep" || h == "half" {
				return "", 0, false
			}
			return h, time.Duration(us) * time.Microsecond, true
		}
	}
	return "", 0, false
}

var c17rPoints = map[string]bool{"read": true, "write": true, "recv:process": true, "call:sent": true}

// c17rNat: a natural number written with digits only
func c17rNat(t string) (int, bool) {
	if t == "" || len(t) > 7 || strings.Trim(t, "0123456789") != "" {
		return 0, false
	}
	n, err := strconv.Atoi(t)
	return n, err == nil
}

func c17RaceExec(op []string) (string, bool) {
	if len(op) == 0 || op[0] != "c17.race" {
		return "", false
	}
	if len(op) != 5 {
		return "bad-op", true
	}
	how, delay, ok := c17rParseClose(op[1])
	procs, ok1 := c17rNat(op[3])
	iters, ok2 := c17rNat(op[4])
	if !ok || !ok1 || !ok2 || procs < 1 || procs > 64 || iters < 1 || iters > 100000 || strconv.Itoa(iters) != op[4] {
		return "bad-op", true
	}
	point, holdFor := "", time.Duration(0)
	if op[2] != "none" {
		i := strings.LastIndexByte(op[2], ':')
		if i < 0 {
			return "bad-op", true
		}
		us, okN := c17rNat(op[2][i+1:])
		if !okN || us > 1000000 || !c17rPoints[op[2][:i]] {
			return "bad-op", true
		}
		point, holdFor = op[2][:i], time.Duration(us)*time.Microsecond
	}
	prevProcs := runtime.GOMAXPROCS(procs)
	prevY, prevTY := mtproto.VerifYield, transport.VerifYield
	atomic.StoreInt64(&c17rHoldNanos, int64(holdFor))
	c17rHoldPoint.Store(point)
	mtproto.VerifYield, transport.VerifYield = c17rYield, c17rYield
	defer func() {
		c17rHoldPoint.Store("")
		mtproto.VerifYield, transport.VerifYield = prevY, prevTY
		runtime.GOMAXPROCS(prevProcs)
	}()
	okN, ran := 0, 0
	bad := map[string]int{}
	first := ""
	started := time.Now()
	for i := 0; i < iters; i++ {
		// a tree on which most iterations hang must not take for ever: enough is known after a few
		if len(bad) > 0 && (okN+sum(bad) >= iters || sum(bad) >= 2 || time.Since(started) > 40*time.Second) {
			break
		}
		ran++
		class, detail := c17rOnce(how, delay)
		if class == "" {
			okN++
			continue
		}
		bad[class]++
		if first == "" {
			first = fmt.Sprintf("%d:%s:%s", i+1, class, strings.ReplaceAll(detail, " ", "_"))
		}
	}
	if len(bad) == 0 {
		return fmt.Sprintf("race ok=%d/%d", okN, iters), true
	}
	var cl []string
	for k, v := range bad {
		cl = append(cl, fmt.Sprintf("%s*%d", k, v))
	}
	sort.Strings(cl)
	return fmt.Sprintf("race ok=%d/%d ran=%d bad=%s first=%s", okN, iters, ran, strings.Join(cl, ","), first), true
}

func sum(m map[string]int) int {
	t := 0
	for _, v := range m {
		t += v
	}
	return t
}

// c17RaceJudge (from the property text): "the client reconnects to the address configured for data centre X and repeats
// the request there" — the caller gets that data centre's answer, every time; C16: "requests issued afterwards still
// complete".
func c17RaceJudge(op []string, out string) string {
	if out == "bad-op" || len(op) != 5 {
		return ""
	}
	if out == fmt.Sprintf("race ok=%s/%s", op[4], op[4]) {
		return ""
	}
	return fmt.Sprintf("migration while the old data centre hangs up (%s behind rpc_error PHONE_MIGRATE_2, hold %s, GOMAXPROCS %s): in every run the call must "+
		"return the new data centre's answer, a later request must complete there, and the client must be left with one connection and one "+
		"receive loop; got: %s", op[1], op[2], op[3], out)
}

func c17RaceGen(g *G) {
	n := g.N(120, 700)
	for _, procs := range []int{1, 2, 16} {
		g.Emit(fmt.Sprintf("c17.race fin none %d %d", procs, n), "race-migrate-and-close")
	}
	g.Emit(fmt.Sprintf("c17.race keep none 2 %d", g.N(20, 200)), "race-migrate-control")
	if g.Thorough() {
		for _, c := range []string{"half", "rst", "fin50", "fin300", "rst200"} {
			for _, procs := range []int{1, 4} {
				g.Emit(fmt.Sprintf("c17.race %s none %d %d", c, procs, 300), "race-migrate-and-close")
			}
		}
		// every goroutine of the client held at one of the yield points of the request path
		for i, h := range []string{"read:200", "write:200", "recv:process:200", "call:sent:200", "write:50", "read:1000"} {
			g.Emit(fmt.Sprintf("c17.race %s %s %d 150", []string{"fin", "rst"}[i%2], h, []int{2, 1, 16}[i%3]), "race-migrate-held")
		}
	}
}
